#!/usr/bin/env python3
"""tools_seed.py verify <Cxx> <k>   — confirm a seeded change in its scratch worktree /tmp/seed-Cxx:
patch applies, builds, baseline passes, demo FAILS with the change and PASSES without it.
tools_seed.py check <Cxx> <k> <check ids...> — apply the patch to /repo, run ./check <id> quick for each id,
undo the patch (git apply -R), report which checks raised a VIOLATION.  /repo must be clean."""
import json, os, re, shutil, subprocess, sys, time

ENV = dict(os.environ, GOFLAGS="-mod=mod", GOPROXY="off", GOSUMDB="off", GOTOOLCHAIN="local")

def sh(cmd, cwd=None, timeout=900):
    p = subprocess.run(cmd, shell=True, cwd=cwd, env=ENV, capture_output=True, text=True, timeout=timeout)
    return p.returncode, (p.stdout + p.stderr)

def demo_plan(prop, k):
    d = f"/tmp/seed-out-{prop}/{k}"
    if not os.path.isdir(d):
        d = f"/verif/seeded/{prop}-{k}"
    meta = json.load(open(f"{d}/meta.json"))
    cmd = meta["how_to_run_demo"]
    # expand simple shell variables of the form NAME=/abs/path used later as $NAME
    for name, val in re.findall(r"\b([A-Z][A-Z0-9_]*)=(/[^\s;]+)", cmd):
        cmd = cmd.replace("$" + name, val).replace("${" + name + "}", val)
    wt = f"/tmp/seed-{prop}"
    m = re.search(r"cp\s+(\S+)\s+(\S+)", cmd)
    src, dst = m.group(1), m.group(2).rstrip(";")
    src = os.path.join(d, os.path.basename(src))
    if not dst.startswith("/"):
        dst = os.path.join(wt, dst)
    t = re.search(r"(go test[^#;&\n]*)", cmd).group(1)
    t = re.split(r"\s{2,}\(", t)[0].strip()      # drop a trailing "   (package …)" remark
    t = t.rstrip(")").strip()
    # directory of the go test command: the last `cd X` before it, else the worktree
    pre = cmd[:cmd.index(t)]
    cds = [c.rstrip(";") for c in re.findall(r"cd\s+(\S+)", pre)]
    cwd = cds[-1] if cds else wt
    if not cwd.startswith("/"):
        cwd = os.path.join(wt, cwd)
    return d, meta, wt, src, dst, t, cwd

def verify(prop, k):
    d, meta, wt, src, dst, t, cwd = demo_plan(prop, k)
    res = dict(property=prop, k=k, title=meta.get("title"))
    sh("git checkout -- . && git clean -fdq", cwd=wt)
    rc, out = sh(f"git apply {d}/patch.diff", cwd=wt)
    res["applies"] = rc == 0
    rc, out = sh("go build ./... && go vet .", cwd=wt)
    res["builds"] = rc == 0
    rc, out = sh(f"/var/tmp/run_baseline.sh {wt}")
    res["baseline"] = out.strip().splitlines()[0] if out.strip() else ""
    res["baseline_ok"] = rc == 0
    os.makedirs(os.path.dirname(dst), exist_ok=True)
    shutil.copyfile(src, dst)
    rc, out = sh(t, cwd=cwd, timeout=600)
    res["demo_with_change_fails"] = rc != 0
    res["demo_with_change"] = "\n".join([l for l in out.splitlines() if "FAIL" in l or "---" in l][:6])[:800]
    sh(f"git apply -R {d}/patch.diff", cwd=wt)
    rc, out = sh(t, cwd=cwd, timeout=600)
    res["demo_without_change_passes"] = rc == 0
    res["demo_without_change"] = out.strip().splitlines()[-1][:200] if out.strip() else ""
    os.remove(dst)
    sh("git checkout -- . && git clean -fdq", cwd=wt)
    res["confirmed"] = all([res["applies"], res["builds"], res["baseline_ok"], res["demo_with_change_fails"], res["demo_without_change_passes"]])
    return res

def check(prop, k, ids):
    d = f"/tmp/seed-out-{prop}/{k}"
    if not os.path.isdir(d):
        d = f"/verif/seeded/{prop}-{k}"
    rc, out = sh("git status --porcelain --untracked-files=no", cwd="/repo")
    if out.strip():
        return dict(error="/repo is not clean: " + out.strip()[:300])
    rc, out = sh(f"git apply --3way {d}/patch.diff || git apply {d}/patch.diff", cwd="/repo")
    if rc != 0:
        sh("git checkout -- . ", cwd="/repo")
        return dict(error="patch does not apply to /repo HEAD: " + out[-300:])
    sh("git reset -q", cwd="/repo")
    results = {}
    try:
        rc, out = sh("go build ./...", cwd="/repo")
        if rc != 0:
            return dict(error="does not build on /repo HEAD: " + out[-300:])
        for pid in ids:
            t0 = time.time()
            rc, out = sh(f"./check {pid} quick", cwd="/verif", timeout=2400)
            viol = [l for l in out.splitlines() if l.startswith("VIOLATION")]
            detail = []
            for v in viol[:3]:
                m = re.search(r"replay=(\S+)", v)
                if m and os.path.exists(m.group(1)):
                    r = json.load(open(m.group(1)))
                    detail.append(dict(layer=r.get("layer"), broken=str(r.get("broken"))[:300], has_input=bool(r.get("input"))))
            results[pid] = dict(exit=rc, violations=len(viol), no_failing_input=sum("no-failing-input-found" in v for v in viol),
                                detail=detail, wall_s=round(time.time() - t0, 1))
    finally:
        rc, out = sh(f"git apply -R {d}/patch.diff", cwd="/repo")
        if rc != 0:
            sh("git checkout -- .", cwd="/repo")
        rc, out = sh("git status --porcelain --untracked-files=no", cwd="/repo")
        results["_repo_clean_after"] = not out.strip()
    return results

if __name__ == "__main__":
    if sys.argv[1] == "verify":
        print(json.dumps(verify(sys.argv[2], sys.argv[3]), indent=1))
    elif sys.argv[1] == "check":
        print(json.dumps(check(sys.argv[2], sys.argv[3], sys.argv[4:]), indent=1))


def eval_isolated(prop, k, ids, keep=False):
    """Run checks against a bind-mounted COPY of /repo (HEAD + untracked hook files + the seeded
    patch) and a copy of /verif, inside a private mount namespace, so that the real /repo and
    /verif (where other work may be in progress) are never touched."""
    d = f"/verif/seeded/{prop}-{k}"
    root = f"/var/tmp/eval/{prop}-{k}"
    shutil.rmtree(root, ignore_errors=True)
    os.makedirs(root)
    res = dict(property=prop, k=k, checks={})
    rc, head = sh("git rev-parse --short HEAD", cwd="/repo")
    res["repo_head"] = head.strip()
    rc, out = sh(f"git worktree add -q --detach {root}/repo HEAD", cwd="/repo")
    try:
        for f in os.listdir("/repo"):
            if f.startswith("verif_export") and not os.path.exists(f"{root}/repo/{f}"):
                shutil.copyfile(f"/repo/{f}", f"{root}/repo/{f}")
        rc, out = sh(f"git apply {d}/patch.diff || git apply --3way {d}/patch.diff", cwd=f"{root}/repo")
        if rc != 0:
            res["error"] = "patch does not apply to /repo HEAD: " + out[-400:]
            return res
        rc, out = sh("go build ./... && go build -tags verif ./...", cwd=f"{root}/repo")
        if rc != 0:
            res["error"] = "patched tree does not build: " + out[-400:]
            return res
        sh(f"rsync -a --exclude .git --exclude replays --exclude 'build/*.lock' /verif/ {root}/verif/")
        os.makedirs(f"{root}/verif/replays", exist_ok=True)
        for pid in ids:
            t0 = time.time()
            cmd = (f"unshare --mount bash -c 'mount --bind {root}/repo /repo && mount --bind {root}/verif /verif && "
                   f"cd /verif && ./check {pid} quick'")
            rc, out = sh(cmd, timeout=3000)
            viol = [l for l in out.splitlines() if l.startswith("VIOLATION")]
            detail = []
            for v in viol[:4]:
                m = re.search(r"replay=(\S+)", v)
                if m:
                    rp = m.group(1).replace("/verif/", f"{root}/verif/")
                    if os.path.exists(rp):
                        r = json.load(open(rp))
                        detail.append(dict(layer=r.get("layer"), broken=str(r.get("broken"))[:400], has_input=bool(r.get("input"))))
            res["checks"][pid] = dict(exit=rc, violations=len(viol),
                                      no_failing_input=sum("no-failing-input-found" in v for v in viol),
                                      detail=detail, wall_s=round(time.time() - t0, 1),
                                      tail=out.strip().splitlines()[-1][:200] if out.strip() else "")
        res["caught_by"] = sorted(p for p, r in res["checks"].items() if r["violations"] > 0)
        return res
    finally:
        if not keep:
            sh(f"git worktree remove --force {root}/repo", cwd="/repo")
            shutil.rmtree(root, ignore_errors=True)
            sh("git worktree prune", cwd="/repo")


if __name__ == "__main__" and sys.argv[1] == "eval":
    r = eval_isolated(sys.argv[2], sys.argv[3], sys.argv[4:])
    os.makedirs("/var/tmp/evalres", exist_ok=True)
    _p = f"/var/tmp/evalres/{sys.argv[2]}-{sys.argv[3]}.json"
    if os.path.exists(_p) and not r.get("error") and os.environ.get("SEED_EVAL_MERGE", "1") == "1":
        # keep the verdicts of checks not re-run now (marked stale); caught_by is recomputed over the union
        try:
            old = json.load(open(_p))
            for p, c in old.get("checks", {}).items():
                if p not in r.get("checks", {}):
                    c["stale"] = True
                    r.setdefault("checks", {})[p] = c
            r["caught_by"] = sorted(p for p, c in r["checks"].items() if c.get("violations", 0) > 0)
        except Exception:
            pass
    json.dump(r, open(_p, "w"), indent=1)
    print(json.dumps(dict(property=r["property"], k=r["k"], caught_by=r.get("caught_by"), error=r.get("error"),
                          checks={p: (c["exit"], c["violations"], c["wall_s"]) for p, c in r.get("checks", {}).items()})))
