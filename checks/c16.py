"""C16 — compression codecs are lossless, interoperable and history-independent
(DESIGN.md section 7, C16)."""
import json, os
import checklib as L

TRUSTED_BASE = [
    "Coq 8.16.1 kernel (coqc; coqchk in the thorough tier); vm_compute used only in non-vacuity Examples; no native_compute",
    "hand-written model coq/Model/Xerial.v of /repo/compress/snappy/xerial.go + snappy.go (NewReader/NewWriter/Close) and coq/Model/CodecPool.v of the "
    "Get/Reset/use/Close/Put discipline of compress/{snappy,lz4,gzip,zstd}, tied by the differential run of harness/cmd/c16 (real code, build tag verif, "
    "objects built by compress/*/verif_export.go and obtained back through the real sync.Pool + NewReader/NewWriter) against the OCaml extraction "
    "(ExtrOcamlBasic only; nat, positive, N, Z kept as Coq datatypes)",
    "the snappy block codec is an oracle: Section variables enc/dec/declen with the laws dec(enc b)=b, declen agrees with dec, enc b is not empty and "
    "does not look like the xerial magic, |enc b| < 2^32 for |b| <= 2^31 — true of github.com/klauspost/compress/snappy by inspection, sampled on every "
    "run (the harness ships the (block, encoding) pairs the real code observed and the model driver answers oracle calls from that table)",
    "losslessness of DEFLATE / LZ4 / Zstandard / snappy themselves is the libraries': gzip, lz4, zstd are checked only by the differential test "
    "(kafka-go wrapper vs compress/gzip, pierrec/lz4/v4, klauspost/compress/zstd used directly, both directions), not proved",
    "coq/Spec/SnappyBlock.v: a strict decoder of the snappy block format transcribed by hand from the format description (offset-0 copies = S2 "
    "'repeat', offsets beyond the output, cut elements, wrong final length are errors); every (block, encoding) pair the real writer produced at "
    "any compression level is checked against it in the model driver (when cheap: chunk <= 8 KiB or incompressible) and the Go-side strict decoder "
    "(harness strictSnappyDecode, used for all sizes and all four levels, framed and unframed) is compared with it on the 'sb' cases",
    "codec OPTIONS of the gzip / lz4 / zstd wrappers (gzip Level -3,-2,-1,1,6,9; zstd Level -5..23; the deprecated constructors of /repo/{gzip,lz4,snappy,"
    "zstd}) and multi-member / multi-frame / optional-field inputs (gzip members with name/comment/extra fields, closed-and-reset writers; lz4 frames with "
    "and without content checksum, block checksums, content size, four block sizes; zstd multi-frame streams with skippable frames, CRC on/off, window "
    "sizes) do not appear in Model/Xerial.v (only snappy's framing and level do): these wrappers are thin shells over third-party streams which the model "
    "treats as oracles, and that part of C16 is tied dynamically by the rt / hist / conc families against the format libraries used directly",
    "lz4: several concatenated frames are NOT exercised — pierrec/lz4 v4.1.15, the only lz4 implementation available offline, itself stops after the first "
    "frame when used directly, so there is no oracle for them",
    "coq/Spec/Xerial.v: the xerial stream format transcribed by hand from the format description (fidelity to org.xerial.snappy is trusted; "
    "cross-checked at run time against a hand-written Go de-framer and the vendored go-xerial-snappy)",
    "xerialWriter.output / xerialReader.input capacities and the encode==nil / decode==nil branches are not modelled (scratch space; unreachable via snappy.go)",
    "sync.Pool is modelled as a set from which Get may return any element or nothing; GOMAXPROCS(1) + GC off while object identity is observed",
    "ocaml/kvio.ml.in + ocaml/c16_driver.ml (hex interchange, oracle table, ~220 lines) and harness/kvfmt",
]
ASSUMPTIONS = [
    "sources handed to ReadFrom / io.Copy: a finite byte string chopped arbitrarily, with (0, nil) reads and with the last bytes returned together "
    "with the final error or not; the final error is io.EOF (theorems) or another error (model + differential only)",
    "the underlying io.Reader delivers a finite byte string then io.EOF (short reads allowed); the underlying io.Writer either accepts everything or fails "
    "with a short write after a byte budget; other transport errors are C17's business",
    "writer input capacity <= 2^31 in framed mode (a block's encoded length must fit the 4-byte frame length); payloads up to 70 KB (xerial layer, model "
    "side) and 300 KB (public API) exercised in the differential — the theorems cover every size",
    "Read buffers of length >= 1 for the 'everything is delivered' clause (Read with an empty buffer returns 0, nil like any io.Reader)",
]


def classify(c):
    """A go/model disagreement: does the implementation's own output violate C16?"""
    op, go, model = c["op"], c["go"], str(c.get("model"))
    if model == "SPECDIFF":
        return dict(layer="obligation", what="model output is not accepted by the reference xerial decoder of Spec/Xerial.v "
                                             "(theorem C16_xerial_roundtrip cannot hold for this case)", input=c)
    if model == "NOT-SNAPPY":
        return dict(layer="property", what="snappy codec: a block produced by the writer is not a snappy block for the strict decoder of "
                                           "Spec/SnappyBlock.v (offset-0 copy = S2 extension, or corrupt): not readable by a reference snappy decoder",
                    input=c)
    if op == "sb":
        return dict(layer="correspondence", what="the harness's strict snappy block decoder and coq/Spec/SnappyBlock.v disagree on a chunk", input=None)
    if op == "mix":
        return dict(layer="property", what=f"a mix of Write/ReadFrom or Read/WriteTo calls on one codec stream failed (regression of F32-F34): "
                                           f"{c['args']}: {go[:200]}", input=c)
    if op == "bigx":
        return dict(layer="property", what=f"snappy reader on a reference-encoded xerial stream with large / varying frames (compressed sizes "
                                           f"{c['args'][:120]}): {go[:200]}", input=c)
    if op == "proto":
        return dict(layer="property", what=f"protocol.RecordSet.WriteTo with a compressed record set did not round-trip: {c['args']}: {go[:200]}", input=c)
    if op in ("rt", "hist", "conc"):
        what = {"rt": "codec round trip / interoperability with the reference library failed",
                "hist": "a pooled codec object that saw a failed or abandoned stream mishandled the next good stream",
                "conc": "concurrent use of one codec value gave a wrong result"}[op]
        return dict(layer="property", what=f"{what}: {go[:200]}", input=c)
    if op in ("xw", "xr"):
        if "ref=FAIL" in go or "ref=ok" not in go:
            return dict(layer="property", what=f"xerial {'writer' if op == 'xw' else 'reader'}: the implementation's own output violates the property "
                                               f"({go[go.rfind('ref='):][:200]})", input=c)
        if model.startswith("ORACLE-MISS"):
            return dict(layer="correspondence", what=f"xerial {op}: the model asked the block codec for a block the implementation never produced "
                                                      "(blocks cut differently?) but the implementation's stream is still a correct one", input=None)
        return dict(layer="correspondence", what=f"xerial {op}: model and code differ (bytes / per-call results / error class / released state) "
                                                  "although the implementation's stream still decodes to the payload", input=None)
    if op == "pool":
        if model == "BADPICK":
            return dict(layer="property", what="pool discipline: NewReader/NewWriter handed out an object that was not in the pool "
                                               "(still held by another wrapper: released twice?)", input=c)
        if model == "UNDISCIPLINED":
            return dict(layer="obligation", what="pool model trace violates the monitor (theorem C16_pool_discipline cannot hold)", input=c)
        if "?" in go:
            return dict(layer="property", what="pool discipline: a wrapper kept its object after Close, or a wrapper without object pretended to work", input=c)
        return dict(layer="property", what="pool discipline: which wrapper holds which pooled object differs from the Get/Reset/Close/Put model", input=c)
    return dict(layer="correspondence", what=f"unknown op {op}", input=None)


def setup():
    L.go_build("c16")
    L.ocaml_build("c16")


def correspondence(ctx):
    gobin = L.go_build("c16")
    model = L.ocaml_build("c16")
    nx = ctx.scale(300, 4000)
    texts = []
    cdir = os.path.join(L.CORPUS, "C16")
    if os.path.isdir(cdir):
        for f in sorted(os.listdir(cdir)):
            texts.append(open(os.path.join(cdir, f)).read())
    rc, out, err, dt = L.sh([gobin, "-seed", str(ctx.seed), "-nx", str(nx), "-nrt", str(ctx.scale(450, 6000)),
                             "-nhist", str(ctx.scale(60, 1000)), "-nconc", str(ctx.scale(10, 100)),
                             "-npool", str(ctx.scale(30, 500)), "-nsb", str(ctx.scale(200, 3000)), "-nbig", str(ctx.scale(8, 200))], timeout=3000)
    if rc != 0:
        raise L.Fail("correspondence", "harness cmd/c16 crashed (panic in a codec? pooled object not handed back?)", (out[-1500:] + err[-2500:]))
    texts.append(out)
    cases = []
    for t in texts:
        for c in L.parse_cases(t):
            c["id"] = str(len(cases) + 1)
            c["line"] = c["id"] + " " + c["op"] + " " + c["args"]
            cases.append(c)
    # deep recursion on 64 KiB Coq lists: give the model a large stack
    import resource
    try:
        resource.setrlimit(resource.RLIMIT_STACK, (resource.RLIM_INFINITY, resource.RLIM_INFINITY))
    except (ValueError, OSError):
        pass
    res = L.run_model(model, "\n".join(c["line"] for c in cases) + "\n", timeout=3000)
    bad = L.diff_cases(cases, res)
    failures = []
    for c in bad[:20]:
        f = classify(c)
        f["detail"] = json.dumps(dict(case=c["line"][:2000], go=c["go"][-600:], model=str(c.get("model"))[-600:], feats=c["feats"]))
        if f.get("input") is not None:
            f["input"] = dict(case=c["line"], go=c["go"], model=c.get("model"))
        failures.append(f)
    ev, dn, hist = L.coverage_counts(cases, trivial_feats=("",))
    nontrivial_examples = [c for c in cases if c["op"] in ("xw", "xr") and "history" in c["feats"]][:2]
    samples = []
    for c in cases[:1] + nontrivial_examples + [c for c in cases if c["op"] == "pool"][:2] + [c for c in cases if c["op"] in ("rt", "hist", "conc")][-3:]:
        samples.append(c["line"][:260] + " | " + c["go"][-120:] + " | " + c["feats"][:200])
    return dict(evaluations=ev, distinct_nontrivial=dn, hist=hist,
                rule="cases from one PRNG (VERIF_SEED). xw/xr (model vs real xerialWriter/xerialReader, through the real pool + NewWriter/NewReader): "
                     "payloads tiny / <=2000 / around 1 KiB, 10626 (varint 82 53), 32 KiB and 64 KiB boundaries, random/zeros/repetitive/text; pooled "
                     "objects fresh or with chosen input capacity (0, 1..2048, 4 KiB..128 KiB) and residual input/nbytes/framed/header/output/offset; "
                     "1-3 consecutive streams per object incl. streams whose sink fails or whose source is cut / corrupted / junk / empty / closed before EOF; "
                     "all four compression levels; mixes of Write (one, equal, random, empty writes) and ReadFrom / io.Copy from scripted sources (chopped "
                     "reads, (0,nil) reads, (n>0, io.EOF), failing sources), explicit Flush; Read buffer cycles from 1 B to 70 KB, WriteTo / io.Copy alone "
                     "or after 1-3 Reads, short reads of the underlying reader; sources from kafka-go, a hand-written reference encoder with arbitrary (also empty) "
                     "blocks, go-xerial-snappy, raw blocks from three snappy encoders.  rt/hist/conc (Go-side predicates on gzip, snappy framed+unframed, "
                     "lz4, zstd and every snappy compression level framed+unframed via the public API — writers driven by mixes of Write and io.Copy, readers by "
                     "Reads / io.Copy / Reads then io.Copy — against the format libraries and the strict snappy decoder in both directions, payloads "
                     "(random, zeros, repetitive, text, JSON-like) up to 300 KB; codec options as separate codecs (gzip levels, zstd levels -5..23, deprecated "
                     "constructors); reference-encoded inputs in each format's legal variety (gzip 1/2/4/many members with optional header fields, lz4 frame "
                     "options, zstd multi-frame + skippable frames + CRC/window options, xerial with arbitrary blocks); histories with truncated/"
                     "corrupt/abandoned streams and failing sinks before a good stream; 2-15 goroutines on one codec value).  Block sizes of the reference-encoded xerial inputs are NOT bounded by what kafka-go's own writer emits (32 KiB): xr has "
                     "forced streams with blocks of 66000..131100 incompressible bytes (frames > 64 KiB, growing and shrinking), xw has the history 'a large "
                     "unframed use (100-160 KB), then a framed use of the same pooled writer' whose output is read back; bigx (Go side): streams whose frame "
                     "sizes walk the reader's buffer growth — c, 2c-1, 2c, 2c+1, 4c+1 relative to the capacity reached, shrinks, and 1 KiB..1 MiB blocks, "
                     "compressible and incompressible — read through Read / io.Copy / mixes; a panic in the codec is caught by the harness and reported as "
                     "PANIC (property violation with the stream as input).  sb: the strict snappy decoder of the harness vs coq/Spec/SnappyBlock.v on blocks of seven "
                     "snappy/S2 encoders, also corrupted and cut.  mix: regression cases of F32-F34 (lz4 Write then io.Copy; lz4 / gzip Read then io.Copy), which must succeed.  proto: protocol.RecordSet v1/v2 written with each codec from keys/values that are protocol.Bytes with and without a WriteTo method (the protocol-level witness of F32), read back and compared.  pool: random "
                     "New/Use/Close sequences per codec side with object identity observed.  Every case has a non-empty feature vector; "
                     "distinct by hash of op+args",
                samples=samples, failures=failures)


def search(ctx, violations):
    """An obligation or the correspondence broke without a concrete input: run a larger
    differential with another seed and report the first case where the implementation's own
    output violates the property."""
    ctx.seed += 1000
    ctx.tier = "thorough"
    ctx.thorough = True
    try:
        c = correspondence(ctx)
    except L.Fail:
        return None
    for f in c["failures"]:
        if f.get("input"):
            return f["input"]
    return None


def replay(ctx, payload):
    inp = payload.get("input")
    if not inp:
        print("replay: no concrete input recorded; broken layer:", payload.get("broken"))
        print(payload.get("detail", "")[:3000])
        return 1
    line = inp["case"]
    print("replay case:", line[:500])
    print("go result at the time:", str(inp.get("go"))[-500:], " model:", str(inp.get("model"))[-300:])
    op = line.split(" ", 2)[1]
    if op in ("xw", "xr", "pool"):
        model = L.ocaml_build("c16")
        res = L.run_model(model, line + "\n")
        print("model now:", {k: v[-300:] for k, v in res.items()})
    else:
        # Go-side predicate: regenerate with the recorded seed (the case line carries the payload seed)
        gobin = L.go_build("c16")
        rc, out, err, dt = L.sh([gobin, "-seed", str(payload.get("seed", 1))], timeout=3000)
        for l in out.splitlines():
            if " FAIL:" in l.split(" | ")[1] if " | " in l else False:
                print("implementation now:", l[:300])
    return 1
