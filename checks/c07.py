"""C07 — Writer preserves per-partition submission order, also across retries (DESIGN.md section 7).
Model coq/Model/Writer.v, theorems coq/Properties/C07.v; the run is shared with the other
Writer checks (checks/writer_common.py)."""
import checklib as L
from checks import writer_common as W

PROP = "C07"
TRUSTED_BASE = list(W.COMMON_TRUSTED) + [
    "fault model boundary (DESIGN.md 2.3): a request is never applied by the broker after the client observed its failure and moved on; real TCP can violate this, no client-side mechanism addresses it",
    "C07_order is proved for runs without a batchMessages after Close (ghost flag s_late = false); with that interleaving (F3) two partition writers for one partition can coexist",
]
ASSUMPTIONS = [
    "a goroutine issues its WriteMessages calls one after the other (the model's Call step requires the goroutine's previous call to have returned)",
    "message ids unique per writer; no batchMessages after Close for C07_order",
]


def setup():
    W.setup()


def correspondence(ctx):
    return W.correspondence_for(PROP, ctx, "C07 judges: C07_holds_for per (goroutine, partition) on every history.")


def search(ctx, violations):
    return W.search_for(PROP, ctx, violations)


def replay(ctx, payload):
    return W.replay(ctx, payload)
