"""C07 — Writer preserves per-partition submission order, also across retries (DESIGN.md section 7).
Model coq/Model/Writer.v, theorems coq/Properties/C07.v; the run is shared with the other
Writer checks (checks/writer_common.py)."""
import checklib as L
from checks import writer_common as W

PROP = "C07"
TRUSTED_BASE = list(W.COMMON_TRUSTED) + [
    "fault model boundary (DESIGN.md 2.3): a request is never applied by the broker after the client observed its failure and moved on; real TCP can violate this, no client-side mechanism addresses it",
    "a topic-partition is served by one partition writer in every run (batchMessages re-checks w.closed, so none is created after Close)",
]
ASSUMPTIONS = [
    "a goroutine issues its WriteMessages calls one after the other (the model's Call step requires the goroutine's previous call to have returned)",
    "message ids unique per writer",
]


generate = W.generate   # regenerates coq/Gen/Skeleton.v (synchronisation skeleton) before the Coq build


def setup():
    W.setup()


def correspondence(ctx):
    return W.correspondence_for(PROP, ctx, "C07 judges: C07_holds_for per (goroutine, partition) on every history.")


def search(ctx, violations):
    return W.search_for(PROP, ctx, violations)


def replay(ctx, payload):
    return W.replay(ctx, payload)
