"""C12 — Transport routes requests to the right broker at a mutually supported version
(DESIGN.md section 7, C12)."""
import json, os
import checklib as L

TRUSTED_BASE = [
    "Coq 8.16.1 kernel (coqc; coqchk in the thorough tier); vm_compute used only in non-vacuity Examples and refutation witnesses; no native_compute",
    "hand-written model coq/Model/Routing.v of /repo/transport.go (sendRequest, roundTrip as far as routing goes, update, makeLayout, "
    "filterMetadataResponse, connect's version loop), protocol/protocol.go SelectVersion, protocol/conn.go RoundTrip's version lookup and the "
    "Broker()/Split() methods of protocol/{produce,rawproduce,fetch,listoffsets,listgroups,createtopics,deletetopics,...}; tied by the "
    "differential run of harness/cmd/c12 (real code, build tag verif, hooks in /repo/verif_export_c12.go) against the OCaml extraction "
    "(ExtrOcamlBasic only)",
    "Go's sort.Slice is modelled as a stable insertion sort (exact for <= 12 elements; for longer slices only its result on distinct keys is used) "
    "and sort.Search is transcribed loop for loop; Go maps are association lists with unique keys",
    "a broker's (Rack, Host, Port) is one opaque token; error values are a small enum; byte strings compare like Go strings",
    "the end-to-end fake (harness/cmd/c12/e2e.go): net.Pipe connections, requests decoded / responses encoded with /repo/protocol itself "
    "(so wire encoding is C04/C17's business, not checked here), one journal under a mutex",
    "ocaml/kvio.ml.in + ocaml/c12_driver.ml (hex interchange and canonical printing, ~250 lines), harness/kvfmt, the Python predicates below",
    "atomicity of update's state publication (atomic.Value) and of grabState is assumed (C10); discover's timer is a label of the LTS, "
    "'within one TTL plus a round trip' is measured by the end-to-end run, not proved",
]
ASSUMPTIONS = [
    "broker node ids in metadata responses are >= 0 (C12_route_leader's brokers_wf; a negative id defeats the `broker.ID < 0` sentinel in produce/fetch Broker())",
    "topic names within one metadata response are distinct (C12_filter_exact; with duplicates sort.Slice's order of equals decides)",
    "client and broker version ranges are non-empty (min <= max) in C12_select_*; the differential also feeds inverted and extreme int16 ranges",
    "describeconfigs / incrementalalterconfigs (broker-resource routing by resource name) are outside the model",
    "the fake accepts any version; a request at a version outside the broker's advertised range (no overlap) is journalled, not rejected",
]

# Kafka protocol: requests addressed to the group / transaction coordinator
GROUP_COORD_APIS = {8, 9, 11, 12, 13, 14, 15, 28, 42, 47}
TXN_COORD_APIS = {22, 24, 25, 26}

# Known defect of /repo kept as a finding (entry in the shared known_findings.json): the 14
# controller-routed request types return cluster.Brokers[cluster.Controller] unchecked, so with
# no controller in the layout the request goes to broker 0 (C12_route_controller_unknown_refuted).
KEY_CONTROLLER = "C12-controller-unknown-zero-broker"


# ----------------------------------------------------------------------------- parsing

def Z(s):
    return -int(s[1:], 16) if s.startswith("-") else int(s, 16)


def name(s):
    return b"" if s == "." else bytes.fromhex(s)


def parse_tps(s):
    if s == ".":
        return []
    out = []
    for t in s.split(";"):
        n, ps = t.split(":")
        out.append((name(n), [] if ps == "." else [Z(x) for x in ps.split(",")]))
    return out


def parse_cluster(s):
    ctrl, bs, ts = s.split("~")
    brokers, topics = {}, {}
    if bs != ".":
        for e in bs.split(","):
            k, b = e.split("=")
            i, a = b.split("@")
            brokers[Z(k)] = (Z(i), a)
    if ts != ".":
        for e in ts.split(";"):
            hd, ps = e.split(":")
            k, rest = hd.split("=")
            n, err = rest.split("/")
            parts = {}
            if ps != ".":
                for pe in ps.split(","):
                    pk, r = pe.split("=")
                    pid, perr, ld = r.split("/")
                    parts[Z(pk)] = (Z(pid), Z(perr), Z(ld))
            topics[name(k)] = (name(n), Z(err), parts)
    return dict(controller=Z(ctrl), brokers=brokers, topics=topics)


def parse_md(s):
    if s == "-":
        return None
    ctrl, bs, ts = s.split("~")
    brokers, topics = [], []
    if bs != ".":
        for e in bs.split(","):
            i, a = e.split("@")
            brokers.append((Z(i), a))
    if ts != ".":
        for e in ts.split(";"):
            hd, ps = e.split(":")
            n, err, internal = hd.split("/")
            parts = []
            if ps != ".":
                for pe in ps.split(","):
                    f = pe.split("/")
                    ids = lambda x: [] if x == "." else [Z(v) for v in x.split("+")]
                    extra = (ids(f[3]), ids(f[4]), ids(f[5])) if len(f) > 3 else ([], [], [])
                    parts.append((Z(f[0]), Z(f[1]), Z(f[2])) + extra)
            topics.append((name(n), Z(err), internal == "1", parts))
    return dict(controller=Z(ctrl), brokers=brokers, topics=topics)


def layout_of(md):
    """what makeLayout builds (maps: last wins; internal topics skipped)"""
    brokers = {}
    for i, a in md["brokers"]:
        brokers[i] = (i, a)
    topics = {}
    for n, err, internal, parts in md["topics"]:
        if internal:
            continue
        topics[n] = (n, err, {p[0]: (p[0], p[1], p[2]) for p in parts})
    return dict(controller=md["controller"], brokers=brokers, topics=topics)


def sorted_md(md):
    return dict(controller=md["controller"],
                brokers=sorted(md["brokers"], key=lambda b: b[0]),
                topics=[(n, e, i, sorted(ps, key=lambda p: p[0])) for n, e, i, ps in sorted(md["topics"], key=lambda t: t[0])])


def cluster_wf(c):
    return all(k == b[0] and k >= 0 for k, b in c["brokers"].items()) and \
        all(k == p[0] for t in c["topics"].values() for k, p in t[2].items())


def leader_of(c, t, p):
    """(state, broker id): 'ok' with the leader's broker id, or which lookup failed"""
    topic = c["topics"].get(t)
    if topic is None:
        return "notopic", None
    part = topic[2].get(p)
    if part is None:
        return "nopart", None
    b = c["brokers"].get(part[2])
    if b is None:
        return "noleader", None
    return "ok", b[0]


def expected_leader_route(c, tps):
    """independent statement of the property for produce/fetch: ('ok', id) when every named
    topic is known and every named partition has the same known leader; else ('err', None)"""
    ids = set()
    for t, ps in tps:
        if t not in c["topics"]:
            return "err", None
        for p in ps:
            st, b = leader_of(c, t, p)
            if st != "ok":
                return "err", None
            ids.add(b)
    if len(ids) > 1:
        return "err", None
    return "ok", (ids.pop() if ids else -1)


def version_ok(client, table, key, ver):
    """the property's version clause on one journalled request"""
    cmin, cmax = client.get(key, (0, 0))
    if key not in table:
        return ver == 0, "key not advertised: version 0 expected"
    bmin, bmax = table[key]
    if cmin <= cmax and bmin <= bmax and max(cmin, bmin) <= min(cmax, bmax):
        return ver == min(cmax, bmax) and bmin <= ver <= bmax, f"highest common version is {min(cmax, bmax)}"
    return cmin <= ver <= cmax, "no overlap: any version the client can encode"


def parse_ranges(s):
    d = {}
    if s and s != ".":
        for e in s.split(","):
            k, lo, hi = e.split("/")
            d[Z(k)] = (Z(lo), Z(hi))
    return d


def parse_vers(s):
    d = {}
    for e in s.split(";"):
        b, t = e.split(":")
        d[Z(b)] = parse_ranges(t)
    return d


def parse_trace(s):
    """entries (broker, api key, version, key type or None); find-coordinator entries carry the
    KeyType the broker decoded"""
    tr, status = s.rsplit("/", 1)
    ents = []
    if tr != ".":
        for e in tr.split(","):
            f = e.split(":")
            k = Z(f[1])
            x = None
            if len(f) > 3:
                x = f[3] if k == 15 else Z(f[3])     # describe-groups: the groups named, "+"-joined
            ents.append((Z(f[0][1:]), k, Z(f[2]), x))
    return ents, status


def expected_version(client, table, key):
    """what SelectVersion must give (independent statement)"""
    cmin, cmax = client.get(key, (0, 0))
    if key not in table:
        return 0
    bmin, bmax = table[key]
    if bmax < cmin:
        return cmin
    return min(cmax, bmax)


# ----------------------------------------------------------------------------- property predicates
# each returns a list of (key or None, what) for the implementation's own output

def pred_sel(a, go):
    k, cmin, cmax, bmin, bmax = [Z(x) for x in a]
    v = Z(go)
    if cmin <= cmax and bmin <= bmax and max(cmin, bmin) <= min(cmax, bmax):
        if v != min(cmax, bmax) or not (bmin <= v <= bmax and cmin <= v <= cmax):
            return [(None, f"SelectVersion: ranges overlap but {v} is not the highest common version {min(cmax, bmax)}")]
    return []


def pred_route(a, go):
    c, tps = parse_cluster(a[1]), parse_tps(a[2])
    if not cluster_wf(c):
        return []
    st, b = expected_leader_route(c, tps)
    if go.startswith("ok:"):
        gid = Z(go[3:].split("@")[0])
        if st != "ok":
            return [(None, "produce/fetch routed although a named topic/partition/leader is unknown or leaders differ")]
        if gid != b:
            return [(None, f"produce/fetch routed to broker {gid}, the leader of every named partition is {b}")]
    elif go.startswith("err:"):
        if st == "ok":
            return [(None, "produce/fetch rejected although every named partition has the same known leader")]
    else:
        return [(None, "produce/fetch Broker() panicked")]
    return []


def pred_lo(a, go, feats):
    if "split" not in feats.split(","):
        return []   # Broker() on an unsplit request: documented as undefined; differential only
    c, tps = parse_cluster(a[0]), parse_tps(a[1])
    if not cluster_wf(c) or len(tps) != 1 or len(tps[0][1]) != 1:
        return []
    st, b = leader_of(c, tps[0][0], tps[0][1][0])
    if go.startswith("ok:"):
        gid = Z(go[3:].split("@")[0])
        if st != "ok":
            return [(None, f"list-offsets routed to broker {gid} although the layout designates no leader ({st})")]
        if gid != b:
            return [(None, f"list-offsets routed to broker {gid}, the partition leader is {b}")]
    elif go.startswith("err:"):
        if st == "ok":
            return [(None, "list-offsets rejected although the partition has a known leader")]
        if go.split(":")[1] != st:
            return [(None, f"list-offsets failed with {go}, expected {st}")]
    else:
        return [(None, "list-offsets Broker() panicked on a message produced by Split")]
    return []


def pred_ctl(a, go):
    c = parse_cluster(a[1])
    if not cluster_wf(c) or not go.startswith("ok:"):
        return []
    gid = Z(go[3:].split("@")[0])
    if c["controller"] in c["brokers"]:
        if gid != c["controller"]:
            return [(None, f"{a[0]} routed to broker {gid}, the controller is {c['controller']}")]
    elif gid >= 0:
        return [(KEY_CONTROLLER, f"{a[0]}: layout has no controller (id {c['controller']}) yet routed to broker {gid}")]
    return []


def pred_class(a, go):
    api = Z(a[0])
    base = go.split("+")[0]
    if api in GROUP_COORD_APIS and base != "group":
        return [(None, f"API {api} is addressed to the group coordinator but its request type is routed as '{go}'")]
    if api in TXN_COORD_APIS and base != "txn":
        return [(None, f"API {api} is addressed to the transaction coordinator but its request type is routed as '{go}'")]
    return []


def enc_md_py(md):
    def h(v):
        return ("-%x" % -v) if v < 0 else "%x" % v
    def nm(b):
        return b.hex() if b else "."
    def ids(l):
        return "+".join(h(v) for v in l) or "."
    bs = ",".join(f"{h(i)}@{a}" for i, a in md["brokers"]) or "."
    ts = ";".join(f"{nm(n)}/{h(e)}/{'1' if i else '0'}:" +
                  (",".join(f"{h(p[0])}/{h(p[1])}/{h(p[2])}/{ids(p[3])}/{ids(p[4])}/{ids(p[5])}" for p in ps) or ".")
                  for n, e, i, ps in md["topics"]) or "."
    return f"{h(md['controller'])}~{bs}~{ts}"


def pred_cmeta(a, go, feats):
    """Client.Metadata compared FIELD BY FIELD with what the brokers answered (restricted to the
    requested names): brokers (id, host/port/rack token), controller, per topic name / internal /
    error, per partition id / error / leader / replicas / ISR"""
    fs = feats.split(",")
    if "dup-topic" in fs or "dup-broker" in fs or "dup-part" in fs:
        return []
    md = filtered(sorted_md(parse_md(a[1])), parse_names(a[0]))
    def h(v):
        return ("-%x" % -v) if v < 0 else "%x" % v
    byid = {i: f"{h(i)}@{ad}" for i, ad in md["brokers"]}
    eb = lambda i: byid.get(i, "0@0")
    ebs = lambda l: "+".join(eb(i) for i in l) or "."
    ts = ";".join(f"{n.hex() if n else '.'}/{'1' if i else '0'}/{h(e)}:" +
                  (",".join(f"{h(p[0])}/{h(p[1])}/{eb(p[2])}/{ebs(p[3])}/{ebs(p[4])}" for p in ps) or ".")
                  for n, e, i, ps in md["topics"]) or "."
    want = f"{eb(md['controller'])}~{','.join(f'{h(i)}@{ad}' for i, ad in md['brokers']) or '.'}~{ts}"
    if go != want:
        gp, wp = go.split("~"), want.split("~")
        which = "controller" if gp[0] != wp[0] else "brokers" if len(gp) < 2 or gp[1] != wp[1] else "topics/partitions (leader, replicas, ISR, errors)"
        return [(None, f"Client.Metadata differs from what the brokers answered at the last refresh in its {which}: got {go[:300]} expected {want[:300]}")]
    return []


def filtered(md_sorted, names):
    if names is None:
        return md_sorted
    byname = {}
    for t in md_sorted["topics"]:
        byname.setdefault(t[0], t)
    return dict(controller=md_sorted["controller"], brokers=md_sorted["brokers"],
                topics=[byname.get(n, (n, 3, False, [])) for n in names])


def parse_names(s):
    if s == "-":
        return None
    if s == "[]":
        return []
    return [name(x) for x in s.split(";")]


def pred_filter(a, go, feats):
    fs = feats.split(",")
    if "cache-sorted" not in fs or "dup-topic" in fs:
        return []
    md = parse_md(a[1])
    if enc_md_py(filtered(md, parse_names(a[0]))) != go:
        return [(None, "filterMetadataResponse on the sorted cache is not the cached answer restricted to the requested names")]
    return []


def pred_layout(a, go):
    md = parse_md(a[0])
    c = layout_of(md)
    g = parse_cluster(go)
    if g != c:
        return [(None, "makeLayout is not the brokers/topics/partitions/leaders of the metadata response")]
    return []


def pred_upd(a, go, feats):
    """after a successful update the view is that of the new metadata and the connection groups are
    the layout's brokers; a failed refresh keeps the previous view"""
    fs = feats.split(",")
    if "dup-topic" in fs or "dup-broker" in fs or "dup-part" in fs:
        return []
    prev = None
    for step, st in zip(a, go.split("#")):
        md_s, err, layout_s, conns_s, ready = st.split("^")
        if ready != "1":
            return [(None, "update did not mark the pool ready")]
        if step.startswith("m:"):
            md = sorted_md(parse_md(step[2:]))
            if md_s != enc_md_py(md):
                return [(None, "after a successful update the cached metadata is not the (sorted) response")]
            lay = parse_cluster(layout_s)
            if lay != layout_of(md):
                return [(None, "after a successful update the layout is not makeLayout(response)")]
            conns = {} if conns_s == "." else {Z(e.split("=")[0]): e.split("=")[1] for e in conns_s.split(",")}
            want = {k: ("%s@%s" % (("-%x" % -b[0]) if b[0] < 0 else "%x" % b[0], b[1])) for k, b in lay["brokers"].items()}
            if conns != want:
                return [(None, "connection groups differ from the layout's brokers after update")]
            if err != "-":
                return [(None, "error kept after a successful update")]
        elif step.startswith("e:") and prev is not None and prev.split("^")[0] != "-":
            if st != prev:
                return [(None, "a failed refresh changed the cached view")]
        prev = st
    return []


def pred_send(a, go):
    md = parse_md(a[0])
    c = layout_of(sorted_md(md))
    kind, _, v = a[1].partition("=")
    if kind in ("p", "f") and cluster_wf(c):
        st, b = expected_leader_route(c, parse_tps(v))
        if st == "ok" and b >= 0 and go != "dial:b%x" % b:
            return [(None, f"sendRequest used {go}, the leader's connection group is b{b:x}")]
        if st == "err" and go.startswith("dial:"):
            return [(None, "sendRequest dialled although routing must fail")]
    if kind == "lo" and cluster_wf(c):
        tps = parse_tps(v)
        if len(tps) >= 1 and len(tps[0][1]) >= 1:
            st, b = leader_of(c, tps[0][0], tps[0][1][0])
            if st == "ok" and go != "dial:b%x" % b:
                return [(None, f"sendRequest used {go} for list-offsets, the leader's connection group is b{b:x}")]
            if st != "ok" and go.startswith("dial:"):
                return [(None, "sendRequest dialled for list-offsets although the layout designates no leader")]
    if kind == "ctl" and cluster_wf(c) and c["controller"] in c["brokers"] and go != "dial:b%x" % c["controller"]:
        return [(None, f"sendRequest used {go}, the controller's connection group is b{c['controller']:x}")]
    if kind == "lg" and cluster_wf(c) and Z(v) in c["brokers"] and go != "dial:b%x" % Z(v):
        return [(None, f"sendRequest used {go} for the list-groups message addressed to broker {Z(v)}")]
    if kind == "o" and go != "dial:c":
        return [(None, "a plain request did not use the control connection")]
    return []


def e2e_expect(boot, md, req, fc, fcver=1):
    """independent reading of the property for one end-to-end request: list of acceptable
    (broker id, api key) journals, or a finding key"""
    c = layout_of(sorted_md(md))
    kind, _, v = req.partition("=")
    if kind in ("p", "f"):
        st, b = expected_leader_route(c, parse_tps(v))
        key = 0 if kind == "p" else 1
        return ("trace", [(b, key)] if st == "ok" and b >= 0 else []), None
    if kind == "los":
        want = []
        for t, ps in parse_tps(v):
            for p in ps:
                st, b = leader_of(c, t, p)
                if st == "ok":
                    want.append((b, 2))      # anything else is an error: nothing on the wire
        return ("multiset", want), None
    if kind == "ctl":
        api = Z(v)
        if c["controller"] in c["brokers"]:
            return ("trace", [(c["controller"], api)]), None
        return ("ctl-unknown", api), KEY_CONTROLLER
    if kind in ("g", "t"):
        api, _ = v.split(":")
        api = Z(api)
        # group APIs look up the GROUP coordinator of the key, transactional ones the TRANSACTION
        # coordinator; KeyType exists on the wire from find-coordinator v1 on
        kt = 1 if api in TXN_COORD_APIS else 0
        if fcver < 1:
            kt = 0
        e, node = [Z(x) for x in fc.split(",")[kt].split("/")]
        look = (boot, 10, kt)
        if e != 0:
            return ("trace", [look]), None   # the lookup failed: nothing is sent after it
        if node in c["brokers"]:
            return ("trace", [look, (node, api)]), None
        return ("trace", [look]), None
    if kind == "lgs":
        return ("multiset", [(b, 16) for b in c["brokers"]]), None
    return None, None


def pred_describegroups(boot, vers, client, req, fc, go):
    """split group requests: every sub-request a broker receives names ONLY groups that broker
    coordinates, every requested group is named exactly once overall, and the merged answer has
    exactly one entry per requested group, carrying its coordinator's (error-free) answer"""
    groups = req[3:].split(";")
    coord = {kv.split("=")[0]: Z(kv.split("=")[1]) for kv in fc[2:].split(";")}
    ents, merged = parse_trace(go)
    out = []
    named = []
    for b, k, v, x in ents:
        ok, why = version_ok(client, vers.get(b, {}), k, v)
        if not ok:
            out.append((None, f"request api {k} to broker {b} encoded at version {v}: {why}"))
        if k == 15:
            for g in (x or "").split("+"):
                named.append(g)
                if coord.get(g) != b:
                    out.append((None, f"describe-groups sub-request sent to broker {b} names group {bytes.fromhex(g).decode()!r} "
                                      f"whose coordinator is broker {coord.get(g)}"))
        elif k == 10:
            if b != boot:
                out.append((None, "find-coordinator not sent on the control connection"))
        else:
            out.append((None, f"unexpected request api {k} during describe-groups"))
    if sorted(named) != sorted(groups):
        out.append((None, f"the sub-requests name {len(named)} group(s) for {len(groups)} requested: each group must be named exactly once"))
    want = ";".join(f"{g}=0@b{('%x' % coord[g])}" for g in groups)
    if merged != want:
        out.append((None, f"merged describe-groups answer {merged!r}: expected exactly one entry per requested group from its coordinator ({want})"))
    return out[:3]


def pred_e2e(a, go):
    boot, md, vers, client, req, fc = Z(a[0]), parse_md(a[1]), parse_vers(a[2]), parse_ranges(a[3]), a[4], a[5]
    out = []
    if req.startswith("m="):
        names_s, _ = req[2:].rsplit(":", 1)
        want = "cache:" + enc_md_py(filtered(sorted_md(md), parse_names(names_s)))
        if go != want:
            out.append((None, "metadata served from the cache differs from the last answer restricted to the requested names"))
        return out
    if req.startswith("dg="):
        return pred_describegroups(boot, vers, client, req, fc, go)
    ents, status = parse_trace(go)
    for b, k, v, x in ents:
        ok, why = version_ok(client, vers.get(b, {}), k, v)
        if not ok:
            out.append((None, f"request api {k} to broker {b} encoded at version {v}: {why}"))
        if k == 0 and x is not None and (x == 2) != (v >= 3):
            out.append((None, f"Produce request to broker {b} says version {v} but its records are in format {x}: not encoded at the negotiated version"))
    got = [(b, k) if k != 10 else (b, k, kt) for b, k, _, kt in ents]
    fcver = expected_version(client, vers.get(boot, {}), 10)
    exp, finding = e2e_expect(boot, md, req, fc, fcver)
    if exp is None:
        return out
    if req[:2] in ("g=", "t=") and exp[1] and len(exp[1]) == 1 and status != "err":
        out.append((None, "the coordinator lookup gave no usable coordinator but the round trip did not fail"))
    kind, want = exp
    if kind == "trace":
        if got != want:
            out.append((None, f"journal {got} but the metadata in force designates {want}"))
    elif kind == "multiset":
        if sorted(got) != sorted(want):
            out.append((None, f"journal {sorted(got)} but the metadata in force designates {sorted(want)}"))
    elif kind == "ctl-unknown":
        if got:
            out.append((finding, f"layout has no controller yet api {want} was sent to broker {got[0][0]}"))
    return out


def pred_e2erec(a, go):
    boot, md0, md1, faults, vers, client, req = Z(a[0]), parse_md(a[1]), parse_md(a[2]), a[3], parse_vers(a[4]), parse_ranges(a[5]), a[6]
    state, _, tr = go.partition(":")
    what = {"t": "timed out", "i": "failed with an i/o error"}.get(faults.split(",")[0], "failed")
    n = len(faults.split(","))
    if state != "live":
        return [(None, f"{n} metadata refresh(es) {what}; the brokers answer again and leaders moved, but the cached metadata "
                       f"did not follow within 10 MetadataTTLs + 3s: the refresh loop stopped (or ignores MetadataTTL)")]
    ents, status = parse_trace(tr)
    exp, _ = e2e_expect(boot, md1, req, "-")
    got = [(b, k) for b, k, _, _ in ents]
    if got != exp[1]:
        return [(None, f"after {n} refresh(es) that {what} and a leader move the request went to {got}, the new leader is {exp[1]}")]
    out = []
    for b, k, v, _ in ents:
        ok, why = version_ok(client, vers.get(b, {}), k, v)
        if not ok:
            out.append((None, f"request api {k} to broker {b} encoded at version {v}: {why}"))
    return out


def pred_setup(a, go):
    """the requests that set a SASL connection up, as journalled by the broker: ApiVersions v0,
    SaslHandshake at the highest common version, then the raw token exactly when that is 0, else
    SaslAuthenticate at the highest common version"""
    table, client = parse_ranges(a[0]), parse_ranges(a[1])
    hv = expected_version(client, table, 17)
    want = ["12:0", "11:%x" % hv, "24:raw" if hv == 0 else "24:%x" % expected_version(client, table, 36)]
    if go.split(",") != want:
        return [(None, f"connection set-up journal {go}: expected {','.join(want)} (SaslHandshake / SaslAuthenticate at the "
                       f"highest version supported by both sides)")]
    return []


def pred_e2efu(a, go):
    boot, md1, vers, client, req, ntr, g = Z(a[0]), parse_md(a[2]), parse_vers(a[3]), parse_ranges(a[4]), a[5], Z(a[6]), Z(a[7])
    head, _, tr = go.partition(":")
    live, total = [Z(x) for x in head[5:].split("/")]
    if live != total:
        return [(None, f"{total - live} of {total} fresh transports first used by {g} goroutines at the same instant sent no Metadata "
                       f"request / kept the old view for 10 MetadataTTLs + 3s after a leader move: their refresh loop has stopped "
                       f"(the pool lost a reference on a grabPool path)")]
    ents, status = parse_trace(tr)
    exp, _ = e2e_expect(boot, md1, req, "-")
    got = [(b, k) for b, k, _, _ in ents]
    if got != exp[1]:
        return [(None, f"after a concurrent first use and a leader move the request went to {got}, the new leader is {exp[1]}")]
    return []


def predicates(c):
    op, a, go = c["op"], c["args"].split(" "), c["go"]
    try:
        if op == "sel":
            return pred_sel(a, go)
        if op == "route":
            return pred_route(a, go)
        if op == "lo":
            return pred_lo(a, go, c["feats"])
        if op == "ctl":
            return pred_ctl(a, go)
        if op == "class":
            return pred_class(a, go)
        if op == "cmeta":
            return pred_cmeta(a, go, c["feats"])
        if op == "setup":
            return pred_setup(a, go)
        if op == "prep":
            v, magic = Z(a[0]), Z(go)
            if (magic == 2) != (v >= 3) or magic not in (1, 2):
                return [(None, f"Produce v{v} is prepared with record format {magic}: record batches (2) are for v3 and above, message sets (1) below")]
            return []
        if op == "filter":
            return pred_filter(a, go, c["feats"])
        if op == "layout":
            return pred_layout(a, go)
        if op == "upd":
            return pred_upd(a, go, c["feats"])
        if op == "send":
            return pred_send(a, go)
        if op == "e2e":
            return pred_e2e(a, go)
        if op == "e2erec":
            return pred_e2erec(a, go)
        if op == "e2efu":
            return pred_e2efu(a, go)
        if op == "e2efail":
            return [(None, "requests did not follow the cluster within the watchdog: " + go)]
    except Exception as e:            # a malformed line is a broken correspondence, not a pass
        return [("__machinery__", f"predicate crashed on {op}: {e!r}")]
    return []


def classify(c):
    """A go/model disagreement: does the implementation's output itself violate C12?"""
    ps = [p for p in predicates(c) if p[0] != "__machinery__"]
    if ps:
        return dict(layer="property", what=ps[0][1], input=c, key=ps[0][0])
    return dict(layer="correspondence",
                what=f"{c['op']}: model and code differ but the code's output satisfies the property predicate", input=None)


def generate(ctx=None):
    """Translator: coq/Gen/Skeleton.v (call facts incl. the return statements of
    Transport.grabPool) from /repo's current source; shared with C10/C06."""
    from checks import c10
    return c10.generate(ctx)


def setup():
    L.go_build("c12")
    L.ocaml_build("c12")


def correspondence(ctx):
    gobin = L.go_build("c12")
    model = L.ocaml_build("c12")
    n = ctx.scale(4000, 20000)
    e2e = ctx.scale(120, 600)
    rec = ctx.scale(24, 120)
    fu = ctx.scale(6, 30)
    sasl = ctx.scale(30, 200)
    if getattr(ctx, "search_only_direct", False):
        n, e2e, rec, fu, sasl = 3 * n, 0, 0, 0, 0
    texts = []
    cdir = os.path.join(L.CORPUS, "C12")
    if os.path.isdir(cdir):
        for f in sorted(os.listdir(cdir)):
            texts.append(open(os.path.join(cdir, f)).read())
    rc, out, err, dt = L.sh([gobin, "-seed", str(ctx.seed), "-n", str(n), "-e2e", str(e2e), "-rec", str(rec), "-fu", str(fu), "-fun", "40", "-sasl", str(sasl)], timeout=3000)
    if rc != 0:
        raise L.Fail("correspondence", "harness cmd/c12 crashed", (out[-1500:] + err[-2500:]))
    texts.append(out)
    cases = []
    for t in texts:
        for c in L.parse_cases(t):
            c["id"] = str(len(cases) + 1)
            c["line"] = c["id"] + " " + c["op"] + " " + c["args"]
            cases.append(c)
    # scenarios a breaker skipped (three of their family had exceeded their bound): not compared
    not_run = [c for c in cases if c["go"] == "NOT-RUN"]
    cases = [c for c in cases if c["go"] != "NOT-RUN"]
    res = L.run_model(model, "\n".join(c["line"] for c in cases) + "\n")
    # while a refresh is pending a request may follow the previous or the new view
    plain = [c for c in cases if c["op"] != "e2elag"]
    bad = L.diff_cases(plain, res)
    for c in cases:
        if c["op"] == "e2elag":
            m = res.get(c["id"]) or ""
            if c["go"] not in m.split("#"):
                c2 = dict(c); c2["model"] = m
                c2["lag"] = True
                bad.append(c2)
    failures = []
    for c in bad[:20]:
        if c.get("lag"):
            f = dict(layer="property", key=None, input=c,
                     what="a request issued while a refresh was pending followed neither the previous nor the new metadata")
        else:
            f = classify(c)
        f["detail"] = json.dumps(dict(case=c["line"][:2000], go=c["go"][:500], model=str(c.get("model"))[:500]))
        if f.get("input") is not None:
            f["input"] = dict(case=c["line"], go=c["go"], model=c.get("model"))
        failures.append(f)
    # the property predicates evaluated on the implementation's own output (they also catch
    # what the faithful model reproduces)
    seen_keys = {}
    for c in cases:
        for key, what in predicates(c):
            if key == "__machinery__":
                failures.append(dict(layer="correspondence", what=what, detail=c["line"][:500], input=None))
                continue
            if key is not None:
                if key in seen_keys:
                    seen_keys[key]["count"] += 1
                    continue
                f = dict(layer="property", key=key, what=what, count=1,
                         detail=c["line"][:1500] + " -> " + c["go"][:300],
                         input=dict(case=c["line"], go=c["go"]))
                seen_keys[key] = f
                failures.append(f)
            else:
                failures.append(dict(layer="property", key=None, what=what,
                                     detail=c["line"][:1500] + " -> " + c["go"][:300],
                                     input=dict(case=c["line"], go=c["go"])))
    failures = failures[:40]
    ev, dn, hist = L.coverage_counts(cases, trivial_feats=("", "small", "equal", "classification"))
    lag_hist = {k: v for k, v in hist.items() if k.startswith("e2e:lag") or k.startswith("e2e:first-view")}
    rec_hist = {k: v for k, v in hist.items() if k.startswith("e2erec:recovered") or k.startswith("e2erec:fault=")
                or k.startswith("e2erec:k=") or k.startswith("e2e:coordinators-differ") or k.startswith("e2e:fc>=v1")}
    out = dict(evaluations=ev, distinct_nontrivial=dn, hist=hist,
               rule="cases from one PRNG (VERIF_SEED). Direct: SelectVersion over every registered API key and broker ranges "
                    "(disjoint below/above, equal, nested either way, touching, arbitrary int16); generated metadata (0-6 brokers incl. "
                    "duplicate/negative ids, controller/leader -1 or absent, 0-25 topics incl. duplicate/internal/empty names, duplicate "
                    "partitions) -> makeLayout; produce/fetch/raw-produce Broker() on requests naming known/unknown topics and partitions "
                    "with equal or differing leaders; list-offsets Split + Broker(); 14 controller-routed kinds; list-groups Split; the "
                    "routing interface of all 41 request types; filterMetadataResponse on the sorted cache and on unsorted input; update "
                    "sequences (new answers, mutated answers, failures, nil) observing metadata/err/layout/conn groups/ready; sendRequest "
                    "with a refusing dial function. End to end: kafka.Transport (MetadataTTL 30ms) over net.Pipe to a 3-6 broker fake with "
                    "per-broker ApiVersions tables, 4 phases (initial, leader moves, broker added + leaderless partition + no controller, "
                    "broker removed), 8-12 requests per phase plus 3 during each pending refresh; each journal compared with the model's "
                    "prediction from the metadata in force and judged by the Python predicates; find-coordinator is answered per (key, key type) "
                    "with mostly different nodes for the same string and the journal records the key type of each lookup. Refresh-loop "
                    "recovery (MetadataTTL 60ms): the transport's own Metadata requests are left unanswered for a full TTL k=1..3 times, "
                    "or the connection is closed under them, then the brokers answer again and every leader moves; the cached view must "
                    "follow within 10 TTLs + 3s and a fetch must go to the new leader. Describe-groups naming 1-4 groups with mostly different "
                    "coordinators: the fake answers NOT_COORDINATOR for groups it does not coordinate and journals the groups of every "
                    "sub-request. Concurrent first use: 40 fresh Transports per scenario, each first used by 4-8 goroutines behind a spin "
                    "barrier, then a leader move; each transport must send a Metadata request (client id in the journal) and follow. SASL/PLAIN "
                    "Transports against brokers advertising SaslHandshake absent/0..0/0..1/1..1/0..3 and SaslAuthenticate absent/0..0/0..1/0..2/1..2/1..1: the "
                    "set-up requests of every connection as journalled. Client.Metadata (direct over the cache and through the transport) "
                    "compared field by field, with ISR equal to / shrunk from / reordered against the replicas and racks. e2e phases 4 and 5 "
                    "re-register a broker under its id at a new address (the old one stops listening) and with a new rack only. Non-trivial: feature vector other than "
                    "the happy-path default; distinct by hash of op+args",
               samples=[c["line"][:300] + " | " + c["go"][:100] for c in cases[:2] + cases[len(cases)//3:len(cases)//3+2]
                        + cases[len(cases)//2:len(cases)//2+2] + cases[-2:]],
               failures=failures,
               notes=([f"{len(not_run)} scenario(s) NOT-RUN: a family breaker tripped after 3 scenarios exceeded their refresh bound"]
                      if not_run else []) +
                     ["refresh lag after a cluster change (end-to-end, MetadataTTL 30ms, IdleTimeout 10m; bound 10 TTLs + 3s): " + json.dumps(lag_hist, sort_keys=True),
                      "refresh-loop recovery after timed-out / failed refreshes (MetadataTTL 60ms) and coordinator key types: "
                      + json.dumps(rec_hist, sort_keys=True)],
               extra={})
    return out


def moved_broker_cases(ctx):
    """For checks/c19.py: the cases in which a broker keeps its id but is re-registered at a new
    address or rack (update sequences over mutated answers; e2e phases 4 and 5 with the requests
    for the partitions it leads), judged like in correspondence()."""
    gobin = L.go_build("c12")
    model = L.ocaml_build("c12")
    rc, out, err, dt = L.sh([gobin, "-seed", str(ctx.seed), "-n", str(ctx.scale(400, 2000)), "-e2e", str(ctx.scale(24, 120)),
                             "-rec", "0", "-fu", "0", "-sasl", "0"], timeout=1200)
    if rc != 0:
        raise L.Fail("correspondence", "harness cmd/c12 crashed", (out[-1500:] + err[-2500:]))
    cases = []
    for c in L.parse_cases(out):
        fs = c["feats"].split(",")
        if c["go"] == "NOT-RUN":
            continue
        if (c["op"] == "upd" and "mutated" in fs) or "moved-broker" in fs or \
           (c["op"] == "e2efail" and ("phase4" in c["args"] or "phase5" in c["args"])):
            c["id"] = str(len(cases) + 1)
            c["line"] = c["id"] + " " + c["op"] + " " + c["args"]
            cases.append(c)
    res = L.run_model(model, "\n".join(c["line"] for c in cases) + "\n")
    failures = []
    for c in L.diff_cases(cases, res)[:10]:
        f = classify(c)
        failures.append(dict(layer=f["layer"], key=f.get("key"), what="C19 queries after a broker moved: " + f["what"],
                             detail=json.dumps(dict(case=c["line"][:1500], go=c["go"][:400], model=str(c.get("model"))[:400])),
                             input=dict(case=c["line"], go=c["go"], model=c.get("model")) if f.get("input") is not None else None))
    for c in cases:
        for key, what in predicates(c):
            if key is None and len(failures) < 20:
                failures.append(dict(layer="property", key=None, what="C19 queries after a broker moved: " + what,
                                     detail=c["line"][:1500] + " -> " + c["go"][:300], input=dict(case=c["line"], go=c["go"])))
    ev, dn, hist = L.coverage_counts(cases)
    return dict(evaluations=ev, distinct_nontrivial=dn, hist=hist, failures=failures,
                samples=[c["line"][:300] + " | " + c["go"][:100] for c in cases[:3]])


def search(ctx, violations):
    """A layer broke without a concrete input: a larger differential of the DIRECT families with
    another seed (the end-to-end and recovery families are not re-run: they wait on the Transport);
    any disagreement whose Go side violates a predicate is a failing input."""
    for v in violations:
        if v.get("input"):
            return v["input"]
    for v in violations:
        if v.get("layer") == "obligation" and "SkeletonRouting" in (v.get("what", "") + v.get("detail", "")):
            v["what"] += (": T13 no longer holds of transport.go -- a return statement of Transport.grabPool is not preceded by "
                          "p.ref() and does not construct the pool (Model/RoutingSkeleton.v): a RoundTrip would hold no reference, "
                          "its unref cancels the pool context and stops the refresh loop")
            return dict(case="static: Proofs/SkeletonRouting.v pool_reference_skeleton_ok over Gen/Skeleton.v",
                        go="Transport.grabPool", model="pool_reference_assumption_holds calls = true")
    ctx.seed += 1000
    ctx.search_only_direct = True
    try:
        c = correspondence(ctx)
    except L.Fail:
        return None
    finally:
        ctx.search_only_direct = False
    for f in c["failures"]:
        if f.get("input"):
            return f["input"]
    return None


def replay(ctx, payload):
    inp = payload.get("input")
    if not inp:
        print("replay: no concrete input recorded; broken layer:", payload.get("broken"))
        print(payload.get("detail", "")[:3000])
        return 1
    print("replay case:", inp["case"][:1500])
    print("go result at the time:", inp.get("go"), " model:", inp.get("model"))
    model = L.ocaml_build("c12")
    res = L.run_model(model, inp["case"] + "\n")
    print("model now:", res)
    c = L.parse_cases(inp["case"] + " | " + (inp.get("go") or "") + " | ")[0]
    print("property predicates on the recorded output:", predicates(c))
    print(f"to re-run the implementation: build/bin/c12 -seed {payload.get('seed', 1)} (the case is regenerated from the seed)")
    return 1
