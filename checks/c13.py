"""C13 — partition balancers (DESIGN.md section 7, C13)."""
import json, os
import checklib as L

TRUSTED_BASE = [
    "Coq 8.16.1 kernel (coqc; coqchk in the thorough tier); vm_compute used only in non-vacuity Examples and refutation witnesses; no native_compute",
    "hand-written model coq/Model/Balancers.v of /repo/balancer.go, tied by the differential run of harness/cmd/c13 (real code, build tag verif) against the OCaml extraction (ExtrOcamlBasic only: bool/option/unit/list/prod/sumbool mapped; nat, positive, N, Z kept as Coq datatypes)",
    "coq/Spec/RefPartitioners.v: Sarama hashPartitioner / ReferenceHashPartitioner, librdkafka consistent(_random), Java Utils.murmur2+toPositive transcribed by hand from the reference clients (fidelity to those clients is trusted)",
    "Go stdlib hash/fnv and hash/crc32 are modelled (fnv1a32, bitwise reflected CRC-32) and compared on every run, not verified",
    "ocaml/kvio.ml.in + ocaml/c13_driver.ml (hex interchange, ~150 lines) and harness/kvfmt",
    "atomicity of each Balance call (one mutex critical section) is assumed here and is C10's business; randomBalancer's rand.Int() is an environment choice",
]
ASSUMPTIONS = [
    "partition lists are what Writer supplies (0..n-1, 0 < n < 2^31) for Hash/ReferenceHash and LeastBytes; any non-empty duplicate-free list for the others",
    "key bytes < 256; n up to 10^5 exercised in the differential (the theorems cover every n)",
]


def lb_predicate(args, res):
    """LeastBytes property on the implementation's own output: every pick had a
    minimal byte counter among the offered partitions, counters reset when the
    number of partitions changes."""
    counters, nprev = {}, None
    for call, r in zip(args.split(" "), res.split(",")):
        ps, sz = call.split(":")
        ps = [int(x, 16) for x in ps.split(",")]
        if nprev != len(ps):
            counters = {p: 0 for p in ps}
            nprev = len(ps)
        p = int(r, 16)
        if p not in counters:
            return False
        if counters[p] != min(counters.values()):
            return False
        counters[p] += int(sz, 16)
    return True


def rr_predicate(args, res):
    """RoundRobin property on maximal stretches with an unchanged partition list:
    runs of ChunkSize equal picks, advancing cyclically through the list."""
    toks = args.split(" ")
    chunk = int(toks[0], 16) if not toks[0].startswith("-") else -int(toks[0][1:], 16)
    chunk = max(chunk, 1)
    calls = toks[2:]
    out = [int(x, 16) for x in res.split(",")[:-1]]
    i = 0
    while i < len(calls):
        j = i
        while j + 1 < len(calls) and calls[j + 1] == calls[i]:
            j += 1
        ps = [int(x, 16) for x in calls[i].split(",")]
        seg = out[i:j + 1]
        n = len(ps)
        ok = False
        for j0 in range(n):
            for t0 in range(chunk):
                if all(seg[k] == ps[(j0 + (t0 + k) // chunk) % n] for k in range(len(seg))):
                    ok = True
                    break
            if ok:
                break
        if not ok:
            return False
        i = j + 1
    return True


def classify(c):
    """A go/model disagreement: does the implementation's output itself violate C13?"""
    op = c["op"]
    if c.get("model") == "SPECDIFF":
        return dict(layer="obligation", what=f"model disagrees with the reference spec on {op} (theorem C13_*_is_* cannot hold)",
                    input=c, key=None)
    if op in ("fnv", "crc"):
        return dict(layer="correspondence", what=f"model of Go stdlib {op} disagrees with the library", input=None)
    if op == "lb":
        if lb_predicate(c["args"], c["go"]):
            return dict(layer="correspondence", what="LeastBytes: model and code differ (tie-break?) but every pick was a minimum", input=None)
        return dict(layer="property", what="LeastBytes picked a partition that did not have the fewest bytes", input=c)
    if op == "wrtm":
        return dict(layer="property", what="a kafka.Writer whose messages carry their own topics offered its balancer a partition list that is not 0..n-1 of the message's topic, or produced a record to a partition other than the balancer's result for that list", input=c)
    if op == "wrt":
        return dict(layer="property", what="messages written through a kafka.Writer (default balancer or RoundRobin{ChunkSize}) over several WriteMessages calls did not reach the partitions in round-robin order across the calls", input=c)
    if op == "hashconc":
        return dict(layer="property", what="a key-hashing balancer with its default hasher, shared by concurrent callers, returned a partition that differs from the one the same call returns sequentially (not a pure function of key and partition count)", input=c)
    if op == "parts":
        return dict(layer="property", what="the partition list the Writer offers to its balancer was not 0..n-1 (read while another caller grew the process-wide cache)", input=c)
    if op == "lbconc":
        return dict(layer="property", what="LeastBytes under concurrent use: spread is not that of any sequential order", input=c)
    if op == "rrconc":
        return dict(layer="property", what="RoundRobin under concurrent use: pick multiset differs from sequential", input=c)
    if op == "rr":
        if rr_predicate(c["args"], c["go"]):
            return dict(layer="correspondence", what="RoundRobin: model and code differ but the output is a correct chunked cycle", input=None)
        return dict(layer="property", what="RoundRobin output is not runs of ChunkSize cycling through the partitions", input=c)
    # keyed balancers: the model is proved equal to the reference client's formula,
    # so a differing result is a partition the reference client would not choose
    if c["go"] == "Rout":
        return dict(layer="property", what=f"{op}: returned a partition that was not offered", input=c)
    return dict(layer="property", what=f"{op}: result differs from the reference client's partitioner", input=c)


def setup():
    L.go_build("c13")
    try:
        L.go_build("c13", race=True)
    except L.Fail:
        pass
    L.ocaml_build("c13")


def correspondence(ctx):
    gobin = L.go_build("c13")
    model = L.ocaml_build("c13")
    n = ctx.scale(1500, 40000)
    texts = []
    cdir = os.path.join(L.CORPUS, "C13")
    if os.path.isdir(cdir):
        for f in sorted(os.listdir(cdir)):
            texts.append(open(os.path.join(cdir, f)).read())
    rc, out, err, dt = L.sh([gobin, "-seed", str(ctx.seed), "-n", str(n)], timeout=3000)
    if rc != 0:
        raise L.Fail("correspondence", "harness cmd/c13 crashed (panic in a balancer?)", (out[-1500:] + err[-2500:]))
    texts.append(out)
    cases = []
    for t in texts:
        cs = L.parse_cases(t)
        for c in cs:
            c["id"] = str(len(cases) + 1)
            c["line"] = c["id"] + " " + c["op"] + " " + c["args"]
            cases.append(c)
    res = L.run_model(model, "\n".join(c["line"] for c in cases) + "\n")
    bad = L.diff_cases(cases, res)
    failures = []
    for c in bad[:20]:
        f = classify(c)
        f["detail"] = json.dumps(dict(case=c["line"][:2000], go=c["go"][:500], model=str(c.get("model"))[:500]))
        if f.get("input") is not None:
            f["input"] = dict(case=c["line"], go=c["go"], model=c.get("model"))
        failures.append(f)
    # the property predicates evaluated on the implementation's own output
    # (they also catch what the faithful model reproduces, e.g. the uint32 wrap)
    for c in cases:
        if c["op"] == "rr" and not rr_predicate(c["args"], c["go"]):
            wrap = "preset-cross" in c["feats"]
            failures.append(dict(layer="property", key=None,
                                 what="RoundRobin output is not runs of ChunkSize cycling through the partitions"
                                      + (" (counter crossing 2^32 or 2^63)" if wrap else ""),
                                 detail=c["line"][:500] + " -> " + c["go"][:300],
                                 input=dict(case=c["line"], go=c["go"])))
        if c["op"] == "lb" and not lb_predicate(c["args"], c["go"]):
            failures.append(dict(layer="property", what="LeastBytes picked a partition that did not have the fewest bytes",
                                 detail=c["line"][:500], input=dict(case=c["line"], go=c["go"])))
    # the concurrent default-hasher family once more in a binary built with the race detector:
    # two callers that share a hasher (or any other state of a balancer documented as safe for
    # concurrent use) are reported whatever the timing; a wrong partition needs a rare preemption
    race_note = None
    try:
        rexe = L.go_build("c13", race=True)
        rrc, rout, rerr, rdt = L.sh([rexe, "-seed", str(ctx.seed), "-only", "hashconc"], timeout=600,
                                    env=dict(os.environ, GORACE="halt_on_error=0 exitcode=66"))
        nrace = rerr.count("WARNING: DATA RACE")
        rcases = L.parse_cases(rout)
        for c in rcases:
            c["id"] = str(len(cases) + 1)
            c["line"] = c["id"] + " " + c["op"] + " " + c["args"]
            c["feats"] = (c.get("feats") or "") + ",race-detector-build"
            cases.append(c)
            if c["go"] != "ok":
                f = classify(dict(c, model="ok"))
                f["detail"] = json.dumps(dict(case=c["line"], go=c["go"]))
                f["input"] = dict(case=c["line"], go=c["go"], model="ok")
                failures.append(f)
        if nrace:
            rep = rerr[rerr.index("WARNING: DATA RACE"):][:3000]
            failures.append(dict(layer="property", key=None,
                                 what=f"balancers shared by concurrent callers: the Go race detector reports {nrace} data race(s) inside Balance "
                                      "(state shared between calls: the result of one call depends on what the other callers hash at the same time)",
                                 detail=rep[:1500],
                                 input=dict(case="hashconc (race-detector build)", replay="build/bin/c13_race -seed %d -only hashconc" % ctx.seed, report=rep)))
        elif rrc != 0:
            failures.append(dict(layer="correspondence", what="race-detector build of harness/cmd/c13 -only hashconc failed to run", detail=(rout[-500:] + rerr[-1500:]), input=None))
    except L.Fail as f:
        race_note = "race-detector build of harness/cmd/c13 unavailable: " + str(getattr(f, "detail", ""))[-300:]
    ev, dn, hist = L.coverage_counts(cases, trivial_feats=("", "len%4=0,lo", "len%4=0,lo,n<64", "chunk=1,fresh", "changes=0"))
    return dict(evaluations=ev, distinct_nontrivial=dn, hist=hist,
                rule="cases from one PRNG (VERIF_SEED): keys of length 0..300 (nil/empty/ascii/high-bit/00-ff/random), "
                     "n in {1,2,3,2^k±1,≤64,≤10^5}, arbitrary partition-id lists for CRC32/Murmur2/RoundRobin/LeastBytes, "
                     "stateful sequences for Hash(nil→RoundRobin)/RoundRobin(counter preset incl. near 2^32)/LeastBytes, "
                     "concurrent G-goroutine runs; a case is non-trivial when its feature vector is not the happy-path default "
                     "(4-aligned ascii key, chunk 1 fresh counter, no partition change); distinct by hash of op+args",
                samples=[c["line"][:300] + " | " + c["go"][:100] for c in cases[:3] + cases[len(cases)//2:len(cases)//2+3] + cases[-2:]],
                failures=failures, notes=[race_note] if race_note else [])


def search(ctx, violations):
    """An obligation or the correspondence broke without a concrete input: run a larger
    differential (the model is proved equal to the reference spec, so any disagreement
    on a keyed balancer is a failing input)."""
    ctx.seed += 1000
    ctx.tier = "thorough"
    ctx.thorough = True
    try:
        c = correspondence(ctx)
    except L.Fail:
        return None
    for f in c["failures"]:
        if f.get("input"):
            return f["input"]
    return None


def replay(ctx, payload):
    inp = payload.get("input")
    if not inp:
        print("replay: no concrete input recorded; broken layer:", payload.get("broken"))
        print(payload.get("detail", "")[:3000])
        return 1
    print("replay case:", inp["case"][:500])
    print("go result at the time:", inp.get("go"), " model:", inp.get("model"))
    model = L.ocaml_build("c13")
    res = L.run_model(model, inp["case"] + "\n")
    print("model now:", res)
    return 1
