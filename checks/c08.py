"""C08 — Writer batches respect size limits and are flushed without further input (DESIGN.md section 7).
Model coq/Model/Writer.v, theorems coq/Properties/C08.v; the run is shared with the other
Writer checks (checks/writer_common.py)."""
import checklib as L
from checks import writer_common as W

PROP = "C08"
TRUSTED_BASE = list(W.COMMON_TRUSTED) + [
    "elapsed real time (BatchTimeout) is abstracted: the theorems say the timer step of every open batch is enabled and moves it to the queue, and that a queued batch is served; wall-clock bounds are only measured by generous watchdogs",
]
ASSUMPTIONS = [
    "1 <= BatchSize (effective value); sizes are Message.totalSize()",
]


generate = W.generate   # regenerates coq/Gen/Skeleton.v (synchronisation skeleton) before the Coq build


def setup():
    W.setup()


def correspondence(ctx):
    return W.correspondence_for(PROP, ctx, "C08 judges: C08_limits_holds, rejected_sends_nothing_holds, verdict_holds on every history, plus the add/size/wm step-level cases.")


def search(ctx, violations):
    return W.search_for(PROP, ctx, violations)


def replay(ctx, payload):
    return W.replay(ctx, payload)
