"""C10 — types documented as goroutine-safe are free of data races (DESIGN.md section 7, C10).

Layer 1 (obligations): coq/Properties/C10.v over coq/Gen/Skeleton.v, which generate() rewrites
from /repo's current source with the translator harness/cmd/vskel (must-hold locksets).
Layer 2 (correspondence): translator self-test and sanity counts; every access site that is
exempted from the discipline as a known exception is reported as a failure under its key;
concurrent client programs (harness/cmd/c10, -race build) run under the Go race detector: a
report that cannot be attributed to a known exception means the static model is unsound
there (or a new race) -> violation with report and program as replay.
Layer 3 (search): when the discipline obligation breaks, the race programs are biased towards
the methods touching the offending fields."""
import glob, json, os, re, shutil, subprocess, time
import checklib as L

GEN_V = os.path.join(L.COQ, "Gen", "Skeleton.v")
SKEL_JSON = os.path.join(L.BUILD, "c10_skeleton.json")
LOGDIR = os.path.join(L.BUILD, "c10_race")
# where the race-instrumented library sources live (harness/go.mod: replace ... => /repo)
_m = re.search(r"replace\s+github.com/segmentio/kafka-go\s+=>\s+(\S+)", open(os.path.join(L.HARNESS, "go.mod")).read())
RACE_REPO = (_m.group(1) if _m else "/repo").rstrip("/") + "/"

TRUSTED_BASE = [
    "Coq 8.16.1 kernel (coqc; coqchk in the thorough tier); vm_compute used for the obligations about the current source (C10_current_discipline, C10_exported_closed, C10_unexempted_discipline_refuted) and in non-vacuity Examples; no native_compute",
    "the memory model written in coq/Model/DRF.v (events, lock semantics with owner discipline, happens-before = program order + release->acquire + channel send/close->receive + go + atomics + Once; race = two conflicting accesses unordered by it) as a rendering of the Go memory model",
    "translator harness/cmd/vskel (go/packages v0.29.0 + go/types, ~2400 lines): its must-hold locksets are assumed sound (theorem hypothesis `conforms`); syntactic: no alias analysis, no object identity (lock T.f stands for the f of the accessed object), locals/heap objects behind pointers/map and slice elements are attributed to the field holding them; self-tested on embedded snippets with known answers on every run",
    "hand-written policy coq/Model/Policy.v: kinds HandedOff, Confined, SelfSynchronised, LockTransferred are accepted without a static check (see extra.policy_kinds), WriteOnceBeforePublish is checked syntactically (writes only on fresh objects) and relies on safe publication; reviewed_sites and reviewed_unknowns are argued in comments",
    "Go race detector (go build -race) on the executed schedules of harness/cmd/c10 only; third-party packages (klauspost/compress, pierrec/lz4, xdg-go/scram) and the standard library are outside the static analysis",
]
ASSUMPTIONS = [
    "callers obey the documented contracts: configuration fields (Writer.*, Transport.*, ReaderConfig) are not modified after first use; a reader/writer obtained from a compression codec, a protocol page buffer and a Message are used by one goroutine at a time",
    "a lock is released by the goroutine that acquired it; a callee does not retain a pointer &x.f passed to it beyond the call; deferred functions run after a normal return (panics are not modelled as control flow)",
    "Reader consumer-group mode is exercised only by the readergroup scenario (one member, forced rebalances on the in-memory group broker harness/groupfake)",
]

# A site listed in Policy.known_exceptions is reported as a failure under this key (to be
# matched by a status "known" entry of known_findings.json).  The list is empty at present:
# the four F7 races found by this check (Batch.Err/batch.err, Batch.ReadMessage/conn.offset,
# Reader.start's goroutine/r.version, Reader.unsubscribe/r.cancel) were fixed in /repo; their
# programs stay in harness/cmd/c10 as regression scenarios that must run clean under -race.
def site_key(site):
    return "C10-" + "-".join(site).replace("$", "-lit")


def site_what(site):
    return f"{site[0]}.{site[1]} is accessed in {site[2]} outside the protection its policy entry demands (recorded exception)"


REGRESSION_SCENARIOS = ["batcherr", "connoffset", "readerversion", "readergroup", "writergrow", "recordset",
                        "transporttls", "dialertls", "conncompress"]
FOCUS_SCENARIO = {"Batch.err": "batcherr", "Conn.offset": "connoffset", "Reader.version": "readerversion",
                  "$kafka.partitionsCache": "writergrow", "connPool.tls": "transporttls", "Transport.TLS": "transporttls",
                  "Dialer.TLS": "dialertls", "$kafka.bufferPool": "conncompress", "snappy.writer.xerialWriter": "recordset",
                  "Reader.cancel": "readergroup"}


def go_symbol(func):
    """'Batch.Err' -> '(*Batch).Err', 'Reader.start$1' -> '(*Reader).start.func1'."""
    m = re.match(r"^(?:(\w+)\.)?(\w+)\.(\w+)(?:\$(\d+))?$", func)
    if not m:
        return func
    pkg, typ, meth, lit = m.groups()
    s = f"(*{typ}).{meth}"
    if lit:
        s += f".func{lit}"
    return s


# ----------------------------------------------------------------------------- translator

def generate(ctx=None):
    """Translator: regenerate coq/Gen/Skeleton.v from /repo's current source."""
    vskel = L.go_build("vskel")
    os.makedirs(os.path.dirname(GEN_V), exist_ok=True)
    tmp = GEN_V + ".new%d" % os.getpid()
    rc, out, err, _ = L.sh([vskel, "-repo", L.REPO, "-out", tmp, "-json", SKEL_JSON], timeout=600, env=L.GOENV)
    if rc != 0:
        raise L.Fail("obligation", "translator vskel failed on /repo (does the package still type-check?)", (out + err)[-3000:])
    L.write_if_changed(GEN_V, open(tmp).read())
    os.remove(tmp)
    return json.load(open(SKEL_JSON))["counts"]


def setup():
    generate()
    try:
        L.go_build("c10", race=True)
    except L.Fail as f:
        print("C10 setup: -race build failed, the race tier will be skipped:", f.detail[-500:])


def coq_query(text, timeout=600):
    """Evaluate a few Eval commands against Policy/Skeleton (compiled on demand)."""
    with L.Lock("coq"):
        L.coq_project()
        rc, o, e, _ = L.sh(f"make -f Makefile.coq -j{L.NCPU} Model/Policy.vo Gen/Skeleton.vo", cwd=L.COQ, timeout=timeout)
        if rc != 0:
            return None, (o + e)[-2000:]
        q = os.path.join(L.BUILD, "c10_query_%d.v" % os.getpid())
        with open(q, "w") as f:
            f.write("From Coq Require Import List String Bool.\nFrom KV Require Import Model.DRF Model.Policy Gen.Skeleton.\n"
                    "Open Scope string_scope.\n" + text)
        rc, o, e, _ = L.sh(f"coqc -Q {L.COQ} KV {q}", cwd=L.BUILD, timeout=timeout)
        for junk in glob.glob(q[:-2] + ".*") + glob.glob(os.path.join(L.BUILD, ".c10_query_*")):
            os.remove(junk)
    if rc != 0:
        return None, (o + e)[-2000:]
    return o, ""


def skeleton_hint(asms, model):
    """Which assumption of Model/SkeletonAssumptions.<asms> fails, at which call / access site
    (for the replay detail when Proofs/Skeleton*.v breaks in the cone of an LTS property)."""
    with L.Lock("coq"):
        L.coq_project()
        rc, o, e, _ = L.sh(f"make -f Makefile.coq -j{L.NCPU} Model/SkeletonAssumptions.vo Gen/Skeleton.vo", cwd=L.COQ, timeout=900)
    if rc != 0:
        return "could not evaluate the skeleton assumptions: " + (o + e)[-500:]
    out, err = coq_query("From KV Require Import Model.SkeletonAssumptions.\n"
                         f"Eval vm_compute in (failing calls accesses {asms}).\n")
    if out is None:
        return "could not evaluate the skeleton assumptions: " + err[-500:]
    txt = " ".join(out.split())
    txt = txt[:txt.rfind(": list")] if ": list" in txt else txt
    return (f"synchronisation-skeleton assumptions of {model} violated by the source "
            "(assumption, offending call sites (caller, callee, pos), offending accesses (function, field, pos)): " + txt[:1800])


def annotate_skeleton_failure(ctx, violations, marker, asms, model, src):
    """Called from the search() of the LTS checks: name the offending site in the replay detail."""
    for v in violations:
        if v.get("layer") == "obligation" and (marker in v.get("what", "") or marker in v.get("detail", "")):
            hint = skeleton_hint(asms, model)
            v["detail"] = (hint + "\n" + v.get("detail", ""))[-3000:]
            v["what"] += f": a locking / goroutine-structure assumption of the model no longer holds of {src}"
            ctx.notes.append(hint[:1500])


def offenders(exempted):
    """Access sites violating the policy: list of (type, field, kind, func, pos)."""
    facts = "(without exempt accesses)" if exempted else "accesses"
    out, err = coq_query(
        f"Eval vm_compute in (map (fun f => (a_type f, a_field f, a_kind f, a_func f, a_pos f)) (offenders {facts} kafka)).\n"
        "Eval vm_compute in (filter (fun tf => match lookup kafka (fst tf) (snd tf) with Some _ => false | None => true end) fields).\n"
        "Eval vm_compute in (filter (fun u => negb (existsb (unk_eqb u) reviewed_unknowns)) unknowns).\n"
        "Eval vm_compute in (filter (fun u => negb (existsb (unk_eqb u) unknowns)) reviewed_unknowns).\n")
    if out is None:
        return None, None, None, err
    blocks = re.split(r"\n\s*:\s*list[^\n]*\n", out)
    sites = re.findall(r'\("([^"]*)",\s*"([^"]*)",\s*(K\w+),\s*"([^"]*)",\s*"([^"]*)"\)', blocks[0])
    nopol = re.findall(r'\("([^"]*)",\s*"([^"]*)"\)', blocks[1]) if len(blocks) > 1 else []
    unk_re = r'u_func := "([^"]*)";\s*u_what := "([^"]*)";\s*u_text := "([^"]*)"'
    unk = re.findall(unk_re, blocks[2]) if len(blocks) > 2 else []
    global STALE_UNKNOWNS
    STALE_UNKNOWNS = re.findall(unk_re, blocks[3]) if len(blocks) > 3 else []
    return sites, nopol, unk, ""


STALE_UNKNOWNS = []


def policy_summary():
    src = L.strip_comments(open(os.path.join(L.COQ, "Model", "Policy.v")).read())
    kinds = {}
    for m in re.finditer(r'\("[^"]*",\s*"[^"]*",\s*(\w+)', src):
        kinds[m.group(1)] = kinds.get(m.group(1), 0) + 1
    exc = re.search(r"Definition known_exceptions.*?:=\s*\[(.*?)\]\.", src, re.S)
    rev = re.search(r"Definition reviewed_sites.*?:=\s*\[(.*?)\]\.", src, re.S)
    trip = lambda s: re.findall(r'\("([^"]*)",\s*"([^"]*)",\s*"([^"]*)"\)', s.group(1)) if s else []
    return kinds, trip(exc), trip(rev)


# ----------------------------------------------------------------------------- race runs

def parse_reports(text):
    """Race detector output -> list of dict(accesses=[(kind, [(fn, loc)..])..], text)."""
    reps = []
    for rep in text.split("WARNING: DATA RACE")[1:]:
        body = rep.split("==================")[0]
        head = body.split("Goroutine ")[0]
        accs = []
        for part in re.split(r"\n\s*\n", head.strip())[:2]:
            lines = [l.strip() for l in part.strip().split("\n")]
            kind = re.sub(r" at 0x[0-9a-f]+ by .*", "", lines[0])
            frames = []
            for i in range(1, len(lines) - 1, 2):
                frames.append((lines[i], lines[i + 1].split(" +")[0]))
            accs.append((kind, frames))
        reps.append(dict(accesses=accs, text=("WARNING: DATA RACE" + body)[:2500]))
    return reps


def report_key(rep):
    """Deduplication key: kind and the first two /repo frames of each access."""
    k = []
    for kind, frames in rep["accesses"]:
        rf = [loc for fn, loc in frames if loc.startswith(RACE_REPO)][:2]
        k.append((kind.replace("Previous ", "").lower(), tuple(rf)))
    return tuple(sorted(k))


def attribute(rep, exc_sites):
    """Which known exception explains this report: an access whose innermost /repo frame is the
    exempted function."""
    for site in exc_sites:
        sym = go_symbol(site[2])
        for kind, frames in rep["accesses"]:
            inner = [fn for fn, loc in frames if loc.startswith(RACE_REPO)]
            if inner and inner[0].split("kafka-go")[-1].lstrip(".").startswith(sym + "("):
                return site
    return None


def in_repo(rep):
    return all(any(loc.startswith(RACE_REPO) for fn, loc in frames) for kind, frames in rep["accesses"])


def run_race(scenarios, seed, dur, focus=None, tag="q"):
    """One process per scenario, in parallel.  Returns (summaries, reports, problems)."""
    try:
        exe = L.go_build("c10", race=True)
    except L.Fail as f:
        return None, [], ["-race build failed: " + f.detail[-800:]]
    shutil.rmtree(LOGDIR, ignore_errors=True)
    os.makedirs(LOGDIR, exist_ok=True)
    procs = []
    for i, sc in enumerate(scenarios):
        log = os.path.join(LOGDIR, f"{tag}_{sc}_{i}")
        env = dict(os.environ, GORACE=f"halt_on_error=0 exitcode=0 atexit_sleep_ms=0 log_path={log}")
        cmd = [exe, "-scenario", sc, "-seed", str(seed + i), "-dur", dur]
        if focus:
            cmd += ["-focus", focus]
        procs.append((sc, seed + i, log, cmd, subprocess.Popen(cmd, stdout=subprocess.PIPE, stderr=subprocess.PIPE, text=True, env=env)))
    summaries, reports, problems = {}, [], []
    secs = float(re.sub(r"[^0-9.]", "", dur) or 2) * (60 if dur.endswith("m") else 1)
    for sc, sd, log, cmd, p in procs:
        try:
            out, err = p.communicate(timeout=secs * 4 + 60)
        except subprocess.TimeoutExpired:
            p.kill()
            out, err = p.communicate()
            problems.append(f"scenario {sc} did not terminate")
        m = re.search(r"SUMMARY scenario=(\S+) programs=(\d+) ops=(\d+) methods=(\S*)", out)
        if m:
            summaries[sc] = dict(programs=int(m.group(2)), ops=int(m.group(3)), methods=m.group(4).split(","),
                                 f3_hangs=out.count("F3-HANG-SKIPPED"))
        else:
            problems.append(f"scenario {sc}: no SUMMARY line (rc={p.returncode}) " + (out[-300:] + err[-600:]))
        for bad in ("WATCHDOG", "MISMATCH", "PANIC"):
            if bad in out:
                line = next(l for l in out.splitlines() if bad in l)
                problems.append(f"scenario {sc}: {line[:300]}")
        text = err
        for f in glob.glob(log + ".*"):
            text += open(f, errors="replace").read()
        for r in parse_reports(text):
            r.update(scenario=sc, seed=sd, dur=dur, focus=focus, cmd=" ".join(cmd[1:]))
            reports.append(r)
    return summaries, reports, problems


def scenarios():
    exe = os.path.join(L.BIN, "c10_race")
    rc, out, err, _ = L.sh([exe, "-list"], timeout=60)
    return [s for s in out.split() if s]


# ----------------------------------------------------------------------------- layers

def correspondence(ctx):
    failures, notes = [], []
    # --- translator self-checks
    vskel = L.go_build("vskel")
    rc, out, err, _ = L.sh([vskel, "-selftest"], timeout=300, env=L.GOENV)
    if rc != 0:
        raise L.Fail("correspondence", "vskel self-test failed: the lockset analysis no longer gives the known answers on its embedded snippets", (out + err)[-3000:])
    selftest_n = int(re.search(r"(\d+) expectations", out).group(1))
    if not os.path.exists(SKEL_JSON):
        generate(ctx)
    skel = json.load(open(SKEL_JSON))
    counts = skel["counts"]
    if skel.get("missing"):
        failures.append(dict(layer="correspondence", what="listed types no longer exist in /repo: " + ", ".join(skel["missing"]),
                             detail="harness/cmd/vskel interestTable names a type that the source does not declare", input=None))
    for k, lo in (("functions", 800), ("access_facts", 400), ("fields", 200), ("exported_methods", 100), ("lock_names", 10)):
        if counts.get(k, 0) < lo:
            failures.append(dict(layer="correspondence", what=f"translator extracted only {counts.get(k, 0)} {k} (expected at least {lo}): the pass no longer sees the package",
                                 detail=json.dumps(counts), input=None))
    kinds, exc_sites, rev_sites = policy_summary()

    # --- which exempted sites still violate the policy on the current tree
    sites, nopol, unk, qerr = offenders(exempted=False)
    still, stale_n = [], 0
    if sites is None:
        notes.append("could not evaluate the offenders query: " + qerr[-300:])
    else:
        by_site = {}
        for (t, f, k, fn, pos) in sites:
            by_site.setdefault((t, f, fn), []).append(f"{k} at {pos}")
        for s in exc_sites:
            if s in by_site:
                still.append(s)
            else:
                notes.append(f"STALE Policy.known_exceptions entry {s}: no access fact violates the policy there any more (fixed?): remove it")
        for s in rev_sites:
            if s not in by_site:
                notes.append(f"STALE Policy.reviewed_sites entry {s}: no access fact violates the policy there any more: remove it")
        for u in STALE_UNKNOWNS:
            notes.append(f"STALE Policy.reviewed_unknowns entry {u}: the translator no longer reports this construct: remove it")
        stale_n = sum(1 for n in notes if n.startswith("STALE"))

    # --- race-detector runs
    L.go_build("c10", race=True)
    scs = scenarios()
    dur = "5s" if not ctx.thorough else "45s"
    rounds = 1 if not ctx.thorough else 3
    summaries, reports, problems = {}, [], []
    for r in range(rounds):
        sm, rp, pb = run_race(scs, ctx.seed * 1000 + r * 100, dur, tag=f"r{r}")
        if sm is None:
            notes.append("race tier skipped: " + "; ".join(pb))
            break
        for k, v in sm.items():
            if k in summaries:
                summaries[k]["programs"] += v["programs"]; summaries[k]["ops"] += v["ops"]; summaries[k]["f3_hangs"] += v["f3_hangs"]
                summaries[k]["methods"] = sorted(set(summaries[k]["methods"]) | set(v["methods"]))
            else:
                summaries[k] = v
        reports += rp
        problems += pb
    for p in problems:
        if "MISMATCH" in p or "PANIC" in p:
            # the programs also evaluate functional predicates (round trips give the data back, the SNI
            # presented to a broker is that broker's host, the caller's tls.Config is untouched, ...)
            failures.append(dict(layer="property", what="a concurrent client program observed a wrong result: " + p[:200], detail=p, input=None))
        else:
            failures.append(dict(layer="correspondence", what="race harness problem: " + p[:200], detail=p, input=None))

    distinct, confirmed, unattributed = {}, {}, []
    for rep in reports:
        k = report_key(rep)
        if k in distinct:
            continue
        distinct[k] = rep
        site = attribute(rep, exc_sites)
        if site is not None:
            confirmed.setdefault(site, rep)
        elif in_repo(rep):
            unattributed.append(rep)
        else:
            notes.append("race report outside /repo (harness fake?): " + rep["text"][:400])

    for s in still:
        key = site_key(s)
        rep = confirmed.get(s)
        detail = f"static: {s[0]}.{s[1]} accessed in {s[2]} outside its policy ({'; '.join(by_site[s])})"
        inp = None
        if rep:
            detail += "\nrace detector (" + rep["cmd"] + "):\n" + rep["text"]
            inp = dict(scenario=rep["scenario"], seed=rep["seed"], dur=rep["dur"], focus=rep["focus"], key=key, report=rep["text"])
        else:
            detail += "\nno race-detector report obtained (not reachable by the implemented race programs)"
        failures.append(dict(layer="property", key=key, what=site_what(s), detail=detail, input=inp))
    for rep in unattributed[:5]:
        failures.append(dict(layer="property", key=None,
                             what="race detector report in /repo not explained by any known exception (if the static discipline passes, the static model or the policy is unsound at this site)",
                             detail=rep["text"],
                             input=dict(scenario=rep["scenario"], seed=rep["seed"], dur=rep["dur"], focus=rep["focus"], key=None, report=rep["text"])))

    programs = sum(v["programs"] for v in summaries.values())
    methods = sorted({m for v in summaries.values() for m in v["methods"] if m})
    hist = {f"{k}:programs": v["programs"] for k, v in summaries.items()}
    hist.update({f"{k}:ops": v["ops"] for k, v in summaries.items()})
    hist["distinct_race_reports"] = len(distinct)
    trusted = sum(kinds.get(k, 0) for k in ("HandedOff", "Confined", "SelfSynchronised", "LockTransferred"))
    samples = [f"{s[0]}.{s[1]} in {s[2]} -> {site_key(s)}: " + ("race confirmed by scenario " + confirmed[s]["scenario"] if s in confirmed else "static only") for s in still]
    samples += [f"{k}: {v['programs']} programs, {v['ops']} ops, 0 race reports" if not any(r["scenario"] == k for r in distinct.values())
                else f"{k}: {v['programs']} programs, {v['ops']} ops, RACE REPORTS" for k, v in summaries.items()
                if k in REGRESSION_SCENARIOS or k in ("balancers", "writer", "reader", "transport")][:8]
    for sc in REGRESSION_SCENARIOS:
        if sc not in summaries and summaries:
            failures.append(dict(layer="correspondence", what=f"regression scenario {sc} is missing from harness/cmd/c10", detail="", input=None))
    return dict(
        evaluations=programs, distinct_nontrivial=programs, hist=hist,
        rule="static: every access fact extracted from /repo checked against the policy (Coq, vm_compute); dynamic: concurrent client programs "
             "(2-8 goroutines, op lists drawn from one PRNG seeded by VERIF_SEED) over the exported methods of balancers, codecs, protocol buffers, "
             "Conn/Batch on a scripted peer, Writer on a RoundTripper fake, Reader and Transport/Client on scripted brokers, each run under the Go race "
             "detector; every program is concurrent, hence non-trivial; evaluations = programs executed",
        samples=samples, failures=failures, notes=notes,
        extra=dict(translator_counts=counts, translator_selftest_expectations=selftest_n, policy_entries=sum(kinds.values()),
                   policy_kinds=kinds, policy_trusted_entries=trusted, known_exceptions=[list(s) for s in exc_sites],
                   reviewed_sites=[list(s) for s in rev_sites], race_programs=programs, race_scenarios=list(summaries.keys()),
                   race_methods_covered=methods, race_reports_distinct=len(distinct),
                   race_confirmed_keys=sorted(site_key(s) for s in confirmed), stale_policy_entries=stale_n,
                   regression_scenarios=REGRESSION_SCENARIOS,
                   f3_hangs_skipped=sum(v["f3_hangs"] for v in summaries.values())))


def search(ctx, violations):
    """The discipline obligation (or a layer) broke without a concrete input: bias the race
    programs towards the methods touching the offending fields and look for a report."""
    sites, nopol, unk, err = offenders(exempted=True)
    fields = []
    for (t, f, k, fn, pos) in (sites or []):
        if f"{t}.{f}" not in fields:
            fields.append(f"{t}.{f}")
    for (t, f) in (nopol or []):
        fields.append(f"{t}.{f}")
    if sites is not None:
        ctx.notes.append("offending access sites: " + "; ".join(f"{t}.{f} {k} in {fn} at {pos}" for (t, f, k, fn, pos) in sites[:12])
                         + ("; fields without policy entry: " + ", ".join(f"{t}.{f}" for t, f in nopol) if nopol else "")
                         + ("; unreviewed constructs: " + ", ".join(f"{a} {b} {c}" for a, b, c in unk) if unk else ""))
    if not fields:
        # e.g. the known-exception failure without a report: try its own focus
        for v in violations:
            m = re.search(r"static: (\w+\.\w+) accessed in", v.get("detail", ""))
            if m:
                fields.append(m.group(1))
    if not fields:
        return None
    focus = ",".join(fields[:8])
    try:
        L.go_build("c10", race=True)
    except L.Fail:
        return None
    scs = scenarios()
    targeted = [FOCUS_SCENARIO[f] for f in fields if f in FOCUS_SCENARIO]
    _, exc_sites, _ = policy_summary()
    for rnd in range(3):
        sm, reports, pb = run_race(targeted + scs, ctx.seed * 1000 + 500 + rnd * 50, "6s" if not ctx.thorough else "60s", focus=focus, tag=f"s{rnd}")
        if sm is None:
            return None
        for rep in reports:
            if not in_repo(rep) or attribute(rep, exc_sites) is not None:
                continue
            txt = rep["text"]
            # a report touching a function of an offending site
            hit = [s for s in (sites or []) if go_symbol(s[3]) + "(" in txt]
            if hit or not sites:
                return dict(scenario=rep["scenario"], seed=rep["seed"], dur=rep["dur"], focus=focus, key=None, report=txt)
    return None


def replay(ctx, payload):
    inp = payload.get("input")
    print("broken:", payload.get("broken"))
    if not inp:
        print("replay: no concrete input recorded (static finding only)")
        print(payload.get("detail", "")[:3000])
        return 1
    print("recorded report:\n" + inp.get("report", "")[:2500])
    L.go_build("c10", race=True)
    for attempt in range(3):
        sm, reports, pb = run_race([inp["scenario"]], int(inp["seed"]), inp.get("dur") or "2s", focus=inp.get("focus"), tag="replay")
        want = inp.get("key")
        _, exc_sites, _ = policy_summary()
        for rep in reports:
            site = attribute(rep, exc_sites)
            if (want and site and site_key(site) == want) or (not want and in_repo(rep)):
                print(f"replay: race reproduced (attempt {attempt + 1}) with: c10_race {rep['cmd']}\n" + rep["text"][:2500])
                return 1
    print("replay: the race detector did not report it again in 3 runs")
    return 0
