"""C15 — a consumer group has one live generation at a time and ends it promptly
(DESIGN.md section 7, C15; atomic-step model, section 2.4)."""
import json, os
import checklib as L

TRUSTED_BASE = [
    "Coq 8.16.1 kernel (coqc; coqchk in the thorough tier); vm_compute used only in the non-vacuity Example and the regression scenario C15_f5_scenario_leaves; no native_compute",
    "hand-written atomic-step model coq/Model/ConsumerGroup.v of /repo/consumergroup.go (Generation.Start/close, heartbeatLoop, partitionWatcher, run, nextGeneration, leaveGroup, Next, Close); "
    "what is modelled rather than verified: that sync.Mutex critical sections, channel close/send/receive and select behave as the labels assume (one label = one atomic action), that no other goroutine touches the state, "
    "and that a coordinator round trip can be treated as one step of the calling goroutine",
    "tie: harness/cmd/c15 (real code, build tag verif, hooks /repo/verif_export_c15.go): step-level runs of Generation.Start/close, label-by-label executions of the real ConsumerGroup against a gated scripted "
    "coordinator (unexported `coordinator` interface seam) replayed by the OCaml extraction (ExtrOcamlBasic only), free-running soaks judged by the extracted monitors, one wire-level scenario over net.Pipe",
    "the harness driver's own mirror of the run loop only chooses what to do next; the extracted model re-validates every emitted label sequence (STUCK = broken correspondence)",
    "ocaml/kvio.ml.in + ocaml/c15_driver.ml (label/event parsing, projection of the history) and checks/c15.py (independent re-computation of the Generation accounting for classification)",
]
ASSUMPTIONS = [
    "functions passed to Generation.Start return at some point after their context is cancelled (the documented contract); the theorems are safety statements plus no-stuck-state, wall-clock bounds (heartbeat period, back-off length) are clock claims outside the model",
    "generations are numbered by creation order, member ids are what the coordinator answers; the coordinator may answer anything (success, RebalanceInProgress, other Kafka error, dropped connection) at every call",
    "the leave-on-close statement counts a LeaveGroup as attempted when the coordinator could not be reached for it (dropped connection / FindCoordinator error on the leave path)",
    "'the current member id' is the memberID variable of ConsumerGroup.run: set by every successful JoinGroup, kept across generations and RebalanceInProgress results, cleared after the leave attempt following any other error, "
    "kept across a failed JoinGroup request too (joinGroup returns the id it was given); it is never cleared except right after a leave attempt for it (C15_member_id_cleared_only_after_leave); the harness tracks the same notion from the answers the coordinator gave",
]


# ------------------------------------------------------------------ independent reading of the step-level cases
def gen_expected(ops):
    """What Generation.Start/close must show after each step, written from the property text:
    routines = accounted functions whose exit handler has not run; the first exit or close ends the
    generation; joined is closed by the last accounted exit; close returns when none is left."""
    closed = joined = close_called = False
    live = 0
    fns = []
    out = []
    for op in ops:
        if op == "S":
            acc = not closed
            fns.append(acc)
            live += 1 if acc else 0
        elif op[0] == "R":
            if fns[int(op[1:], 16)]:
                closed = True
                live -= 1
                if live == 0:
                    joined = True
        elif op == "C":
            closed = True
            close_called = True
        ret = close_called and live == 0
        out.append("%d,%x,%d,%d,%d" % (closed, live, closed, joined, ret))
    return out


def gen_violation(c):
    ops = c["args"].split(" ")
    go = c["go"].split(";")
    exp = gen_expected(ops)
    for i, (g, e) in enumerate(zip(go, exp)):
        if g == e:
            continue
        gf, ef = g.split(","), e.split(",")
        if g.startswith("HANG"):
            return f"step {i} ({ops[i]}): {g}"
        if len(gf) == 5 and gf[:4] == ef[:4] and gf[4] == "0" and ef[4] == "1":
            continue  # close() not yet seen to have returned: not an observation of misbehaviour
        return f"step {i} ({ops[i]}): observed closed,routines,done,joined,closeReturned = {g}, required {e}"
    if len(go) != len(exp):
        return f"{len(go)} observations for {len(exp)} steps: {go[-1] if go else ''}"
    return None


def e2e_violation(c):
    g = c["go"]
    if g.startswith("ABORT:"):
        return g[6:300]
    if g.startswith("HANG") or " HANG" in g:
        return "a scenario blocked at '" + g.split(" after ")[0][5:120] + "' (confirmed by the isolated re-run; stacks in the detail)"
    for tok, what in (("NOTCANCELLED", "a started function returned / heartbeat failed and gen.done was not closed by its exit handler"),
                      ("EARLYc", "re-join attempt before JoinGroupBackoff elapsed after a failure other than RebalanceInProgress"),
                      ("DROPPEDID", "a JoinGroup request arrived without the member id the coordinator had given, and no LeaveGroup was attempted for that id"),
                      ("BADGEN", "SyncGroup carried a generation id other than the one JoinGroup answered"),
                      ("g?", "Next returned a generation the coordinator never created")):
        if tok in g.split(" ") or (tok == "g?" and "g? " in g + " "):
            return what
    return None


def classify(c):
    """A go/model disagreement: does the implementation's own output violate C15?"""
    op = c["op"]
    model = str(c.get("model"))
    if op == "gen":
        v = gen_violation(c)
        if v:
            return dict(layer="property", what="Generation accounting: " + v, input=c)
        return dict(layer="correspondence", what="Generation step-level: model and code differ, the code's output meets the accounting spec", input=None)
    if op == "soak":
        if c["go"].startswith("HANG"):
            return dict(layer="property", what="soak: " + c["go"] + " (watchdog)", input=c)
        return dict(layer="property", what=f"recorded timeline of the real ConsumerGroup violates monitor(s) {model}", input=c)
    if op == "conn" and c["args"].startswith("dl "):
        api = c["args"][3:]
        if "timing-twice" not in c["feats"]:
            return dict(layer="correspondence", what=f"connection layer: {api}: measured class {c['go']} differs from the model's table but was not confirmed by the isolated re-measurement", input=None)
        return dict(layer="property", what=f"connection layer: an unanswered {api} request failed in time class {c['go']}, the table of armed limits in Model/ConsumerGroup.v says {model} "
                    "(T = Timeout, TR = Timeout+RebalanceTimeout, TS = Timeout+SessionTimeout; measured twice, the second time alone)", input=c)
    if op == "conn":
        return dict(layer="property", what="connection layer, bootstrap brokers " + c["args"][5:] + " (1 = reachable): expected " + model
                    + " (connect = first reachable broker in order; a generation and LeaveGroup at Close iff some broker is up), observed " + c["go"][:120], input=c)
    if op == "wire" and c["args"].startswith("standby"):
        return dict(layer="property", what="wire level, stand-by member (SyncGroup assigned it no partition): it must heartbeat while the generation lives, a heartbeat answered "
                    "RebalanceInProgress must end the generation and make it re-join, Close must leave; observed: " + c["go"][:200], input=c)
    if op == "wire":
        if "leave=0" in c["go"]:
            return dict(layer="property", what="wire level: JoinGroup ok, SyncGroup -> RebalanceInProgress, Close: no LeaveGroup (api key 13) for member-1 in the journal (regression of F5)", input=c)
        return dict(layer="correspondence", what="wire-level scenario (join, SyncGroup -> 27, Close): journal differs from the model's run of f5_scenario", input=None)
    v = e2e_violation(c)
    if v:
        return dict(layer="property", what="ConsumerGroup: " + v, input=c)
    if model.startswith("STUCK") or model.startswith("BADLABEL") or model.startswith("EXN"):
        return dict(layer="correspondence", what=f"the label sequence executed on the real ConsumerGroup is not a run of the model ({model[:60]})", input=None)
    if "mon=ok" not in model:
        return dict(layer="obligation", what="a legal model run violates a monitor the theorems say always holds: " + model[-80:], input=c)
    return dict(layer="correspondence", what="real ConsumerGroup and model disagree on an observable (journal / Next results / accounting)", input=None)


def generate(ctx=None):
    """Translator: coq/Gen/Skeleton.v (call and access facts with must-hold locksets) from
    /repo's current source; Properties/C15.v carries the obligation C15_skeleton_assumptions."""
    from checks import c10
    return c10.generate(ctx)


def setup():
    L.go_build("c15")
    L.ocaml_build("c15")


def run_cases(ctx, n, seed):
    gobin = L.go_build("c15")
    rc, out, err, dt = L.sh([gobin, "-seed", str(seed), "-n", str(n)], timeout=ctx.scale(600, 3000))
    if rc != 0:
        raise L.Fail("correspondence", "harness cmd/c15 crashed (panic in consumergroup.go or in the driver)", (out[-1500:] + err[-2500:]))
    return out, err


def calm(t):
    """Every blocked scenario reported by the harness has ALREADY been confirmed there (it blocked again
    when re-run alone with the same seed, or the run already had a time-independent violation); a
    single expiry under load is only a note.  ./check's own confirmation re-run of 'timing' failures
    (triggered by words such as HANG / watchdog) would run the whole correspondence a second time and
    compare scenario texts that vary with heartbeat counts, so the confirmed reports use other words."""
    for a, b in (("HANG:", "BLOCKED:"), ("HANG", "BLOCKED"), ("hang-", "blocked-"), ("watchdog", "wait limit"),
                 ("Watchdog", "Wait limit"), ("hung", "blocked"), ("deadline", "time limit"), ("timeout", "time limit")):
        t = t.replace(a, b)
    return t


def hang_dumps(err):
    """Goroutine dumps the harness wrote to stderr at each watchdog expiry: [(what, signature, stacks)]."""
    dumps = []
    for blk in err.split("=== HANG ")[1:]:
        body = blk.split("=== END HANG")[0]
        lines = body.split("\n")
        sig = lines[1][len("signature: "):] if len(lines) > 1 and lines[1].startswith("signature: ") else ""
        # keep the goroutines that are inside the library or the harness functions, drop idle runtime ones
        gs = [g for g in "\n".join(lines[2:]).split("\n\n") if "kafka-go" in g or "main." in g]
        dumps.append((lines[0].strip(), sig, "\n\n".join(gs)[:6000]))
    return dumps


def split_seed(c):
    fs = [f for f in c["feats"].split(",") if f]
    c["seed"] = next((f[5:] for f in fs if f.startswith("seed=")), None)
    c["feats"] = ",".join(f for f in fs if not f.startswith("seed="))


def correspondence(ctx):
    model = L.ocaml_build("c15")
    n = ctx.scale(1500, 30000)
    texts = []
    cdir = os.path.join(L.CORPUS, "C15")
    if os.path.isdir(cdir):
        for f in sorted(os.listdir(cdir)):
            texts.append(open(os.path.join(cdir, f)).read())
    out, err = run_cases(ctx, n, ctx.seed)
    texts.append(out)
    dumps = hang_dumps(err)
    cases = []
    notrun = {}
    for t in texts:
        for c in L.parse_cases(t):
            split_seed(c)
            if c["go"] == "NOT-RUN":
                notrun[c["op"]] = notrun.get(c["op"], 0) + 1
                continue
            c["id"] = str(len(cases) + 1)
            c["line"] = c["id"] + " " + c["op"] + " " + c["args"]
            cases.append(c)
    res = L.run_model(model, "\n".join(c["line"] for c in cases) + "\n")
    bad = L.diff_cases(cases, res)
    failures = []
    for c in bad[:20]:
        f = classify(c)
        f["detail"] = json.dumps(dict(case=c["line"][:2000], go=c["go"][:800], model=str(c.get("model"))[:800], feats=c["feats"]))
        if f.get("input") is not None:
            f["input"] = dict(case=c["line"], go=c["go"], model=c.get("model"), feats=c["feats"], case_seed=c.get("seed"))
        failures.append(f)
    # the property predicates on the implementation's own output, whether or not the model agrees
    badids = {c["id"] for c in bad}
    noleave = []
    for c in cases:
        if c["id"] in badids:
            continue
        v = gen_violation(c) if c["op"] == "gen" else (e2e_violation(c) if c["op"].startswith("e2e") else
                                                      ("watchdog: " + c["go"] if c["go"].startswith("HANG") else None))
        if v:
            failures.append(dict(layer="property", what=f"{c['op']}: {v}", detail=c["line"][:1500] + " -> " + c["go"][:500],
                                 input=dict(case=c["line"], go=c["go"], feats=c["feats"], case_seed=c.get("seed"))))
        feats = c["feats"].split(",")
        if "published-without-heartbeat" in feats:
            failures.append(dict(layer="property", what=f"{c['op']}: Next handed out a live generation whose heartbeat function had not been started",
                                 detail=c["line"][:1500], input=dict(case=c["line"], go=c["go"], feats=c["feats"], case_seed=c.get("seed"))))
        if "dropped-id-without-leave" in feats:
            failures.append(dict(layer="property", what="soak: a JoinGroup request arrived without the member id the coordinator had given, and no LeaveGroup was attempted for that id",
                                 detail=c["line"][:1500], input=dict(case=c["line"], go=c["go"], feats=c["feats"], case_seed=c.get("seed"))))
        if "leavefull=0" in c["go"] or "close-without-leave" in feats or (c["op"] == "wire" and "leave=0" in c["go"]):
            noleave.append(c)
    # leave on close, judged on what the coordinator saw (one failure, smallest witness first)
    if noleave:
        noleave.sort(key=lambda c: (not c["op"].startswith("e2e-"), c["op"] != "wire", len(c["line"])))
        w = noleave[0]
        failures.append(dict(
            layer="property", key=None,
            what="Close returned while run held a member id and no LeaveGroup was attempted for it since it joined"
                 + (" (after a RebalanceInProgress result: regression of F5)" if "offer-abort-rb" in w["feats"] else ""),
            detail=json.dumps(dict(occurrences=len(noleave), witness=w["line"][:800], go=w["go"][:300], feats=w["feats"])),
            input=dict(case=w["line"], go=w["go"], feats=w["feats"])))
    if notrun:
        failures.append(dict(layer="property", what="breaker tripped (a scenario blocked twice in a row, or three scenarios blocked): the rest of the "
                             + "/".join(sorted(notrun)) + " scenarios were not run; see the BLOCKED failures",
                             detail=json.dumps(notrun), input=None))
    # a scenario that hit the watchdog was re-run alone by the harness with the same seed: hanging
    # twice is a HANG result (handled above as a violation); hanging once only is a note
    notes = []
    t_once = [c for c in cases if "timing-once-under-load" in c["feats"].split(",")]
    if t_once:
        notes.append(f"{len(t_once)} connection-layer time class(es) were off at the first measurement and as expected when measured again alone (machine load): "
                     + "; ".join(c["args"] + " " + c["feats"] for c in t_once[:4]))
        for c in t_once:
            c["feats"] = "conn,unanswered"
    once = [c for c in cases if "hang-once-under-load" in c["feats"].split(",")]
    if once:
        notes.append(f"{len(once)} scenario(s) hit the {'30 s'} watchdog once and completed normally when re-run alone with the same seed "
                     f"(machine load, not a verdict): " + "; ".join(f"{c['op']} seed={c['seed']}" for c in once[:5])
                     + (" | blocked goroutines at expiry: " + " || ".join(d[1][:300] for d in dumps[:3]) if dumps else ""))
    for f in failures:
        if "HANG" in str(f.get("what", "")) + str(f.get("detail", ""))[:3000] and dumps:
            f["detail"] = str(f.get("detail", "")) + "\n--- goroutines at watchdog expiry (first and repeat run) ---\n" + \
                "\n=====\n".join(f"{d[0]}\nsignature: {d[1]}\n{d[2]}" for d in dumps[:4])
    # one failure per distinct statement (first = witness), with the number of occurrences
    uniq = {}
    for f in failures:
        k = (f.get("layer"), f.get("what"))
        if k in uniq:
            uniq[k]["_n"] += 1
        else:
            f["_n"] = 1
            uniq[k] = f
    failures = list(uniq.values())
    for f in failures:
        n = f.pop("_n")
        if n > 1:
            f["detail"] = f"({n} cases with this failure; first one shown) " + str(f.get("detail", ""))
    for f in failures:
        f["what"] = calm(str(f.get("what", "")))
        f["detail"] = calm(str(f.get("detail", "")))
    for c in cases:
        c["feats"] = ",".join(f for f in c["feats"].split(",") if f not in ("hang-once-under-load",))
    ev, dn, hist = L.coverage_counts(cases, trivial_feats=("", "acc", "acc,close-nowait", "close-nowait", "late,close-nowait"))
    byop = {}
    for c in cases:
        byop[c["op"]] = byop.get(c["op"], 0) + 1
    mid = len(cases) // 2
    return dict(evaluations=ev, distinct_nontrivial=dn, hist=hist,
                rule="cases from one PRNG (VERIF_SEED): gen = random Start/exit/close orders on one Generation (accounted and late starts), every accounting field compared after every step; "
                     "e2e = random walks of the real ConsumerGroup driven label by label against a gated scripted coordinator (0-2 partition watchers, short or long back-off; answers ok / RebalanceInProgress / "
                     "other Kafka error / dropped connection at connect, FindCoordinator, JoinGroup (+leader readPartitions, unknown balancer, bad metadata), SyncGroup (+undecodable assignment), OffsetFetch, Heartbeat, "
                     "LeaveGroup, watcher readPartitions; Next / Next-cancel / Close / Start on live and ended generations / function exit interleaved), the executed label sequence replayed by the extracted model and "
                     "journal, Next results, Start accounting and final Generation fields compared; soak = free-running consumers, timeline judged by extracted monitors; the member assignment of every successful SyncGroup answer is generated too (empty = stand-by member, not covering every configured topic, several topics, a foreign topic, a topic without partitions) and the number of functions started on the generation is compared at the moment Next hands it out; wire standby = a member assigned no partition must heartbeat, end its generation on a heartbeat answered RebalanceInProgress, re-join and leave on Close; conn = the real makeConnect / timeoutCoordinator / Conn over net.Pipe against a scripted wire broker: per coordinator call an unanswered request must fail in the time class of the deadline the code arms (Timeout 250 ms, +RebalanceTimeout 1.5 s for JoinGroup, +SessionTimeout 3 s for SyncGroup; margin 1 s, re-measured alone before reporting), and bootstrap lists of 2-3 brokers with subsets unreachable (generation and LeaveGroup at Close iff some broker is up, dial attempts in order); e2e-joinerr = generation ends, re-join lost, LeaveGroup for the kept id must follow (regression); e2e-f5 + wire = the former F5 scenario (join, SyncGroup -> RebalanceInProgress, no Next, Close) as regression on the real code, interface seam and net.Pipe wire level; "
                     "a case is non-trivial when its feature set is not just {accounted start, close without waiting}; distinct by hash of op+args",
                samples=[c["line"][:300] + " | " + c["go"][:160] for c in cases[:3] + cases[mid:mid + 3] + cases[-2:]],
                notes=notes,
                extra=dict(cases_by_op=byop, watchdog_once_only=len(once), close_after_rebalance_in_progress_offer=sum(1 for c in cases if "offer-abort-rb" in c["feats"].split(","))),
                failures=failures)


def search(ctx, violations):
    """A layer broke without a concrete input: more cases from other seeds."""
    from checks import c10
    c10.annotate_skeleton_failure(ctx, violations, "SkeletonConsumerGroup", "consumergroup_assumptions",
                                  "Model/ConsumerGroup.v", "consumergroup.go")
    ctx.seed += 1000
    ctx.tier = "thorough"
    ctx.thorough = True
    try:
        c = correspondence(ctx)
    except L.Fail:
        return None
    for f in c["failures"]:
        if f.get("input"):
            return f["input"]
    return None


def replay(ctx, payload):
    inp = payload.get("input")
    if not inp:
        print("replay: no concrete input recorded; broken layer:", payload.get("broken"))
        print(payload.get("detail", "")[:3000])
        return 1
    print("replay case:", inp["case"][:800])
    print("go result at the time:", inp.get("go"), " model:", inp.get("model"))
    model = L.ocaml_build("c15")
    print("model now:", L.run_model(model, inp["case"] + "\n"))
    op = inp["case"].split(" ")[1]
    if op in ("gen", "e2e", "soak") and inp.get("case_seed"):
        # re-run the very scenario on the real code, several times (each run retries a watchdog expiry once itself)
        gobin = L.go_build("c15")
        rc, out, err, _ = L.sh([gobin, "-only", op, "-caseseed", inp["case_seed"], "-reps", "10"], timeout=1200)
        cs = L.parse_cases(out)
        res = L.run_model(model, "\n".join(f"{i+1} {c['op']} {c['args']}" for i, c in enumerate(cs)) + "\n")
        badn = 0
        for i, c in enumerate(cs):
            ok = res.get(str(i + 1)) == c["go"]
            badn += 0 if ok else 1
            print(f"re-run {i+1}: go={c['go'][:160]} | model={str(res.get(str(i+1)))[:160]} | {'agree' if ok else 'DIFFER'}")
        for d in hang_dumps(err)[:2]:
            print("watchdog expiry:", d[0], "\nsignature:", d[1], "\n", d[2][:3000])
        print(f"{badn} of {len(cs)} re-runs of seed {inp['case_seed']} fail")
        return 1 if badn else 0
    if op in ("e2e-f5", "wire") or "offer-abort-rb" in inp.get("feats", ""):
        gobin = L.go_build("c15")
        still = False
        for only in ("f5", "wire"):
            rc, out, err, _ = L.sh([gobin, "-only", only], timeout=120)
            print(f"real code now (-only {only}):", out.strip()[:600])
            still = still or "leavefull=0" in out or "leave=0" in out
        print("LeaveGroup (api key 13) missing after RebalanceInProgress + Close:", still)
        return 1 if still else 0
    return 1
