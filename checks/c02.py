"""C02 — a Reader bound to a topic partition delivers exactly the partition's records from its
position, in order (DESIGN.md section 7, C02)."""
import json, os
import checklib as L

TRUSTED_BASE = [
    "Coq 8.16.1 kernel (coqc; coqchk in the thorough tier); vm_compute used only in non-vacuity Examples and refutation witnesses; no native_compute",
    "L1 (bytes -> fetch contract, and progress) is proved for every layout with ordered formats whose sizes fit the wire format, every fetch offset >= 0 and legal cut (C02_batch_decode_exact_ordered_partial, C02_progress_ordered_partial, C02_contract_ordered): v2 batches of any codec, plain v0/v1 messages, compressed v0/v1 wrappers, alone or followed by v2; outside these hypotheses (formats not ordered, a cut inside the first batch, connection cut short) the link rests on the differential run below",
    "hand-written models coq/Model/MsgSetReader.v (message_reader.go, read.go, discard.go, batch.go) and coq/Model/ReaderModel.v (reader.go run/initialize/read, FetchMessage, SetOffset; conn.go Seek/ReadBatchWith), tied by the differential run of harness/cmd/c02 (real code, build tag verif) against the OCaml extraction (ExtrOcamlBasic only); every byte-level result is compared exactly: delivered messages, class of the last ReadMessage error, Conn.offset after Close, Batch.Close result, whether the library closed the connection (no relaxation for cut compressed data)",
    "coq/Spec/FetchSpec.v: the broker side (record/batch encodings v0/v1/v2, which batches answer a fetch at offset o, legal cut points) transcribed from the Kafka protocol documents; its encoder is compared byte for byte with the Go reference encoder harness/fetchfake/layout.go on every run; fidelity of both to a real broker is trusted",
    "decompression is an oracle (Section variable decomp with the law decomp c (compress c x) = Some x); the differential feeds the model the (compressed, plain) pairs produced by /repo/compress",
    "real time is abstracted: back-off sleeps are skipped, 'the read deadline has passed' is a flag chosen by the environment; the Reader's queue capacity only restricts interleavings and is not modelled",
    "ocaml/kvio.ml.in + ocaml/c02_driver.ml (hex interchange, journal replay, ~300 lines), harness/kvfmt, harness/fetchfake (scripted wire-level broker; not the system under test)",
    "the end-to-end journal is taken by the fake broker and the single harness goroutine: the attribution of a connection to a Reader generation is by dial order relative to SetOffset calls",
]
ASSUMPTIONS = [
    "offsets, timestamps in [0, 2^62); key/value lengths < 2^30; a physical log is v0/v1 batches followed by v2 batches, batches cover disjoint increasing offset ranges and contain their records",
    "a fetch at offset o is answered from the batch whose last offset is >= o; the response is a byte prefix that keeps the first batch whole (Kafka's rule); layouts may be re-packed between fetches but hold the same records",
    "single user goroutine calling FetchMessage / SetOffset (the property's 'call started after SetOffset returned'): in Model/ReaderModel.v SetOffset is not enabled while a FetchMessage call is in progress (r_call); the call's snapshot of Reader.version, taken after the lazy start, is part of the state",
]

# Three defects found by this check were fixed in /repo (retained record-less v2 batch reset
# Conn.offset to 1; consecutive record-less batches made markRead panic; Conn.offset fell back /
# the same fetch repeated for a compacted batch tail).  Their witnesses stay in harness/cmd/c02
# f1.go as regression cases and are judged like every other case.


def generate(ctx=None):
    """Translator: coq/Gen/Skeleton.v (call and access facts with must-hold locksets) from
    /repo's current source; the property file carries the obligation Cxx_skeleton_assumptions."""
    from checks import c10
    return c10.generate(ctx)


def setup():
    L.go_build("c02")
    L.ocaml_build("c02")


def _field(args, name):
    for w in args.split(" "):
        if w.startswith(name + "="):
            return w[len(name) + 1:]
    return None


def _split5(s):
    """<msgs>;<error of the last ReadMessage>;<Conn.offset after Close>;<Batch.Close result>;<connection closed 0/1>"""
    parts = (s or "").split(";")
    return parts if len(parts) == 5 else None


def _msgs(s):
    return [] if s == "." else s.split(",")


# A connection cut inside the announced message set of a response that holds compressed data.
# The model's decompression is an oracle: it yields the plain bytes of a WHOLE compressed payload
# and fails (I/O error) as soon as one byte of the payload is missing.  A real codec reading a
# truncated payload may hand out a prefix of the plain bytes and end WITHOUT an error (nothing of
# the payload received: every codec; a xerial / lz4 block boundary; the last 8 bytes of an lz4
# frame).  message_reader.go therefore treats "the codec ended before the announced payload size
# was consumed" as io.ErrUnexpectedEOF (readMessageV1 and readMessageV2), and with that the real
# code is all-or-nothing exactly like the model.  NOTHING may differ between the two on these
# cases: the delivered messages, the class of the last ReadMessage error, Conn.offset after
# Close, Batch.Close's result and whether the library closed the connection are all compared
# exactly (there was a relaxation here — longer delivered prefix, eof vs fail — until the sweep
# below showed what it hid: Conn.offset passing records that never arrived).


def classify_l1(c, model, prop):
    """c: case; model: model result; prop: the fetch predicate on the real code's result."""
    feats = c["feats"].split(",")
    go = c["go"]
    out = []
    if go.startswith("HANG"):
        return [dict(layer="property", what="Conn.ReadBatch / Batch.ReadMessage / Batch.Close did not return (loop without progress)", input=c)]
    physcut = "physcut" in feats
    g5 = _split5(go)
    if go != model:
        if prop == "OFFSET-PASSES":
            pass        # reported once, below, as the property failure it is
        elif prop in ("ok", "REGRESS", "na"):
            out.append(dict(layer="correspondence", what="byte level: model and Conn/Batch differ although the real code's result meets the fetch predicate", input=None))
        else:
            out.append(dict(layer="property", what="byte level: Conn.ReadBatch result differs from the model and breaks the fetch predicate", input=c))
    if go == "panic":
        out.append(dict(layer="property", what="Conn.ReadBatch / Batch.ReadMessage panicked", input=c))
        return out
    # C02_progress: the model delivers a record from this response (its first batch is whole and holds a record at or
    # after the fetch offset, the high watermark is above it); the real code must deliver one too unless the connection
    # was cut or the deadline had passed
    m5 = _split5(model)
    if (g5 and m5 and go != model and m5[0] != "." and g5[0] == "." and not physcut and "late" not in feats
            and "unordered-formats" not in feats and "cut<first" not in feats):
        out.append(dict(layer="property", what="C02_progress: the fetch response holds records at and after the fetch offset below the high watermark, "
                                               "the real Conn/Batch delivers none of them (the same fetch would be repeated forever)", input=c))
    # a connection cut inside the announced message set: reported by Close, connection closed — on every such case
    if physcut and g5 and (g5[3] == "nil" or g5[4] != "1"):
        out.append(dict(layer="property", what="the connection was cut inside the fetch response but Batch.Close returned nil / the connection was kept: "
                                               "a cut response is presented as a batch read to its end", input=c))
        return out
    if "unordered-formats" in feats or "cut<first" in feats:
        return out       # outside the broker specification: compared with the model only
    if prop == "VIOLATED":
        out.append(dict(layer="property", what="one fetch: delivered messages are not exactly the stored records in [fetch offset, Conn.offset after Close) "
                                               "(Conn.offset passes a record that was not delivered, or a record is missing, duplicated or altered)", input=c))
    elif prop == "OFFSET-PASSES":
        out.append(dict(layer="property", key="C02-conn-offset-passes-undelivered-after-cut",
                        what="connection cut inside a compressed payload where the codec's reader ends silently: the records received so far are delivered, "
                             "Batch.Close fails and the connection is closed, but Batch.Offset / Conn.Offset is past records of the batch that never arrived", input=c))
    elif prop == "REGRESS":
        out.append(dict(layer="property", what="Conn.offset after Batch.Close is below the offset the fetch was issued at", input=c))
    elif prop == "UNREPORTED-CUT":
        out.append(dict(layer="property", what="the connection was cut inside the fetch response but Batch.Close returned nil / the connection was kept", input=c))
    return out


def classify_rd(c, model, prop):
    """Conn.Read / Batch.Read with buffers shorter than the next value, then a retry on the same Conn."""
    out = []
    if c["go"] == "panic":
        return [dict(layer="property", what="Conn.Read / Batch.Read panicked", input=c)]
    if prop == "VALUES":
        out.append(dict(layer="property", what="io.Reader style reads: the values obtained by Read (retried with a larger buffer after io.ErrShortBuffer) "
                                               "are not the stored records from the position, each once, in order", input=c))
    elif prop == "SHORT-OFFSET":
        out.append(dict(layer="property", what="io.Reader style reads: after io.ErrShortBuffer Batch.Offset() / Conn.Offset() is past the record that was "
                                               "not handed out (a short-buffer read must not move the position)", input=c))
    if c["go"] != model and not out:
        out.append(dict(layer="correspondence", what="io.Reader style reads: model and Conn.Read / Batch.Read differ although the obtained values and "
                                                     "offsets meet the predicate", input=None))
    elif c["go"] != model:
        out[0]["what"] += " (and the result differs from the model)"
    return out


def e2e_expected(c):
    """what FetchMessage returned in the real run, from the journal"""
    ev = _field(c["args"], "ev") or "."
    out = []
    for t in ([] if ev == "." else ev.split(",")):
        if t.startswith("D:"):
            out.append(t[2:])
        elif t.startswith("E:"):
            cls = t[2:]
            out.append("E" + ("fail" if cls == "io" else cls))
    return ",".join(out) if out else "."


def classify_e2e(c, model):
    out = []
    if c["go"].startswith("HANG"):
        out.append(dict(layer="property", what="end to end: the Reader scenario did not finish (watchdog)", input=c))
        return out
    parts = (model or "").split(";")
    if len(parts) != 3:
        out.append(dict(layer="correspondence", what="end to end: model driver failed on the journal: " + str(model)[:200], input=None))
        return out
    delivered, prop, problems = parts
    fs = c["feats"].split(",")
    if "request-for-another-partition" in fs or "message-of-another-partition" in fs:
        out.append(dict(layer="property", what="end to end: the Reader bound to one partition of a multi-partition topic sent Fetch / ListOffsets requests "
                                               "for ANOTHER partition or delivered messages labelled with another partition (the Metadata answer lists the "
                                               "partitions out of id order)", input=c))
        return out
    if prop != "prop-ok":
        out.append(dict(layer="property",
                        what="end to end: FetchMessage returned a sequence that is not a prefix of the stored records from the start position", input=c))
    elif "incomplete" in c["feats"].split(","):
        out.append(dict(layer="property", what="end to end: every fetch was answered with the data at its offset (or cut, then answered again), yet the Reader did not "
                                               "deliver all stored records from the offset its position was first resolved to (it keeps fetching the same offset, or "
                                               "resumed somewhere else)", input=c))
    if delivered != e2e_expected(c) or problems != "ok":
        kinds = sorted(set(p.split(" ")[0] for p in problems.split("+"))) if problems != "ok" else ["RETURNS"]
        if prop != "prop-ok":
            out.append(dict(layer="property", what="end to end: real Reader differs from the model and breaks the delivery predicate", input=c))
        elif "OFFSET" in kinds or "LAG" in kinds:
            # C02_offset_is_position: Reader.offset is the position of the next message
            out.append(dict(layer="property", what="end to end: Reader.Offset() / Reader.Lag() after a call is not the model's: Reader.offset is not one past the "
                                                   "last message returned (or the position set), the value SetOffset compares with", input=c))
        else:
            out.append(dict(layer="correspondence", what="end to end: model replay of the journal differs from the real Reader (" + ",".join(kinds) + ")", input=None))
    return out


def _run_harness(ctx, args, timeout=3000):
    gobin = L.go_build("c02")
    model = L.ocaml_build("c02")
    rc, out, err, dt = L.sh([gobin, "-seed", str(ctx.seed)] + args, timeout=timeout)
    if rc == 4:
        # three fetch decodes did not return: the cases emitted so far (the hung ones have result HANG) are judged below
        ctx.notes.append("harness stopped after three hung fetch decodes: " + err.strip()[-300:])
    elif rc != 0:
        raise L.Fail("correspondence", "harness cmd/c02 crashed or hung (watchdog)", (out[-1500:] + err[-2500:]))
    cases = []
    for c in L.parse_cases(out):
        c["id"] = str(len(cases) + 1)
        cases.append(c)
    text = "\n".join(c["id"] + " " + c["op"] + " " + c["args"] + " | " + c["go"] + " | " + c["feats"] for c in cases) + "\n"
    res = L.run_model(model, text)
    return cases, res


def _judge(cases, res):
    failures, seen_keys = [], {}
    for c in cases:
        m = res.get(c["id"])
        if c["op"] == "l1":
            fl = classify_l1(c, m, res.get(c["id"] + ".prop"))
        elif c["op"] == "enc":
            fl = [] if m == c["go"] else [dict(layer="correspondence", what="Spec/FetchSpec.v encoder differs from the Go reference encoder", input=None)]
        elif c["op"] == "rd":
            fl = classify_rd(c, m, res.get(c["id"] + ".prop"))
        elif c["op"] in ("e2e", "e2ef1"):
            fl = classify_e2e(c, m)
        else:
            fl = [dict(layer="correspondence", what="unknown op " + c["op"], input=None)]
        for f in fl:
            k = f.get("key") or f["what"]
            seen_keys[k] = seen_keys.get(k, 0) + 1
            if seen_keys[k] > 1:
                continue            # one failure per class; the count goes in the detail below
            f["detail"] = json.dumps(dict(case=(c["op"] + " " + c["args"])[:1500], go=c["go"][:400], model=str(m)[:400], feats=c["feats"]))
            if f.get("input") is not None:
                f["input"] = dict(case=c["op"] + " " + c["args"], go=c["go"], model=m, feats=c["feats"])
            f["_k"] = k
            failures.append(f)
    for f in failures:
        f["what"] += " [%d case(s)]" % seen_keys[f.pop("_k")]
    return failures


SWEEP_RULE = ("compressed-payload cut sweep: v2 batches of 6 records for each codec (gzip, snappy, lz4, zstd), the payload in one block and in two "
              "(codec writer flushed after 3 records: two xerial blocks, two lz4 blocks, gzip/zstd flush point), as the only batch (fetch offset at its base and inside it), "
              "as the last batch after an uncompressed one and as a middle batch; the scripted connection ends at EVERY byte position of the batch "
              "(61 header bytes + compressed payload) while the announced message set is the whole response; on every case: result compared with the model "
              "(exactly: messages, last error class, Conn.offset, Close result, connection closed), Batch.Close must fail, the connection "
              "must be closed, and the delivered messages must be exactly the stored records in [fetch offset, Conn.offset after Close)")


def correspondence(ctx):
    n = ctx.scale(60, 1500)
    ne = ctx.scale(30, 400)
    cases, res = _run_harness(ctx, ["-n", str(n), "-e2e", str(ne)])
    failures = _judge(cases, res)
    ev, dn, hist = L.coverage_counts(cases, trivial_feats=("",))
    return dict(evaluations=ev, distinct_nontrivial=dn, hist=hist,
                rule="one PRNG (VERIF_SEED): layouts of 1..50 records in formats 0/1/2 (v0/v1 before v2; 1/8 unordered for model fidelity only), "
                     "codecs none/gzip/snappy/lz4/zstd, compaction holes (head, inner, tail), retained empty batches; fetch offset anywhere in the layout; "
                     "the encoded response cut at every byte (<= 260 bytes) or 16 sampled positions, physically cut connections, passed deadlines, hwm = offset; "
                     "every byte-level result includes Batch.Close's result and whether the library closed the connection; for fetch v5/v10 a third of the layouts get a partition header with the last stable offset below the high watermark (half of them exactly at the fetch offset), a log start offset and an aborted-transactions list; C02_progress is judged on every in-spec case (the model delivers => the real code must); the io.Reader style family (op rd, 150 cases: Conn.Read and Batch.Read on single-record v2 batches and v0/v1 message sets, each buffer shorter than the next value with probability 1/2, retried with a larger one on the same Conn: values obtained = stored records from the position, offsets after io.ErrShortBuffer unchanged, results compared with the model's batch_reads / reads_close); " + SWEEP_RULE + "; "
                     "fetch v2/v5/v10; end to end: real kafka.Reader on harness/fetchfake with scripted cuts, NotLeaderForPartition, OffsetOutOfRange, "
                     "RequestTimedOut, disconnects, leader moves, re-packed layouts, topics of 1..4 partitions whose Metadata answer lists partitions and brokers in a random order (the Reader is bound to one of them; every Fetch / ListOffsets must name it and every message carry it), SetOffset (absolute, FirstOffset, LastOffset) and SetOffsetAt, a partition that grows during the scenario (a quarter), the fetch still pending at the end journalled and compared, a 75-scenario slice of the C17 reader-resume family (reader_cut_cases), an open transaction (last stable offset at a batch base below the high watermark) in a third of the scenarios and the LSO family (36 scenarios: a fetch lands exactly on the last stable offset, fetch v2/v5/v10, the Reader must deliver every record); the SetOffset family (140 scenarios: start by default / SetOffset at a record / in a hole / FirstOffset, "
                     "exactly k = 0..3 reads by polling calls or with a first call that blocks until its message arrives (the call that starts the fetcher returns the first message), "
                     "then SetOffset to the same position, one past it, the last returned offset, one past that, or a hole, then reads); Reader.Offset() and Reader.Lag() "
                     "journalled after every call and compared with the model; every case is non-trivial (distinct by hash of op+args)",
                samples=[(c["op"] + " " + c["args"])[:300] + " | " + c["go"][:100] for c in cases[:2] + cases[len(cases)//2:len(cases)//2+2] + cases[-2:]],
                failures=failures)


def compressed_cut_cases(ctx):
    """The compressed-payload cut sweep only (Conn/Batch half of C17 for compressed batches), same
    dict shape as checks/c11.py conn_cut_cases."""
    cases, res = _run_harness(ctx, ["-only", "sweep"], timeout=900)
    failures = _judge(cases, res)
    # C02's own clause (Conn.offset never passes an undelivered record) is judged by C02; for C17 the cut IS reported in those cases
    notes = ["C02 clause not judged here: " + f["what"][:200] for f in failures if f.get("key") == "C02-conn-offset-passes-undelivered-after-cut"]
    failures = [f for f in failures if f.get("key") != "C02-conn-offset-passes-undelivered-after-cut"]
    ev, dn, hist = L.coverage_counts(cases, trivial_feats=("",))
    samples = [(c["op"] + " " + c["args"])[:260] + " | " + c["go"][:120] + " | " + c["feats"] for c in (cases[:2] + cases[len(cases)//2:len(cases)//2+2] + cases[-2:])]
    return dict(evaluations=ev, distinct_nontrivial=dn, hist=hist, rule=SWEEP_RULE, samples=samples, failures=failures, notes=notes,
                extra=dict(exhaustive=True, cut_cases=len(cases)))


READER_CUT_RULE = ("C17 reader resume: real kafka.Reader (partition mode) on harness/fetchfake reads a whole log (10..30 records, uncompressed v2 / compressed v2 / "
                   "v1 message sets incl. compressed wrappers, 1..4 records per batch, several batches per response, fetch v2/v5/v10; start positions: default (FirstOffset placeholder), SetOffset(absolute), SetOffset(FirstOffset), SetOffset(LastOffset), SetOffsetAt(time); the partition grows AFTER the first connection resolved the placeholder (always for LastOffset, where the first response with the appended records is cut before its first complete record; half of the others)); "
                   "the ONLY fault: 1..3 fetch responses are delivered up to byte k and the connection is lost, k inside the size prefix, the response header, "
                   "the partition header, a batch header, between batches, between records, inside a record, inside a compressed batch, or after the last complete record "
                   "of a response that Kafka truncated inside a record; predicate on the real Reader's output: FetchMessage returns exactly the stored records from the "
                   "offset the position was FIRST resolved to, each once, in order, all of them, within the watchdog; plus the replay of the journal on the model (delivered sequence, Reader.Offset()/Lag())")


def reader_cut_cases(ctx):
    """Reader half of C17: resume after a cut fetch response without losing, duplicating or
    reordering records.  Same dict shape as compressed_cut_cases."""
    cases, res = _run_harness(ctx, ["-only", "readercut", "-n", str(ctx.scale(200, 2000))], timeout=900)
    failures, seen = [], {}
    def add(c, m, layer, what, with_input=True):
        k = what
        seen[k] = seen.get(k, 0) + 1
        if seen[k] > 1:
            return
        f = dict(layer=layer, what="C17 reader resume after a cut response: " + what, _k=k,
                 detail=json.dumps(dict(case=(c["op"] + " " + c["args"])[:1500], go=c["go"][:400], model=str(m)[:400], feats=c["feats"])))
        f["input"] = dict(case=c["op"] + " " + c["args"], go=c["go"], model=m, feats=c["feats"]) if with_input else None
        failures.append(f)
    for c in cases:
        m = res.get(c["id"])
        feats = c["feats"].split(",")
        if c["go"].startswith("HANG"):
            add(c, m, "property", "the Reader did not deliver the stored records within the watchdog (scenario hung)")
            continue
        parts = (m or "").split(";")
        if len(parts) != 3:
            add(c, m, "correspondence", "model driver failed on the journal: " + str(m)[:160], with_input=False)
            continue
        delivered, prop, problems = parts
        if "request-for-another-partition" in feats or "message-of-another-partition" in feats:
            add(c, m, "property", "the Reader requested / delivered records of another partition than the one it is bound to")
            continue
        if prop != "prop-ok":
            add(c, m, "property", "FetchMessage returned a sequence that is not the stored records from the start offset, each once, in order (a record lost, duplicated or reordered)")
        elif "incomplete" in feats:
            add(c, m, "property", "the Reader stopped before it had delivered all stored records (watchdog / no further fetch)")
        if delivered != e2e_expected(c) or problems != "ok":
            if prop != "prop-ok":
                pass        # already reported above with the input
            elif any(p.split(" ")[0] in ("OFFSET", "LAG") for p in problems.split("+")):
                add(c, m, "property", "Reader.Offset() / Reader.Lag() after a call is not one past the last message returned")
            else:
                kinds = sorted(set(p.split(" ")[0] for p in problems.split("+"))) if problems != "ok" else ["RETURNS"]
                add(c, m, "correspondence", "the model's replay of the journal differs from the real Reader (" + ",".join(kinds) + ") although the delivery predicate holds", with_input=False)
    for f in failures:
        f["what"] += " [%d case(s)]" % seen[f.pop("_k")]
    ev, dn, hist = L.coverage_counts(cases, trivial_feats=("",))
    samples = [(c["op"] + " " + c["args"])[:260] + " | " + c["go"][:120] + " | " + c["feats"] for c in (cases[:2] + cases[len(cases)//2:len(cases)//2+2] + cases[-2:])]
    return dict(evaluations=ev, distinct_nontrivial=dn, hist=hist, rule=READER_CUT_RULE, samples=samples, failures=failures, notes=[],
                extra=dict(reader_cut_scenarios=len(cases)))


def search(ctx, violations):
    from checks import c10
    c10.annotate_skeleton_failure(ctx, violations, "SkeletonReader", "reader_assumptions", "Model/Lifecycle.v / GroupReader.v / ReaderModel.v", "reader.go")
    ctx.seed += 1000
    try:
        c = correspondence(ctx)
    except L.Fail:
        return None
    for f in c["failures"]:
        if f.get("input"):
            return f["input"]
    return None


def replay(ctx, payload):
    inp = payload.get("input")
    if not inp:
        print("replay: no concrete input recorded; broken layer:", payload.get("broken"))
        print(payload.get("detail", "")[:3000])
        return 1
    print("replay case:", inp["case"][:800])
    print("real code at the time:", inp.get("go"), "\nmodel at the time:", inp.get("model"))
    model = L.ocaml_build("c02")
    res = L.run_model(model, "1 " + inp["case"] + " | " + (inp.get("go") or "") + " | \n")
    print("model now:", res)
    gobin = L.go_build("c02")
    if inp["case"].startswith("l1 "):
        rc, out, err, _ = L.sh([gobin, "-replay", inp["case"]], timeout=120)
        print("real code now:", out.strip()[-600:], err[-300:])
    return 1
