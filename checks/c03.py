"""C03 — consumer-group Reader: commits never pass undelivered records; delivery resumes at
the commit (DESIGN.md section 7, C03)."""
import json, os
import checklib as L

TRUSTED_BASE = [
    "Coq 8.16.1 kernel (coqc; coqchk in the thorough tier); vm_compute only in the non-vacuity Examples and the refutation witness; no native_compute",
    "hand-written atomic-step model coq/Model/GroupReader.v of reader.go (group mode: run/subscribe/unsubscribe, commitLoopImmediate/Interval, commitOffsetsWithRetry, CommitMessages, FetchMessage's version filter), commit.go and consumergroup.go (fetchOffsets, makeAssignments, Generation.CommitOffsets); tied by the differential run of harness/cmd/c03 (real code, build tag verif, hooks in /repo/verif_export_c03.go) against the OCaml extraction (ExtrOcamlBasic only)",
    "the coordinator inside the model is a SPEC (generation id, member ids, committed offsets; accepts a commit iff (member, generation) is current); generation management (JoinGroup/SyncGroup/Heartbeat, ConsumerGroup.run) is environment labels with ARBITRARY assignments; harness/groupfake (wire-level fake broker + group coordinator state machine, ~1700 lines of Go) plays it for the real Readers and is trusted to record a linearised history",
    "partition delivery is abstracted: a partition reader emits exactly the next offset (gap-free delivery from the start offset is C02's theorem); no log truncation/retention (log start 0); Go channel, mutex, select and context semantics are as the LTS assumes (one label = one atomic action)",
    "the boolean predicate C03_holds (check_event/check_hist/lost_b of Model/GroupReader.v, extracted) evaluated on recorded histories is the executable counterpart of the theorems' statements; its equivalence with the Prop statements is by inspection (both are in Properties/C03.v / Model/GroupReader.v), exercised on 10^2 random model runs per check",
    "ocaml/kvio.ml.in + ocaml/c03_driver.ml (hex interchange, ~230 lines), harness/kvfmt, the history encoder of harness/cmd/c03 (derives Reader.version and each partition reader's start offset from the Reader's own log lines)",
]
ASSUMPTIONS = [
    "the application passes to CommitMessages only messages it was handed by FetchMessage/ReadMessage (the property's premise) and has at most ONE FetchMessage/ReadMessage call outstanding per Reader (with concurrent fetchers the version filter can drop a stale message for one caller and deliver its successor to another)",
    "gap-free partition delivery from the start offset (C02_delivery_exact) and no retention: records are never deleted, log start offset 0",
    "readers of a generation are cancelled and joined (unsubscribe) before the member rejoins (Generation.close waits for the functions started with gen.Start); the edge case 'generation already closed when Reader.run calls gen.Start' (unaccounted goroutines) is outside the model",
    "offsets < 2^63-1 (offset+1 does not wrap); StartOffset is FirstOffset or LastOffset (ConsumerGroupConfig.Validate)",
    "delivered-before-covered is proved for StartOffset = FirstOffset; for LastOffset it is REFUTED (theorem C03_delivered_before_covered_lastoffset_refuted, replayed on the real Reader on every run: failure key C03-lastoffset-skips-records)",
    "session time-outs, heartbeats and back-off sleeps are environment labels, not clocks; quiescence/liveness (C03_quiescent_all_delivered) is proved only in the form 'if the assignments of generation g cover the existing partitions (assignment_covers_existing, a hypothesis on the environment labels, evaluated on what the real leader computed) and every member of g has drained what it was assigned, every stored record was delivered'; that members eventually drain is TESTED on the real Readers (eviction and commit-answer scenarios: a new generation is reached, every stored record is delivered, an interval-mode stash survives a rejected commit) under watchdogs of 6-8 s, each stall confirmed by one re-run alone",
]

KEY_LASTOFFSET = "C03-lastoffset-skips-records"


def classify(c):
    """A go/model disagreement: does the implementation's output itself violate C03?"""
    op, go, model = c["op"], c["go"], str(c.get("model"))
    if op == "quiet":
        tag = next((f for f in c["feats"].split(",") if f.startswith("missing-topic-at=")), "every subscribed topic exists")
        if go.startswith("UNCOVERED") or model == "VIOL:assignment-covers-existing":
            return dict(layer="property",
                        what="quiescence: the assignments the group leader distributed in the settled generation do not cover every partition of the existing subscribed topics ("
                             + (go.partition(":")[2] or "see the G= tokens") + " unassigned; " + tag + "): its records are never delivered (assignTopicPartitions / per-topic metadata fallback / balancer)", input=c)
        if model == "VIOL:not-all-delivered" and go == "ok":
            return dict(layer="property", what="quiescence: not every stored record of the existing subscribed topics was delivered to some member (" + tag + ")", input=c)
        if go.startswith("STALLED") or go == "HANG":
            return dict(layer="property",
                        what="liveness (quiescence clause), multi-topic group: " + (go.partition(":")[2] or "scenario hung within the 60 s watchdog") + " (" + tag + ")"
                             + (" — confirmed by a re-run alone with the same seed" if "confirmed-alone" in c["feats"] else ""), input=c)
        if model.startswith("VIOL:"):
            c2 = dict(c); c2["op"] = "hist"
            return classify(c2)
        return dict(layer="correspondence", what="multi-topic history: checker failed: " + model[:80], input=None)
    if op == "hist":
        once = "stalled-once-ok-alone" in c["feats"]
        if go == "HANG":
            return dict(layer="property", key=None,
                        what="end-to-end scenario hung: the group Readers did not finish within the 60 s watchdog"
                             + (" (also when re-run alone with the same seed)" if "confirmed-alone" in c["feats"] else ""), input=c)
        if go.startswith("NILNOTRECORDED") and "commit-at-generation-end" in c["feats"]:
            return dict(layer="property",
                        what="real Reader on the wire-level broker: a synchronous CommitMessages issued while the generation was ending returned nil although the coordinator has not recorded its offset ("
                             + go.partition(":")[2] + "; requests still queued in Reader.commits at ctx.Done must be drained BEFORE the final commit)", input=c)
        if go.startswith("NILNOTRECORDED"):
            return dict(layer="property",
                        what="wire level: a synchronous CommitMessages returned nil although the coordinator answered every OffsetCommit with an error code and recorded nothing ("
                             + go.partition(":")[2] + "; Conn.offsetCommit -> Generation.CommitOffsets -> commitLoopImmediate)", input=c)
        if go.startswith("STALLED"):
            return dict(layer="property",
                        what="liveness (quiescence clause): " + go.partition(":")[2]
                             + (" — confirmed by a re-run alone with the same seed" if "confirmed-alone" in c["feats"] else " — not re-run (breaker)"),
                        input=c)
        if model == "LOST":
            k = KEY_LASTOFFSET if "lastoffset" in c["feats"] else None
            return dict(layer="property", key=k,
                        what="an acknowledged commit covers records at or after the group's first start offset that were never delivered to any member"
                             + (" (StartOffset=LastOffset: a generation that ends without a commit restarts at the then-latest offset; Coq: C03_delivered_before_covered_lastoffset_refuted)" if k else ""),
                        input=c)
        if model.startswith("VIOL:"):
            kind = model[5:].split("@")[0]
            what = {
                "commit-bound-or-covered": "an OffsetCommit request carries an offset that is not 1 + a message passed to CommitMessages before, or covers a record never delivered",
                "sync-commit-recorded": "a synchronous CommitMessages returned nil although no acknowledged OffsetCommit covering its messages was recorded by the coordinator",
                "assignment-start": "a generation's start offset is not the coordinator's committed offset (or StartOffset when none)",
                "reader-init": "a partition reader was initialised from an offset its generation did not fetch, or resolved it wrongly",
                "delivery-gap": "FetchMessage returned a record that is neither the start of its partition reader nor the successor of the previous delivery (gap or duplicate within a generation)",
            }.get(kind, "recorded history violates C03_holds (" + kind + ")")
            return dict(layer="property", what=what + " [" + model + "]", input=c)
        return dict(layer="correspondence", what="history checker failed on a recorded history: " + model[:80], input=None)
    if op == "mrun":
        return dict(layer="obligation", what="a run of the MODEL violates the extracted C03 predicate (theorem and predicate disagree): " + model[:80], input=c)
    if op == "mkc":
        return dict(layer="property", what="makeCommit: committed offset is not message offset + 1", input=c)
    if op == "merge":
        return dict(layer="property", what="offsetStash.merge/reset: stash is not the per-partition maximum of the merged commits", input=c)
    if op == "fo":
        return dict(layer="property", what="fetchOffsets/makeAssignments: start offset is not the committed offset (or StartOffset when none / negative)", input=c)
    if op == "loopend":
        if go.startswith("NILNOTRECORDED"):
            return dict(layer="property",
                        what="commit loop at generation end: a CommitMessages call whose request was still queued when the generation ended was answered nil although no accepted OffsetCommit covers it ("
                             + go.partition(":")[2] + ")", input=c)
        if go == "HANG":
            return dict(layer="property", what="commit loop at generation end: the loop or a CommitMessages call did not return within the watchdog", input=c)
        if go.startswith("UNEXPLAINED"):
            return dict(layer="property",
                        what="commit loop at generation end: an OffsetCommit request carries an offset that is not 1 + the offset of any queued CommitMessages call (" + go.partition(":")[2] + ")", input=c)
        # the implementation's own observation satisfies the property (go == ok): the model driver
        # found no (arrival order, k) schedule reproducing it — a gap of the MODEL or of the
        # driver's search, never a property violation
        return dict(layer="correspondence",
                    what="commit loop at generation end: the observation satisfies the property, but no schedule of the model (any arrival order of the queued calls, any k handled singly with their own retries, "
                         "the rest drained into one final commit) reproduces the observed OffsetCommit requests and results", input=c)
    if op == "loop":
        if go.startswith("HANG"):
            return dict(layer="correspondence", what="commit loop script hung (watchdog)", input=None)
        # the loop script fixes every coordinator answer: a differing request sequence or
        # return value is a behaviour the model (for which the theorems hold) does not have
        g_req, _, g_ret = go.partition("|")
        m_req, _, m_ret = model.partition("|")
        if g_ret != m_ret and "nil" in g_ret:
            return dict(layer="property", what="commit loop: CommitMessages results differ from the model (nil although the scripted coordinator rejected, or the reverse)", input=c)
        return dict(layer="property", what="commit loop: OffsetCommit requests differ from the model (stash merge/reset/retry behaviour)", input=c)
    return dict(layer="correspondence", what=f"{op}: model and code differ", input=None)


def generate(ctx=None):
    """Translator: coq/Gen/Skeleton.v (call and access facts with must-hold locksets) from
    /repo's current source; the property file carries the obligation Cxx_skeleton_assumptions."""
    from checks import c10
    return c10.generate(ctx)


def setup():
    L.go_build("c03")
    L.ocaml_build("c03")


TRIVIAL = ("", "n=0", "n=1", "mode=s", "mode=i")


def correspondence(ctx):
    gobin = L.go_build("c03")
    model = L.ocaml_build("c03")
    n = ctx.scale(300, 5000)
    loops = ctx.scale(40, 200)
    e2e = ctx.scale(72, 600)
    mrun = ctx.scale(300, 5000)
    nend = ctx.scale(40, 300)
    rc, out, err, dt = L.sh([gobin, "-seed", str(ctx.seed), "-n", str(n), "-loops", str(loops),
                             "-e2e", str(e2e), "-mrun", str(mrun), "-loopend", str(nend)], timeout=ctx.scale(300, 2400))
    if rc != 0:
        raise L.Fail("correspondence", "harness cmd/c03 crashed or hit the global time-out (panic/deadlock in the group Reader?)",
                     (out[-1500:] + err[-2500:]))
    texts = [out]
    cdir = os.path.join(L.CORPUS, "C03")
    if os.path.isdir(cdir):
        for f in sorted(os.listdir(cdir)):
            texts.append(open(os.path.join(cdir, f)).read())
    cases = []
    for t in texts:
        for c in L.parse_cases(t):
            c["id"] = str(len(cases) + 1)
            c["line"] = c["id"] + " " + c["op"] + " " + c["args"]
            cases.append(c)
    res = L.run_model(model, "\n".join(c["line"] for c in cases) + "\n")
    bad = L.diff_cases(cases, res)
    failures = []
    seen_keys = set()
    for c in bad[:40]:
        f = classify(c)
        if f.get("key") and f["key"] in seen_keys:
            continue
        if f.get("key"):
            seen_keys.add(f["key"])
        f["detail"] = json.dumps(dict(case=c["line"][:3000], go=c["go"][:500], model=str(c.get("model"))[:500], feats=c["feats"]))
        if f.get("input") is not None:
            f["input"] = dict(case=c["line"], go=c["go"], model=c.get("model"), feats=c["feats"])
        failures.append(f)
    # the refutation must be reproduced on the implementation on every run
    if not any(c["op"] == "hist" and "lastoffset-replay" in c["feats"] for c in cases):
        failures.append(dict(layer="correspondence", what="the LastOffset replay scenario did not run", detail="", input=None))
    notes = []
    once = [c for c in cases if "stalled-once-ok-alone" in c["feats"]]
    if once:
        notes.append(f"{len(once)} scenario(s) stalled once and completed normally when re-run alone with the same seed (machine load), not reported")
    ev, dn, hist = L.coverage_counts(cases, trivial_feats=TRIVIAL)
    nh = [c for c in cases if c["op"] in ("hist", "quiet")]
    events = sum(len(c["args"].split(" ")) - 2 for c in nh)
    return dict(evaluations=ev, distinct_nontrivial=dn, hist=hist,
                rule="one PRNG (VERIF_SEED): step level = makeCommits, offsetStash.merge/reset, fetchOffsets+makeAssignments against a scripted coordinator "
                     "(committed / none / negative / omitted partitions, First/LastOffset); 'loop' = the real commitLoopImmediate/Interval + CommitMessages + "
                     "commitOffsetsWithRetry against scripted coordinator answers (ok, error codes 15/16/22/25/27, connection error, Reader stop during back-off), "
                     "compared with the model's run of the same label sequence; 'loopend' = the real commitLoopImmediate with 1-5 requests still queued in Reader.commits when the generation context ends "
                     "(the loop's select picks at random between ctx.Done and the queue): a call answered nil must be covered by an accepted OffsetCommit, and the model driver must find a "
                     "schedule of the model reproducing the observed requests and results; 'hist' = 1-3 real group Readers (sync and interval commits, 1-2 topics, 1-3 partitions) "
                     "on the wire-level fake broker (the coordinator connection is the real *Conn) with forced rebalances, evictions, members joining/leaving, error codes and dropped connections on "
                     "join/sync/heartbeat/offset-fetch/offset-commit, stale commits; 16 scripted 'wire-commit-codes' scenarios (OffsetCommit answers with each of 0,-1,1,16,22,25,27,32767 on every partition, "
                     "sync: nil implies recorded; interval: the stash survives and a later tick records) and 6 'evict-liveness' scenarios (UnknownMemberId on heartbeat and on the JoinGroup with the stale id; "
                     "the member must reach a new generation and every stored record be delivered within 8 s; a stall is re-run once alone, three-strikes breaker) and 6 'commit-at-generation-end' scenarios "
                     "(3-6 goroutines call the synchronous CommitMessages on distinct partitions while OffsetCommit answers are delayed and the generation is ended by a rebalance notice on the heartbeat, "
                     "an eviction or Close, 5 rounds each; every nil is compared with what the coordinator recorded) and 8 'multi-topic-quiescence' histories (op quiet: 1-3 members subscribed through GroupTopics to 2-4 topics "
                     "of which none or one — sorting first / in the middle / last — does not exist, 1-3 partitions per existing topic, run until the group settles and every record is read: the extracted "
                     "assignment_covers_existing_b is evaluated on the assignments the real leader distributed in the settled generation and all_delivered_b on the deliveries); "
                     "the globally sequenced history is checked by the extracted C03_holds/lost_b; "
                     "'mrun' = random label sequences run on the model and checked by the same predicate; a case is non-trivial when it has a feature tag beyond the mode; "
                     f"{len(nh)} histories with {events} events in this run",
                samples=[c["line"][:300] + " | " + c["go"][:100] for c in cases[:2] + [c for c in cases if c["op"] == "loop"][:2] + nh[:3]],
                notes=notes, failures=failures)


def search(ctx, violations):
    """A layer broke without a concrete input: more and longer scenarios with another seed."""
    from checks import c10
    c10.annotate_skeleton_failure(ctx, violations, "SkeletonReader", "reader_assumptions", "Model/Lifecycle.v / GroupReader.v / ReaderModel.v", "reader.go")
    ctx.seed += 1000
    ctx.tier = "thorough"
    ctx.thorough = True
    try:
        c = correspondence(ctx)
    except L.Fail:
        return None
    for f in c["failures"]:
        if f.get("input") and f.get("key") is None:
            return f["input"]
    return None


def replay(ctx, payload):
    inp = payload.get("input")
    if not inp:
        print("replay: no concrete input recorded; broken layer:", payload.get("broken"))
        print(payload.get("detail", "")[:3000])
        return 1
    print("replay case:", inp["case"][:3000])
    print("features:", inp.get("feats"))
    print("go result at the time:", inp.get("go"), " model/checker verdict:", inp.get("model"))
    model = L.ocaml_build("c03")
    res = L.run_model(model, inp["case"] + "\n")
    print("checker now:", res)
    if "lastoffset" in str(inp.get("feats")):
        print("re-running the LastOffset scenario on the real Reader (harness/cmd/c03 -e2e 0):")
        gobin = L.go_build("c03")
        rc, out, err, dt = L.sh([gobin, "-seed", str(ctx.seed), "-n", "0", "-loops", "0", "-e2e", "0", "-mrun", "0"], timeout=120)
        for line in out.splitlines():
            if " hist " in line:
                r = L.run_model(model, line.split(" | ")[0] + "\n")
                print(line[:600])
                print("verdict:", r)
    return 1
