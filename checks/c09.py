"""C09 (Writer half) — Close, use-after-close and termination of kafka.Writer (DESIGN.md section 7).
Model coq/Model/Writer.v, theorems coq/Properties/C09.v; the run is shared with the other
Writer checks (checks/writer_common.py)."""
import checklib as L
from checks import writer_common as W

PROP = "C09"
TRUSTED_BASE = list(W.COMMON_TRUSTED) + [
    "only the Writer half of C09 is covered here (Reader / ConsumerGroup lifecycle: separate model); bounded time is abstracted to absence of stuck states; the termination variant is not proved",
    "a single Close call per Writer is modelled",
]
ASSUMPTIONS = [
    "fairness: every enabled non-environment step (goroutine, timer, broker answer or time-out) is eventually taken",
]


def setup():
    W.setup()


def correspondence(ctx):
    return W.correspondence_for(PROP, ctx, "C09 judges: Close / call watchdogs, C09_after_close on every history, and the f3 regression scenario (a blocking BalancerFunc forces batchMessages after Close: the call must return io.ErrClosedPipe and Close must return).")


def search(ctx, violations):
    return W.search_for(PROP, ctx, violations)


def replay(ctx, payload):
    return W.replay(ctx, payload)
