"""C09 (Writer half) — Close, use-after-close and termination of kafka.Writer (DESIGN.md section 7).
Model coq/Model/Writer.v, theorems coq/Properties/C09.v; the run is shared with the other
Writer checks (checks/writer_common.py)."""
import checklib as L
from checks import writer_common as W

PROP = "C09"
TRUSTED_BASE = list(W.COMMON_TRUSTED) + [
    "only the Writer half of C09 is covered here (Reader / ConsumerGroup lifecycle: separate model); bounded time is abstracted to absence of stuck states; the termination variant is not proved",
    "a single Close call per Writer is modelled",
]
ASSUMPTIONS = [
    "C09_w_close_no_stuck holds only without the late-batchMessages interleaving; at full strength it is refuted (F3)",
]


def setup():
    W.setup()


def correspondence(ctx):
    return W.correspondence_for(PROP, ctx, "C09 judges: Close / call watchdogs, C09_after_close on every history, and the f3 replay (blocking BalancerFunc forces batchMessages after Close).")


def search(ctx, violations):
    return W.search_for(PROP, ctx, violations)


def replay(ctx, payload):
    return W.replay(ctx, payload)
