"""C09 — Close, cancellation and use-after-close behave and terminate in every schedule
(DESIGN.md section 7).

Writer half: model coq/Model/Writer.v; the run is shared with the other Writer checks
(checks/writer_common.py, harness/cmd/writer).

Reader / ConsumerGroup / Transport half: model coq/Model/Lifecycle.v, proofs coq/Proofs/Lifecycle*.v,
theorems in the second part of coq/Properties/C09.v; correspondence = harness/cmd/c09r (REAL kafka.Reader
on harness/groupfake and harness/fetchfake, real kafka.Transport/Client) judged by the extracted
monitors and compared with runs of the extracted model (ocaml/c09r_driver.ml).

ops of the second run (go result | model result):
  e2e   concurrent lifecycle program (modes p, g = Reader, t = bare Client/Transport, w = Writer on a real Transport); go = ok | HANG:… | LEAK:… | PANIC:…; model = ok | FAIL:<monitor names>
        (late_fetch, late_commit = the two clauses of mon_after_close; silent; leave)
  det   deterministic single-threaded scenario: the results of every step, on both sides
  cac   n CommitMessages calls after Close returned: <cp>:<ctx>:<nil>:<oth> counts; the model echoes
        them when every observed outcome is one the model allows (regression of /repo 0aeb2fd: all cp)
  gse   ConsumerGroup API: the generation ends on its own (heartbeat answered 27 / 25 / dropped) while a Start-ed function
        needs time to wind down, then Close: fnret_before_close=1,join_before_fnret=0 on both sides
  nlv   deterministic regression of /repo da142dd (LeaveGroup after a failed re-join): lv=<LeaveGroup count>
"""
import hashlib, json, os
import checklib as L
from checks import writer_common as W

PROP = "C09"
TRUSTED_BASE = list(W.COMMON_TRUSTED) + [
    "Writer half: a single Close call per Writer is modelled; bounded time is abstracted to absence of stuck states plus the termination measure",
    "Reader half: hand-written atomic-step model coq/Model/Lifecycle.v of /repo/reader.go (Reader shell, run(cg), commitLoop*, unsubscribe, "
    "partition reader goroutines, readLag), of ConsumerGroup.run / nextGeneration / leaveGroup / Generation.Start+close in /repo/consumergroup.go and of "
    "the two context-aware waits of connPool.roundTrip in /repo/transport.go; that Go's mutex, channels (buffered r.msgs / r.commits, capacity-1 errch), "
    "select (uniform choice among ready branches: modelled as nondeterministic choice, the 'racing' branches are classified by is_race), "
    "sync.WaitGroup, sync.Once and context cancellation behave as the labels assume is modelled, not verified (data races: C10)",
    "Reader half abstractions (header of Model/Lifecycle.v): Generation's routines counter / joined channel are abstracted to 'gen.close() waits for every "
    "accounted function' (that is C15_accounting over the detailed Model/ConsumerGroup.v); partition watchers are not modelled; r.join = number of partition "
    "readers not yet exited; message contents dropped (an element of r.msgs is a version stamp); a network exchange bounded by a deadline is one label carrying "
    "its outcome (time-out included) — the hard-coded 10 s readOffsets deadline and ConsumerGroupConfig.Timeout (5 s, not settable through ReaderConfig) are such bounds",
    "Reader half tie: harness/cmd/c09r runs the real kafka.Reader against harness/groupfake (wire-level broker + coordinator; requests journalled through its "
    "FaultFunc in the broker's single history) and harness/fetchfake (silent / refusing broker), and a real kafka.Client+Transport; one globally ordered timeline "
    "per scenario (call begin / context end / return / Close begin / Close return / request arrival / member id handed out) is judged by mon_late_fetch, "
    "mon_late_commit, mon_silent, mon_leave, mon_leave_strict — the definitions the theorems are about, extracted with ExtrOcamlBasic only; deterministic "
    "scenarios are compared result by result with a run of the extracted step function; hangs are detected by per-call watchdogs (8 s and more), goroutine "
    "(stacks created by kafka-go) and client-connection census after the last Close; ocaml/c09r_driver.ml (~230 lines) and the harness (~2700 lines of Go) are trusted",
    "late-answer family of cmd/c09r: in mode w (real kafka.Writer on a real Transport against the package's own small wire fake wfake.go: ApiVersions, Metadata, "
    "Produce) the client-side connection wrapper honours read deadlines 6x WriteTimeout late (tag deadline-slack), so that the late answer is actually read by "
    "(*conn).run instead of racing the connection deadline that equals the produce context's deadline; mode t contexts carry no deadline and need no slack",
    "a request counts as 'after Close returned' by its position in the timeline: the journal entry is made when the fake has decoded the request, the Close "
    "return when Reader.Close returned in the harness goroutine",
]
ASSUMPTIONS = [
    "fairness: every enabled non-environment step (goroutine, timer, broker answer or time-out) is eventually taken",
    "Reader half: additionally a select whose cancellation branch is ready eventually takes it (Go's select is uniformly random), and periodic tickers fire finitely often per unit of time; every network exchange is bounded by a deadline of the code (dial, read and write deadlines set by reader.go / consumergroup.go)",
    "Reader half: WatchPartitionChanges is off in the model (the harness switches it on in some scenarios; the monitors do not depend on it)",
]

# regressions of three defects fixed in /repo (43be141, 0aeb2fd, da142dd); a reappearance is an ordinary violation
WHAT_COMMIT = ("Reader.CommitMessages after (or racing with) Close did not return io.ErrClosedPipe: it enqueued its request into r.commits "
               "(then blocks until its own context ends / returns nil for a commit that is never sent) — theorem C09_r_after_close")
WHAT_FETCH = ("Reader.FetchMessage / ReadMessage that began after Close returned did not return io.EOF (a buffered message or error item was "
              "delivered, or the call waited) — theorem C09_r_after_close")
WHAT_LEAVE = ("Reader.Close returned without a LeaveGroup attempt for the member id the coordinator had handed out (no fault on the leave "
              "path, member not evicted) — theorem C09_r_close_post_leave")


generate = W.generate   # regenerates coq/Gen/Skeleton.v (synchronisation skeleton) before the Coq build


def setup():
    W.setup()
    L.go_build("c09r")
    L.ocaml_build("c09r", extract_v="Extract/C09R.v", driver="c09r_driver.ml")


# ----------------------------------------------------------------------------- Reader half

_rcache = {}


def reader_run(ctx):
    key = (ctx.seed, ctx.tier)
    if key in _rcache:
        return _rcache[key]
    gobin = L.go_build("c09r")
    model = L.ocaml_build("c09r", extract_v="Extract/C09R.v", driver="c09r_driver.ml")
    n = ctx.scale(150, 1200)
    rc, out, err, dt = L.sh([gobin, "-seed", str(ctx.seed), "-n", str(n)], timeout=ctx.scale(240, 2400))
    if rc != 0:
        raise L.Fail("correspondence", "harness cmd/c09r crashed or timed out (a hang must be reported per scenario, not kill the run)",
                     (out[-1500:] + err[-2500:]))
    cases = L.parse_cases(out)
    lines = []
    for c in cases:
        c["n"] = n
        lines.append(c["line"] + (" | " + c["go"] if c["op"] in ("cac", "nlv", "gse") else ""))
    res = L.run_model(model, "\n".join(lines) + "\n", timeout=1200)
    for c in cases:
        c["model"] = res.get(c["id"])
    r = dict(cases=cases, go_time=dt, n=n)
    _rcache[key] = r
    return r


def _tags(c):
    return [t for t in c["feats"].split(",") if t]


def _field(s, name):
    for part in s.split(","):
        if part.startswith(name + "="):
            return part[len(name) + 1:]
    return None


def reader_failures_of_case(c):
    """[(layer, what, key)] for one case of the c09r run."""
    op, go, model, tags = c["op"], c["go"], c.get("model"), _tags(c)
    out = []
    if model is None or model.startswith("ERR:") or model == "?":
        return [("correspondence", f"model driver could not evaluate a c09r {op} case: {model}", None)]
    if op == "e2e":
        for part in go.split("+"):
            if part == "ok":
                continue
            if part.startswith("HANG:worker"):
                out.append(("correspondence", "a c09r worker process overran its deadline: " + part, None))
            elif part.startswith("HANG:close"):
                out.append(("property", "Reader.Close (or CloseIdleConnections) did not return within the watchdog: " + part, None))
            elif part.startswith("HANG"):
                out.append(("property", "a blocked call did not return within the watchdog although its context ended or the Reader was closed: " + part, None))
            elif part.startswith("OVERLAP"):
                out.append(("property", "a generation that had ended on its own was not joined: the re-join / LeaveGroup / return of Reader.Close came while the "
                                        "commit loop of that generation was still inside its OffsetCommit round trip (its coordinator connection was closed under it): "
                                        "Generation.close must wait on g.joined on every path; theorem C09_r_generation_joined, skeleton assumption R19", None))
            elif part.startswith("PANIC"):
                out.append(("property", "kafka-go panicked during a lifecycle scenario: " + part[:300], None))
            elif part.startswith("LEAK"):
                if c["args"].startswith(("t ", "w ")):
                    promise = "parked-in-promise" in tags or any(t.startswith("leak=") and ("async.resolve" in t or "async.reject" in t) for t in tags)
                    if "refresh-silent-family" in tags:
                        out.append(("property", "after Transport.CloseIdleConnections / Writer.Close, connections of the pool's background metadata refresh that the broker "
                                                "never answered are still open and their (*conn).run goroutines still blocked in RoundTrip: a request handed to a connection "
                                                "must carry the context whose deadline bounds it (connPool.discover: the per-refresh WithTimeout context, not the pool "
                                                "context) — theorem C09_t_busy_connection_bounded and the obligation stated at TDeadline in Model/TransportConnect.v", None))
                        continue
                    if "connect-race-family" in tags or "orphan-conn" in tags:
                        out.append(("property", "a Transport connection whose set-up completed after its requester had left (context ended) and after the pool was "
                                                "closed (Transport.CloseIdleConnections / Writer.Close) is neither pooled nor closed: its (*conn).run goroutine waits for "
                                                "requests forever and the socket stays open (connGroup.grabConnOrConnect: if !g.releaseConn(c) { c.close() }; theorems "
                                                "C09_t_closed_group_holds_nothing, C09_t_late_setup_pooled_or_closed, skeleton assumption L2)", None))
                        continue
                    if promise or "late-answer-family" in tags:
                        out.append(("property", "after a round trip was abandoned through its context and the broker answered (or closed the connection) LATER, "
                                                "Transport connection goroutines / connections are still there after Writer.Close / Transport.CloseIdleConnections and the "
                                                "grace period" + (": a goroutine is parked in async.resolve / async.reject ((*conn).run cannot deliver the result: "
                                                "the promise channel of sendRequest must have capacity 1, skeleton assumption T6)" if promise else ""), None))
                        continue
                    # a broker that stays SILENT after the cancel: kafka.Transport reads without a deadline; outside the text of C09
                    # (which speaks of Writer, Reader, ConsumerGroup); reported as an observation
                    continue
                if "silent-step-family" in tags and any("LookupPartition" in t for t in tags if t.startswith("leak=")):
                    out.append(("property", "after Reader.Close (or the end of the dial context) the helper goroutine of Dialer.LookupPartition is still blocked reading "
                                            "on the lookup connection and that connection is still open while the broker stays silent: the lookup connection must be "
                                            "closed on every way out of the FUNCTION (theorems C09_r_lookup_conn_owned, C09_r_close_post_registry; skeleton assumption L1)", None))
                    continue
                out.append(("property", "goroutines or connections of a Reader / ConsumerGroup outlive Close beyond the grace period: " + part
                            + " " + ",".join(t for t in tags if t.startswith("leak=")), None))
            else:
                out.append(("correspondence", "unknown verdict of harness cmd/c09r: " + part[:200], None))
        if model != "ok":
            names = model[5:].split("+") if model.startswith("FAIL:") else [model]
            excused = any(t in ("leave-faulted", "evicted") for t in tags)
            for nm in names:
                if nm == "late_fetch":
                    out.append(("property", WHAT_FETCH, None))
                elif nm == "late_commit":
                    out.append(("property", WHAT_COMMIT, None))
                elif nm == "silent":
                    out.append(("property", "a Heartbeat / OffsetCommit / Fetch / JoinGroup / SyncGroup request reached the broker after Reader.Close had returned", None))
                elif nm == "leave":
                    if not excused:
                        out.append(("property", WHAT_LEAVE, None))
                else:
                    out.append(("correspondence", "unknown verdict of the c09r model driver: " + nm, None))
        return out
    if op == "det":
        if go.startswith(("HANG", "PANIC")):
            out.append(("property", "deterministic lifecycle scenario: " + go[:200], None))
        elif go != model:
            out.append(("correspondence", f"deterministic lifecycle scenario: implementation {go} / run of the model {model}", None))
        res = go.split(",")
        if "D" in res and any(x not in ("eof", "oth") for x in res[res.index("D") + 1:]):
            out.append(("property", WHAT_FETCH, None))
        return out
    if op == "cac":
        if go.startswith(("HANG", "PANIC")):
            out.append(("property", "CommitMessages-after-Close scenario: " + go[:200], None))
            return out
        if go != model:
            out.append(("correspondence", f"CommitMessages after Close: implementation outcomes {go} (cp:ctx:nil:oth), model says {model}", None))
        try:
            cp, cx, nl, ot = [int(x, 16) for x in go.split(":")]
            if cx + nl + ot > 0:
                out.append(("property", WHAT_COMMIT, None))
        except ValueError:
            out.append(("correspondence", "unreadable cac result " + go[:100], None))
        return out
    if op == "gse":
        if go.startswith(("HANG", "PANIC")):
            out.append(("property", "generation-self-end scenario: " + go[:200], None))
            return out
        a, b = _field(go, "fnret_before_close"), _field(go, "join_before_fnret")
        if a != "1" or b != "0":
            out.append(("property", "a generation that had ended on its own (failed heartbeat) was not joined: ConsumerGroup.Close returned / the next "
                                    "JoinGroup was sent while a function started with Generation.Start was still running (Generation.close must wait on "
                                    "g.joined on every path; theorem C09_r_generation_joined, skeleton assumption R19)", None))
        elif (a, b) != (_field(model or "", "fnret_before_close"), _field(model or "", "join_before_fnret")):
            out.append(("correspondence", f"generation-self-end scenario: implementation {go}, model {model}", None))
        cen = _field(go, "census")
        if cen and cen != "ok":
            out.append(("property", "goroutines or connections of a ConsumerGroup outlive Close beyond the grace period: " + cen[:100], None))
        return out
    if op == "nlv":
        if go.startswith(("HANG", "PANIC")):
            out.append(("property", "failed-re-join scenario: " + go[:200], None))
            return out
        lv, mlv = _field(go, "lv"), _field(model or "", "lv")
        if _field(go, "rejoin") in (None, "0"):
            out.append(("correspondence", "failed-re-join scenario did not reach the faulted re-join: " + go[:200], None))
        elif lv != mlv:
            out.append(("correspondence", f"failed-re-join scenario: implementation {go}, model {model}", None))
        if lv == "0" and _field(go, "rejoin") not in (None, "0"):
            out.append(("property", WHAT_LEAVE + " (after a failed re-join)", None))
        return out
    return [("correspondence", "unknown op of cmd/c09r: " + op, None)]


R_TRIVIAL = {"fake=groupfake", "fake=fetchfake", "kind=ok", "kind=idle", "det", "cac", "nlv", "gse"}


def reader_half(ctx):
    r = reader_run(ctx)
    cases = r["cases"]
    by_key, failures, seen = {}, [], set()
    failing = 0
    for c in cases:
        fs = reader_failures_of_case(c)
        if fs:
            failing += 1
        for (layer, what, key) in fs:
            k = (layer, what, key)
            by_key[k] = by_key.get(k, 0) + 1
            if k in seen:
                continue
            seen.add(k)
            replay_cmd = f"build/bin/c09r -seed {ctx.seed} -n {r['n']} -only {c['id']}"
            f = dict(layer=layer, what=what, key=key,
                     detail=json.dumps(dict(case=c["line"][:6000], go=c["go"][:300], model=str(c.get("model"))[:300],
                                            feats=c["feats"][:600], replay=replay_cmd)))
            f["input"] = (dict(half="reader", case=c["line"], go=c["go"], model=c.get("model"), feats=c["feats"],
                               seed=ctx.seed, n=r["n"], id=c["id"]) if layer == "property" else None)
            failures.append(f)
    for f in failures:
        f["what"] = f["what"] + f" [{by_key[(f['layer'], f['what'], f['key'])]} scenario(s) of this run]"
    hist, dn = {}, set()
    for c in cases:
        for t in (_tags(c) or [""]):
            if t.startswith(("oth=", "leak=", "qcap=", "buffered=")):
                t = t.split("=")[0]
            hist["r." + c["op"] + ":" + t] = hist.get("r." + c["op"] + ":" + t, 0) + 1
        if set(_tags(c)) - R_TRIVIAL:
            dn.add(hashlib.sha1((c["op"] + " " + c["args"]).encode()).hexdigest())
    e2e = [c for c in cases if c["op"] == "e2e"]
    samples = [c["line"][:400] + " | " + c["go"][:60] + " | " + c["feats"][:160]
               for c in ([x for x in e2e if x["args"].startswith("g")][:2] + [x for x in e2e if x["args"].startswith("p")][:1]
                         + [x for x in cases if x["op"] == "det"][:1])]
    tleaks = [c for c in e2e if c["args"].startswith("t ") and "LEAK" in c["go"] and not ({"late-answer-family", "parked-in-promise", "connect-race-family", "orphan-conn", "refresh-silent-family"} & set(_tags(c)))]
    return dict(
        evaluations=len(cases), distinct_nontrivial=len(dn), hist=hist, samples=samples, failures=failures,
        rule="Reader half: cases from the same PRNG seed in harness/cmd/c09r: concurrent lifecycle programs on the real kafka.Reader (partition mode and group "
             "mode; 1-4 callers issuing FetchMessage / ReadMessage / CommitMessages with contexts never / later / already cancelled; one or two Close calls at a "
             "random moment or on an event; new calls after the last Close; brokers slow, silent, refusing, dropping connections, answering error codes; "
             "rebalances by a second Reader, ForceRebalance, Evict; ReadLag on/off; CommitInterval 0 / >0; QueueCapacity 1..100) and on a real kafka.Transport "
             "(round trips with contexts cancelled while the broker is silent) and, in every run, the late-answer family: the context of a bare Client call, "
             "of a Writer's produce / metadata round trip or of a Reader's request ends while the request is in flight and the broker answers or closes the "
             "connection 1x..3x later, then Close + CloseIdleConnections + goroutine / connection census; the silent-step family (the peer of a partition reader's "
             "leader lookup falls silent for good after accept / after ApiVersions / after the Metadata request / mid-response / at Fetch; Close; census while the fake "
             "keeps its side open); the connect-race family (a Transport connection's set-up, slower than the request's context, completes after the pool was closed / "
             "while it is open / fails late; the broker stops answering the pool's background metadata refresh, 3-4 TTLs, then CloseIdleConnections / Writer.Close); "
             "the generation-self-end family; deterministic single-threaded scenarios (fetch k of N, commit, Close, fetch again) "
             "compared with the model's run; n CommitMessages after Close; an e2e case counts when the implementation ran it under watchdogs and the extracted "
             "monitors judged its timeline; non-trivial = any feature tag beyond the fake used and kind ok/idle; distinct by hash of op+args.",
        extra=dict(reader_go_run_s=round(r["go_time"], 1), reader_scenarios=len(cases), reader_e2e=len(e2e),
                   reader_det_model_runs=sum(1 for c in cases if c["op"] == "det"),
                   late_answer_scenarios=sum(1 for c in e2e if "late-answer-family" in _tags(c)),
                   silent_step_scenarios=sum(1 for c in e2e if "silent-step-family" in _tags(c)),
                   connect_race_scenarios=sum(1 for c in e2e if "connect-race-family" in _tags(c)),
                   refresh_silent_scenarios=sum(1 for c in e2e if "refresh-silent-family" in _tags(c)),
                   reader_failing_case_count=failing,
                   reader_leave_excused=sum(1 for c in e2e if "leave" in str(c.get("model")) and any(t in ("leave-faulted", "evicted") for t in _tags(c))),
                   transport_observation=(f"{len(tleaks)} Transport scenario(s): after a round trip was abandoned through its context while the broker stays silent, "
                                          "the connection goroutine (transport.go (*conn).run -> roundTrip -> ReadResponse) keeps reading WITHOUT a deadline when the "
                                          "context had none, and CloseIdleConnections does not close that busy connection: goroutine and connection stay as long as the "
                                          "broker is silent. Outside the text of C09 (Writer / Reader / ConsumerGroup), not counted as a violation; example: "
                                          + (tleaks[0]["line"][:200] + " | " + tleaks[0]["go"] if tleaks else "-"))))


# ----------------------------------------------------------------------------- the check

def correspondence(ctx):
    w = W.correspondence_for(PROP, ctx, "C09 judges: Close / call watchdogs, C09_after_close on every history, the wire-level census scenarios (writers built with kafka.NewWriter on the real Transport over pipes: after Close no connPool.discover / conn.run goroutine, open connection or late request remains), and the f3 regression scenario (a blocking BalancerFunc forces batchMessages after Close: the call must return io.ErrClosedPipe and Close must return).")
    rd = reader_half(ctx)
    hist = dict(w["hist"])
    hist.update(rd["hist"])
    extra = dict(w.get("extra", {}))
    extra.update(rd["extra"])
    return dict(evaluations=w["evaluations"] + rd["evaluations"],
                distinct_nontrivial=w["distinct_nontrivial"] + rd["distinct_nontrivial"],
                hist=hist, samples=w["samples"][:4] + rd["samples"][:4],
                failures=w["failures"] + rd["failures"],
                rule="Writer half: " + w["rule"] + " || " + rd["rule"],
                extra=extra)


def search(ctx, violations):
    from checks import c10
    c10.annotate_skeleton_failure(ctx, violations, "SkeletonReader", "reader_assumptions", "Model/Lifecycle.v / GroupReader.v / ReaderModel.v", "reader.go")
    found = W.search_for(PROP, ctx, violations)
    if found:
        return found
    try:
        rd = reader_half(ctx)      # ctx.seed was advanced by search_for
    except L.Fail:
        return None
    for f in rd["failures"]:
        if f.get("input"):
            return f["input"]
    return None


def replay(ctx, payload):
    inp = payload.get("input")
    if not inp or inp.get("half") != "reader":
        return W.replay(ctx, payload)
    print("replay case:", inp["case"][:3000])
    print("implementation result at the time:", inp.get("go"), " model verdict:", inp.get("model"))
    model = L.ocaml_build("c09r", extract_v="Extract/C09R.v", driver="c09r_driver.ml")
    line = inp["case"] + (" | " + inp.get("go", "") if " cac " in inp["case"] or " nlv " in inp["case"] else "")
    print("model verdict now:", L.run_model(model, line + "\n"))
    gobin = L.go_build("c09r")
    rc, out, err, _ = L.sh([gobin, "-seed", str(inp.get("seed", ctx.seed)), "-n", str(inp.get("n", 150)), "-only", str(inp["id"])], timeout=600)
    print("implementation now:", out.strip()[:3000])
    print(err[-3000:])
    return 1
