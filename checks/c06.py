"""C06 — a response is only ever delivered to the call that sent the request
(DESIGN.md section 7, C06; models coq/Model/ConnMux.v and coq/Model/TransportPool.v)."""
import json, os
import checklib as L

TRUSTED_BASE = [
    "Coq 8.16.1 kernel (coqc; coqchk in the thorough tier); vm_compute used only in non-vacuity Examples and refutation witnesses; no native_compute",
    "hand-written atomic-step models coq/Model/ConnMux.v (conn.go doRequest/waitResponse/do/ApiVersions/ReadBatchWith, batch.go close) and "
    "coq/Model/TransportPool.v (transport.go connGroup/conn.run/async.await, protocol RoundTrip), tied to /repo by harness/cmd/c06: step-level "
    "differential of (*Conn).waitResponse through /repo/verif_export_c06.go, and a linearisation search of the OCaml-extracted models "
    "(ExtrOcamlBasic only) over recorded small end-to-end histories",
    "that Go mutexes, channels and atomics behave as the LTS assumes; that the isolated execution of waitResponse equals its execution in situ; "
    "that one label (a critical section / channel operation) is atomic",
    "harness/muxfake (in-memory deadline-capable conn, scripted wire-level broker using /repo/protocol ReadRequest/WriteResponse), "
    "ocaml/kvio.ml.in + ocaml/c06_driver.ml (search ~300 lines), harness/kvfmt",
    "mutex fairness is not modelled (the spin in waitResponse terminates only under a fair lock): liveness is outside the theorems",
]
ASSUMPTIONS = [
    "frame alignment of the byte stream (property C11): the Conn theorems are stated for states with misaligned = false; "
    "the model raises misaligned exactly where the code leaves a half-read body on an open connection",
    "fewer than 2^32 requests per connection (int32 correlation ids wrap; the wrap is in the model)",
    "the legacy Conn's broker answers each request at most once (duplicate answers are outside C06's fault list; the harness still "
    "generates them: safety is still checked, the resulting livelock is recorded as an observation in the notes); the Transport's "
    "broker may repeat or delay answers arbitrarily",
    "after a time-out in the middle of a response body fewer than 8 unread bytes remain buffered (peekRead peeks at most 8, ReadFull consumes), "
    "so a closed connection yields no further header; parse errors on well-formed frames do not occur (C04/C17)",
]



def model_line(c):
    if c["op"] in ("mux", "tr"):
        want = c["go"].split(" ")[0] if c["go"] else "-"
        return f'{c["id"]} {c["op"]} {c["args"]} want={want}'
    return f'{c["id"]} {c["op"]} {c["args"]}'


def foreign(c):
    return "FOREIGN" in c["go"]


def expected_model(c):
    """What the model result must equal for the correspondence to hold."""
    op, go = c["op"], c["go"]
    if op in ("wr", "mux", "tr"):
        return go
    if op in ("avopen", "avstale"):
        return " ".join(go.split(" ")[:3])          # averr=.. closed=.. next=..
    if op == "trsplit":
        return "split=BAD" if go == "split=ERR" else go
    if op == "muxcut":
        return " ".join(x.split(":")[0] for x in go.split(" ")) + (" lin=skip" if "hang=BAD" in go else " lin=ok")
    if op == "trmeta":
        return go
    if op in ("poolx", "trtail"):
        if go.startswith(("CRASH", "HANG", "SETUP", "crash=")):
            return "own=BAD ok=BAD" if op == "poolx" else "own=BAD serve=BAD ids=BAD"
        return " ".join(x.split(":")[0] for x in go.split(" "))
    if op == "batchrd":
        if go.startswith(("CRASH", "HANG", "SETUP", "crash=")):
            return "own=BAD acct=BAD serve=BAD"
        return " ".join(x.split(":")[0].replace("=FOREIGN", "=BAD") for x in go.split(" "))
    if op == "trpage":
        return "pure=BAD" if go.startswith("ERR") else go.split(":")[0]
    if op in ("trlate", "trcut"):
        # the harness's own verdicts with the detail after BAD stripped
        return " ".join(x.split(":")[0] for x in go.split(" "))
    return "skip"


def generate(ctx=None):
    """Translator: coq/Gen/Skeleton.v (call and access facts with must-hold locksets) from
    /repo's current source; the property file carries the obligation Cxx_skeleton_assumptions."""
    from checks import c10
    return c10.generate(ctx)



MON_KEYS = dict(batchrd=("own", "acct", "serve", "crash"), poolx=("own", "ok", "crash"), trtail=("own", "serve", "ids"), trcut=("cut", "deliv", "hang", "ids", "fail"), trsplit=("split",), trpage=("pure",),
                muxcut=("cut", "hang", "post"), trmeta=("recover",))

CUT_WHAT = {
    "cut": "a call whose response was cut did not end with an error (or, on the Transport, a later call to the same broker did not get a message) "
           "(C17: a response cut off at any byte yields an error; the next request must dial a fresh connection)",
    "deliv": "a Transport call received the answer to ANOTHER call's request",
    "hang": "after a cut response another pending / later request never returned, ignoring its deadline (2 s watchdog): on the Transport the dead "
            "connection was still on the idle list (hand-off blocks forever); on a kafka.Conn a waiter is parked on the read lock that the "
            "abandoning operation did not release (C06_conn_fatal_releases_lock)",
    "split": "one Transport call split into several exchanges delivered the answer of one exchange under the question of another (or lost / "
             "invented an answer): the results handed to the merger are not aligned with the sub-requests (C06_transport_split_aligned)",
    "own": "a call on a kafka.Conn returned a value that is not the answer to its own request: bytes of a fetch response that a Batch left unread "
           "(application-chosen message payload shaped like a response frame) were parsed as the next call's response",
    "acct": "Batch.Close returned with the connection left open but NOT at the frame boundary: part of the fetch response is still unread "
            "(C06_batch_close_at_boundary_or_closed)",
    "serve": "after a Batch.Close that left the connection open another call on the Conn failed (or Close itself never returned): it read left-over "
             "bytes of the fetch response instead of its own answer",
    "ok": "a Batch read or Close failed on a well-formed compressed record batch while Batches were open on other Conns "
          "(the pooled decompression buffer is shared by two live readers: C06_pool_buffer_exclusive needs one release per acquire)",
    "crash": "the scenario's process died: fatal runtime error (sync: unlock of unlocked mutex — the read lock was released twice, "
             "C06_batch_close_idempotent) or a panic",
    "post": "after a response was cut, a later operation on the same kafka.Conn did not fail, or still put a request on the wire",
    "recover": "the first metadata response of a fresh Transport was cut; afterwards Client.Metadata did not recover within 10 MetadataTTLs, or "
               "Writer.WriteMessages failed / did not deliver its record exactly once (C17: the Writer continues on a new connection)",
    "lin": "the recorded history of concurrent Conn operations is not a run of the ConnMux model",
    "pure": "a Fetch call read, from the records of ITS response, bytes of the response to another call's request (or its response became "
            "unreadable) after other calls were served on the same Transport: cross-talk through the protocol package's page pool",
    "ids": "a correlation id was used twice on one transport connection (C06_pool_ids_increasing)",
    "fail": "a transport connection carried another request after one of its exchanges had failed (C06_pool_failed_conn_final)",
}


def judge_monitor_case(c, m, keys):
    """Verdicts of the extracted monitors (m) and of the harness (c['go']) on a trlate / trcut case.
    Returns (property failure or None, correspondence failure or None)."""
    want = expected_model(c)
    inp = dict(case=c["line"], go=c["go"], feats=c["feats"], model=m)
    if c["go"].startswith(("HANG", "SETUP")):
        return dict(layer="property", key=None, what=f"{c['op']}: scenario did not run to its end: " + c["go"][:80],
                    detail=c["line"][:600], input=inp), None
    mv = dict(x.split("=") for x in (m or "").split(" ") if "=" in x)
    gv = dict(x.split("=", 1) for x in c["go"].split(" ") if "=" in x)
    bad = [k for k in keys if mv.get(k) == "BAD" or gv.get(k, "ok") != "ok"]
    pf = cf = None
    if bad:
        pf = dict(layer="property", key=None, what="; ".join(CUT_WHAT[k] for k in bad),
                  detail=c["line"][:900] + " -> " + c["go"][:200] + " | monitor: " + str(m), input=inp)
    if m != want:
        cf = dict(layer="correspondence", what=f"{c['op']}: the extracted monitors and the harness judge the recorded journal differently",
                  detail=json.dumps(dict(case=c["line"][:800], go=c["go"][:300], model=str(m)[:300])), input=None)
    return pf, cf


def _monitor_family(ctx, flags, rule, extra_key):
    model = L.ocaml_build("c06")
    base = dict(av=0, late=0, cut=0, split=0, page=0, muxcut=0, meta=0, batchrd=0, tail=0, poolx=0)
    base.update(flags)
    out, dt = run_harness(ctx, 0, 0, **base)
    cases = L.parse_cases(out)
    res = L.run_model(model, "\n".join(model_line(c) for c in cases) + "\n", timeout=600)
    failures = []
    for c in cases:
        c["line"] = f'{c["id"]} {c["op"]} {c["args"]}'
        pf, cf = judge_monitor_case(c, res.get(c["id"]), MON_KEYS[c["op"]])
        failures += [f for f in (pf, cf) if f]
    ev, dn, hist = L.coverage_counts(cases, trivial_feats=("",))
    return dict(evaluations=ev, distinct_nontrivial=dn, hist=hist, rule=rule,
                samples=[c["line"][:260] + " | " + c["go"][:100] + " | " + c["feats"] for c in cases[:2] + cases[-1:]],
                failures=failures[:20], notes=[], extra={extra_key: len(cases), "harness_wall_s": round(dt, 1)})


def transport_cut_cases(ctx, ncases=None, nmeta=None):
    """Transport half of C17 through kafka.Transport itself (also part of C06): harness ops trcut and
    trmeta only.  Same dict shape as correspondence()."""
    return _monitor_family(
        ctx, dict(cut=ncases if ncases is not None else ctx.scale(18, 300), meta=nmeta if nmeta is not None else ctx.scale(10, 100)),
        "Transport half of C17 through kafka.Transport (harness/cmd/c06): trcut = the answer to one call is cut after k bytes (inside the size prefix, "
        "inside the correlation id, at 8, in the body, all but the last byte) and the connection closed or left silent until the call's deadline; 1-3 "
        "followers of other APIs for the same connection group, each under its own deadline and a 2 s watchdog (monitors mon_cut, mon_delivery, "
        "mon_nohang, mon_ids, mon_fail);  trmeta = the FIRST metadata response of a fresh Transport is cut at k (0, size prefix, header, body, len-1), "
        "every later request answered: within 10 MetadataTTLs + slack Client.Metadata succeeds and Writer.WriteMessages delivers its record exactly once "
        "(monitor mon_recover)", "transport_cut_cases")


def conn_concurrent_cut_cases(ctx, ncases=None):
    """Concurrent kafka.Conn half of C17 (also part of C06): harness op muxcut only.  2-3 concurrent
    operations on one Conn, the answer to the first request cut at each position class; every pending
    call returns an error within its deadline (2 s watchdog), a later call fails and writes nothing."""
    return _monitor_family(
        ctx, dict(muxcut=ncases if ncases is not None else ctx.scale(24, 400)),
        "concurrent Conn half of C17 (harness/cmd/c06 op muxcut): 2-3 goroutines issue one operation each (ReadOffset, ReadPartitions, findCoordinator, "
        "offsetFetch, ApiVersions) on ONE kafka.Conn under a 300 ms connection deadline; the answer to the request that arrived first is cut after k "
        "bytes (0, size prefix, correlation id, 8, 9-11, mid-body, len-1) and the connection closed or left silent; every pending call must return an "
        "error before the 2 s watchdog, a later ReadOffset must fail without writing; judged by the extracted monitor mon_conn_cut and by the "
        "linearisation search of the ConnMux model", "conn_concurrent_cut_cases")


def setup():
    L.go_build("c06")
    L.ocaml_build("c06")


def run_harness(ctx, n, big, av=4, seed=None, late=None, cut=None, split=None, page=None, muxcut=None, meta=None, batchrd=None, tail=None, poolx=None):
    gobin = L.go_build("c06")
    rc, out, err, dt = L.sh([gobin, "-seed", str(seed if seed is not None else ctx.seed), "-n", str(n),
                             "-big", str(big), "-av", str(av), "-late", str(late if late is not None else ctx.scale(24, 300)),
                             "-cut", str(cut if cut is not None else ctx.scale(18, 300)),
                             "-split", str(split if split is not None else ctx.scale(40, 600)),
                             "-page", str(page if page is not None else ctx.scale(12, 200)),
                             "-muxcut", str(muxcut if muxcut is not None else ctx.scale(24, 400)),
                             "-meta", str(meta if meta is not None else ctx.scale(10, 100)),
                             "-batchrd", str(batchrd if batchrd is not None else ctx.scale(60, 1000)),
                             "-tail", str(tail if tail is not None else ctx.scale(30, 600)),
                             "-poolx", str(poolx if poolx is not None else ctx.scale(24, 400))], timeout=1500)
    if rc != 0:
        raise L.Fail("correspondence", "harness cmd/c06 crashed", (out[-1500:] + err[-2500:]))
    return out, dt


def correspondence(ctx):
    model = L.ocaml_build("c06")
    n = ctx.scale(250, 4000)
    big = ctx.scale(40, 600)
    texts = []
    cdir = os.path.join(L.CORPUS, "C06")
    if os.path.isdir(cdir):
        for f in sorted(os.listdir(cdir)):
            texts.append(open(os.path.join(cdir, f)).read())
    out, dt = run_harness(ctx, n, big)
    texts.append(out)
    cases = []
    for t in texts:
        for c in L.parse_cases(t):
            c["id"] = str(len(cases) + 1)
            cases.append(c)
    res = L.run_model(model, "\n".join(model_line(c) for c in cases) + "\n", timeout=1500)
    failures = []
    livelocks, norun = [], 0
    for c in cases:
        c["line"] = f'{c["id"]} {c["op"]} {c["args"]}'
        m = res.get(c["id"])
        want = expected_model(c)
        inp = dict(case=c["line"], go=c["go"], feats=c["feats"], model=m)
        # ---- the property predicate on the implementation's own output
        if foreign(c):
            failures.append(dict(layer="property", key=None,
                                 what="a call returned a value carrying another call's tag (foreign response delivered)",
                                 detail=c["line"][:600] + " -> " + c["go"][:300], input=inp))
            continue
        if c["op"] in ("avopen", "avstale"):
            # regression of the ApiVersions defect fixed by /repo 9708961: a time-out inside the
            # response body must close the connection, and the next call must not be handed bytes
            f = dict(x.split("=") for x in c["go"].split(" ") if "=" in x)
            if f.get("averr") == "1" and f.get("closed") != "1":
                failures.append(dict(layer="property", key=None,
                                     what="(*Conn).ApiVersions gave up on a read error and left the connection open "
                                          "(C06_conn_abandon_closes does not hold for the code)",
                                     detail=c["line"][:400] + " -> " + c["go"][:200], input=inp))
                continue
            if f.get("next") == "1" and "got" in f and f.get("got") != f.get("honest"):
                failures.append(dict(layer="property", key=None,
                                     what="bytes left over from an abandoned ApiVersions exchange were delivered to the next call as its response",
                                     detail=c["line"][:400] + " -> " + c["go"][:200], input=inp))
                continue
        if c["op"] in ("batchrd", "poolx") and c["go"].startswith(("CRASH", "HANG")):
            c = dict(c, go="crash=BAD:" + c["go"][:100].replace(" ", "_") + " own=ok acct=ok serve=ok")
        if c["op"] in ("trcut", "trsplit", "trpage", "muxcut", "trmeta", "batchrd", "poolx", "trtail"):
            if c["op"] == "trpage" and c["go"].startswith("ERR"):
                c = dict(c, go="pure=BAD:" + c["go"])
            pf, cf = judge_monitor_case(c, m, MON_KEYS[c["op"]])
            if pf:
                failures.append(pf)
            if cf:
                norun += 1
                failures.append(cf)
            continue
        if c["op"] == "trlate" and not c["go"].startswith(("HANG", "SETUP")):
            # verdicts of the monitors extracted from Model/TransportPool.v (mon_delivery / mon_ids / mon_fail)
            # on the recorded wire journal; the harness's own evaluation must agree (checked below)
            mv = dict(x.split("=") for x in (m or "").split(" ") if "=" in x)
            gv = dict(x.split("=", 1) for x in c["go"].split(" ") if "=" in x)
            bad = [k for k in ("deliv", "ids", "fail") if mv.get(k) == "BAD" or gv.get(k, "ok") != "ok"]
            if bad:
                what = {
                    "deliv": "a Transport call received the answer to ANOTHER call's request (late response of an abandoned exchange delivered to the next call on the pooled connection)",
                    "ids": "a correlation id was used twice on one transport connection (ids on a connection must be strictly increasing: C06_pool_ids_increasing)",
                    "fail": "a transport connection carried another request after one of its exchanges had failed (C06_pool_failed_conn_final)",
                }
                failures.append(dict(layer="property", key=None,
                                     what="; ".join(what[k] for k in bad),
                                     detail=c["line"][:900] + " -> " + c["go"][:200] + " | monitor: " + str(m), input=inp))
                if m == want:
                    continue
        if c["go"].startswith("HANG"):
            if "dup" in c["feats"].split(","):
                livelocks.append(inp)      # observation only, see notes (liveness is outside C06)
            else:
                failures.append(dict(layer="property", key=None,
                                     what="watchdog: the scenario did not terminate although the broker sent no duplicate answer",
                                     detail=c["line"][:600], input=inp))
                continue
            if c["op"] != "mux":
                continue
        # ---- correspondence with the model
        if c["op"] in ("muxbig", "trbig"):
            continue
        if m != want:
            norun += 1
            if len(failures) < 20:
                failures.append(dict(layer="correspondence",
                                     what=f"{c['op']}: no model run reproduces the recorded history" if m == "NORUN"
                                          else f"{c['op']}: model and implementation disagree",
                                     detail=json.dumps(dict(case=c["line"][:800], go=c["go"][:300], model=str(m)[:300], want=want[:300])),
                                     input=None))
    notes = []
    flaky = [c for c in cases if "flaky-retry" in c["feats"]]
    if flaky:
        notes.append("batchrd: %d scenario(s) reported a byte-accounting failure that did not reproduce on an immediate re-run of the same scenario (counted as passed): %s" % (len(flaky), flaky[0]["line"][:300] if "line" in flaky[0] else flaky[0]["args"][:300]))
    if livelocks:
        notes.append("OBSERVATION (liveness, outside C06's statement; not a failure): when the broker repeats an answer, the stale "
                     "frame at the head of the stream makes two or more waiters spin in (*Conn).waitResponse forever (Peek(8) is served "
                     "from the bufio buffer, so the connection deadline is never consulted; one waiter alone gets io.ErrNoProgress and "
                     "the connection stays open).  The model reproduces the livelock state for every such small history. %d scenarios "
                     "this run, e.g. `%s` -> HANG; recipe: build/bin/c06 -seed %d -n %d -big %d and look for HANG lines (feature dup)."
                     % (len(livelocks), livelocks[0]["case"][:200], ctx.seed, n, big))
    ev, dn, hist = L.coverage_counts(cases, trivial_feats=("", "kind=ro,threads=1", "kind=rp,threads=1", "kind=lo,threads=1"))
    per_op = {}
    for c in cases:
        per_op[c["op"]] = per_op.get(c["op"], 0) + 1
    ok_calls = sum(int(c["go"].split(" ")[0], 16) for c in cases if c["op"] in ("muxbig", "trbig") and not c["go"].startswith("HANG"))
    err_calls = sum(int(c["go"].split(" ")[1], 16) for c in cases if c["op"] in ("muxbig", "trbig") and not c["go"].startswith("HANG"))
    return dict(evaluations=ev, distinct_nontrivial=dn, hist=hist,
                rule="scenario programs from one PRNG (VERIF_SEED): wr = one waitResponse step on a scripted stream (own/foreign/absent head, "
                     "inflight 1-3, eof/time-out, ids incl. int32 extremes and one-byte differences); mux / tr = 1-3 concurrent calls on one "
                     "kafka.Conn / kafka.Transport against the scripted broker (permuted order, delay, drop, error code, cut, duplicate; conn "
                     "deadline, ctx cancel / deadline) checked by linearisation search against the extracted model (projection: order of requests "
                     "at the broker, order of complete answer frames per connection, outcome class per call); muxbig / trbig = 2-16 goroutines x "
                     "3-10 payload-tagged calls, predicate only (every returned value carries the caller's tag, every failure is an error); "
                     "trlate = one Transport call whose context deadline expires mid-exchange, the broker answers LATE (released by the next request on that connection / timed), 1-3 followers of the same connection group (fc, lo, of) within the idle timeout; the whole wire journal (conn, correlation id per request and answer frame) and the call results go through the monitors extracted from Model/TransportPool.v (mon_delivery, mon_ids, mon_fail);  trsplit = one Transport call that is SPLIT into several exchanges (listoffsets with several (partition, timestamp) questions over a 2-4 broker cluster, listgroups over all brokers; some broker connections pre-warmed, per-answer and handshake delays) judged by mon_split: every question gets exactly the answer the broker produced for it;  poolx = 2-3 kafka.Conn in one process (single P): an optional poisoning fetch (empty message set below the high watermark / set cut in its first batch header / partition error code), then Batches open on all Conns at once over compressed (gzip / snappy / lz4 / zstd, v1 and v2) batches whose values are tagged per Conn and record, read alternately, closed in any order: every value is the Conn's own next record, nothing fails (mon_batch_own, mon_all_served);  trtail = a Fetch through the Transport whose record set ends with a truncated batch of 1-60 bytes crafted as a frame header for the next correlation id, then 1-2 more tagged round trips on the pooled connection: all get their own answer (mon_batch_own, mon_all_served, mon_ids);  batchrd = one kafka.Conn, a fetch answer with several v1 / v2 batches (some gzip / snappy) whose values are copies of a forged ListOffsets frame for the next reader's correlation id; random Batch script (ReadMessage, Read with larger / equal / short buffer, a prefix of the messages), Close once or twice, hwm == offset, slow-drip past the read deadline, stop inside a compressed batch; 0-3 other tagged calls wait in waitResponse (answers held until Close returned and the byte accounting was taken) and one follows; each scenario in a child process (mon_batch_own / _acct / _serve);  muxcut = 2-3 concurrent operations on one kafka.Conn, the first answer cut at byte k (closed / silent): all return an error before the watchdog, nothing is written afterwards (mon_conn_cut + linearisation);  trmeta = first metadata response of a fresh Transport cut: Client.Metadata and a Writer recover (mon_recover);  trpage = 4-6 Client.Fetch calls on one Transport, record batches filled with the asking call's letter, call 0 closes the (nil / empty / non-empty) key and the value of each record it is done with while the other calls are served between its records (single P): no call reads a foreign byte (mon_pure);  trcut = the answer to one Transport call cut after k bytes (then closed / silent), 1-3 followers of the same connection group must each get their own answer on a fresh connection within their deadline (monitors mon_cut, mon_nohang, mon_delivery, mon_ids, mon_fail);  avopen / avstale = regression of the former ApiVersions defect (time-out inside the body must close; no left-over bytes delivered).  non-trivial = anything but a single undisturbed call",
                samples=[c["line"][:260] + " | " + c["go"][:100] for c in cases[:2] + cases[len(cases)//3:len(cases)//3+2]
                         + cases[2*len(cases)//3:2*len(cases)//3+2] + cases[-2:]],
                extra=dict(per_op=per_op, tagged_calls_ok=ok_calls, tagged_calls_err=err_calls,
                           model_disagreements=norun, harness_wall_s=round(dt, 1),
                           linearisation="full search (all interleavings of model labels, memoised) for every mux/tr history"),
                notes=notes, failures=failures)


def search(ctx, violations):
    """A layer broke without a concrete input: larger run with another seed; any FOREIGN /
    stale delivery found there is the failing input."""
    from checks import c10
    c10.annotate_skeleton_failure(ctx, violations, "SkeletonConn", "conn_assumptions", "Model/ConnMux.v / ConnOps.v", "conn.go / batch.go")
    c10.annotate_skeleton_failure(ctx, violations, "SkeletonTransport", "transport_assumptions", "Model/TransportPool.v", "transport.go")
    ctx.seed += 1000
    try:
        out, _ = run_harness(ctx, 1500, 200)
    except L.Fail:
        return None
    for c in L.parse_cases(out):
        if foreign(c):
            return dict(case=c["line"], go=c["go"], feats=c["feats"])
    return None


def replay(ctx, payload):
    inp = payload.get("input")
    if not inp:
        print("replay: no concrete input recorded; broken layer:", payload.get("broken"))
        print(payload.get("detail", "")[:3000])
        return 1
    print("replay case:", inp["case"][:600])
    print("go result at the time:", inp.get("go"), " model:", inp.get("model"))
    op = inp["case"].split(" ")[1]
    if op in ("avopen", "avstale"):
        out, _ = run_harness(ctx, 0, 0, av=3, seed=payload.get("seed", 1))
        print("re-run on the current tree (harness/cmd/c06 -n 0 -big 0 -av 3):")
        print(out)
        bad = [l for l in out.splitlines() if " closed=0 " in l or " next=1 " in l]
        return 1 if bad else 0
    model = L.ocaml_build("c06")
    c = L.parse_cases(inp["case"] + " | " + (inp.get("go") or "") + " | " + (inp.get("feats") or ""))[0]
    print("model now:", L.run_model(model, model_line(c) + "\n"))
    print("(scenario programs derive from the seed: re-run `build/bin/c06 -seed %s` to reproduce the schedule-dependent history)" % payload.get("seed"))
    return 1
