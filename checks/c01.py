"""C01 — Writer: acknowledged messages are in the log; failures are attributed exactly (DESIGN.md section 7).
Model coq/Model/Writer.v, theorems coq/Properties/C01.v; the run is shared with the other
Writer checks (checks/writer_common.py)."""
import checklib as L
from checks import writer_common as W

PROP = "C01"
TRUSTED_BASE = list(W.COMMON_TRUSTED) + [
    "RequiredAcks = RequireAll in every scenario (the property excludes RequireNone); compression, produce API versions and leader moves are not exercised at this level (wire path: C04/C05/C12)",
    "real time (back-off sleeps, time-outs) is abstracted to label order",
]
ASSUMPTIONS = [
    "message ids unique per writer; 1 <= BatchSize, 1 <= MaxAttempts (the effective values of batchSize()/maxAttempts() always are)",
    "the fake applies a produce request atomically when it receives it or not at all",
]


generate = W.generate   # regenerates coq/Gen/Skeleton.v (synchronisation skeleton) before the Coq build


def setup():
    W.setup()


def correspondence(ctx):
    out = W.correspondence_for(PROP, ctx, "C01 judges: C01_nil_holds, C01_we_holds, C01_compl_holds, C01_compl_total_holds, C01_no_foreign_holds, C01_dups_holds on every history.")
    # the acknowledgement as a real broker of every Produce version encodes it (hand-laid responses,
    # real kafka.Transport): checks/c05.py produce_version_cases — an applied and acknowledged batch is
    # reported as success, sent once, and each message is once in the log
    try:
        import importlib
        pv = importlib.import_module("checks.c05").produce_version_cases(ctx)
        out["failures"] = out.get("failures", []) + pv.get("failures", [])
        out["evaluations"] = out.get("evaluations", 0) + pv.get("evaluations", 0)
        out["distinct_nontrivial"] = out.get("distinct_nontrivial", 0) + pv.get("distinct_nontrivial", 0)
        out.setdefault("hist", {}).update(pv.get("hist", {}))
    except (ModuleNotFoundError, AttributeError):
        out.setdefault("notes", []).append("checks/c05.py has no produce_version_cases yet")
    return out


def search(ctx, violations):
    return W.search_for(PROP, ctx, violations)


def replay(ctx, payload):
    return W.replay(ctx, payload)
