"""C20 — malformed length fields cannot crash or balloon the client (DESIGN.md section 7, C20)."""
import json, collections
import checklib as L
from checks import schema_common as S

TRUSTED_BASE = [
    "Coq 8.16.1 kernel; vm_compute in the schema_ok obligation over the generated schemas; no native_compute",
    "translator harness/cmd/vgen regenerates coq/Gen/Schemas.v (incl. Go in-memory element sizes) from /repo on every run",
    "decoder model coq/Model/Schema.v with an allocation meter and explicit Panic/Oom outcomes, tied by running the REAL protocol.ReadResponse on systematically mutated frames in a child process under an address-space limit (ulimit -v) and comparing the outcome class with the extracted model",
    "allocation is modelled per allocation site (make / reflect.MakeSlice with the element size reported by reflect), not per Go allocator behaviour; the harness classifies a decode that allocated more than 1 GiB (runtime.MemStats.TotalAlloc) or died with 'out of memory' as oom",
    "record sets inside fetch responses are outside Model/Schema.v: for them only the implementation-side predicate (outcome is a message or an error) is evaluated on mutated frames",
]
ASSUMPTIONS = [
    "frames arrive through a discarder (protocol.Conn / bufio.Reader) as in Transport",
    "fields covered by a checksum are excluded, as the property says",
]

generate = S.generate
setup = S.setup

RESIDUAL_KEY = "F8b-alloc-follows-declared-frame-size"


def cls(s):
    p = str(s).split(" ")
    return p[0] + (" " + p[1] if p[0] == "err" and len(p) > 1 else "")


def correspondence(ctx):
    model = L.ocaml_build("c04")
    n = ctx.scale(1, 3)
    allc = S.gen_cases(ctx, n, 1, ctx.scale(3, 0))
    cases = [c for c in allc if c["op"] in ("dec", "decrec") and not c["feats"].startswith("cut")]
    # the cases that announce a huge frame AND a huge length kill the child (known residual F8b): run
    # them in a second pass, so that their deaths do not use up the restart budget of the others
    huge = [c for c in cases if "declared-huge" in c["feats"]]
    rest = [c for c in cases if "declared-huge" not in c["feats"]]
    res, restarts = S.run_dec_child(rest)
    if huge:
        res2, restarts2 = S.run_dec_child(huge, max_restarts=400)
        res.update(res2)
        restarts += restarts2
    for c in cases:
        c["go"] = res.get(c["id"], "not-run")
        if c["op"] == "decrec" and c["go"].startswith("ok"):
            c["go"] = "ok"
    mres = L.run_model(model, "\n".join(c["line"] for c in cases) + "\n")
    failures = []
    classes = collections.Counter()
    residual = 0
    for c in cases:
        k = cls(c["go"])
        classes[k] += 1
        if k == "not-run":
            continue
        if k in ("ok", "err eof", "err malformed"):
            continue
        # the implementation's own outcome violates C20
        if k == "oom" and "declared-huge" in c["feats"] and cls(mres.get(c["id"])) == "oom":
            residual += 1
            if residual == 1:
                failures.append(dict(layer="property", key=RESIDUAL_KEY,
                                     what="allocation follows the DECLARED frame size, not the bytes received (two malformed fields)",
                                     detail=c["line"][:300], input=dict(case=c["line"], go=c["go"])))
            continue
        failures.append(dict(layer="property", what=f"decoding a malformed frame ended in '{k}' instead of a message or an error ({c['feats']})",
                             detail=c["line"][:600], input=dict(case=c["line"], go=c["go"], model=mres.get(c["id"]))))
        if len(failures) > 12:
            break
    # outcome class and decoded value must be what the model predicts
    bad = [c for c in L.diff_cases([c for c in cases if c["op"] == "dec" and c["go"] != "not-run"], mres)]
    for c in bad[:8]:
        failures.append(dict(layer="correspondence", what=f"decoder model and real decoder disagree on a mutated frame ({c['feats']}): go={cls(c['go'])} model={cls(c.get('model'))}",
                             detail=json.dumps(dict(case=c["line"][:600], go=c["go"][:300], model=str(c.get("model"))[:300])), input=None))
    ev, dn, hist = L.coverage_counts(cases, trivial_feats=("",))
    # the one response the Transport reads outside ReadResponse: the raw (SaslHandshake v0) SASL
    # authentication response (checks/c18.py raw_sasl_alloc_cases; defect F28 was found there)
    notes = []
    raw_extra = {}
    try:
        import importlib
        rc = importlib.import_module("checks.c18").raw_sasl_alloc_cases(ctx)
        ev += rc.get("evaluations", 0)
        dn += rc.get("distinct_nontrivial", 0)
        hist.update(rc.get("hist", {}))
        failures += rc.get("failures", [])
        raw_extra = dict(raw_sasl_alloc_evaluations=rc.get("evaluations", 0), raw_sasl_worst=rc.get("worst"))
    except (ModuleNotFoundError, AttributeError):
        notes.append("checks/c18.py has no raw_sasl_alloc_cases yet")
    # above ReadResponse: kafka.Client's post-processing of decoded responses (indexing into
    # arrays, nested consumer-protocol blobs).  harness/cmd/c20cl: every Client method by
    # reflection, one count / length of one response mutated per call; a mutation that turns a
    # returning call into a panic is a violation (implementation-side predicate; not modelled).
    cl_extra = {}
    try:
        gobin = L.go_build("c20cl")
        rc, out, err, dt = L.sh([gobin, "-seed", str(ctx.seed), "-rounds", str(ctx.scale(2, 12))], timeout=1500)
        if rc != 0:
            failures.append(dict(layer="correspondence", what="harness cmd/c20cl failed", detail=(out[-800:] + err[-1500:]), input=None))
        else:
            n_cl, n_mut, base_panics, seen_keys = 0, 0, [], set()
            for line in out.splitlines():
                parts = [x.strip() for x in line.split(" | ")]
                if len(parts) < 3:
                    continue
                f = parts[0].split(" ")
                if len(f) < 6 or f[1] != "clcount":
                    continue
                method, api, site, mut = f[2], f[3], f[4], f[5]
                res = parts[1]
                n_cl += 1
                for ft in parts[2].split(","):
                    if ft.split("=")[0] in ("array", "bytes", "mutation", "base"):
                        hist["client:" + ft] = hist.get("client:" + ft, 0) + 1
                hist["client:outcome=" + res.split(":")[0]] = hist.get("client:outcome=" + res.split(":")[0], 0) + 1
                if mut == "base":
                    if res.startswith("panic") or res == "hang":
                        base_panics.append(f"{method}: {res}")
                    continue
                n_mut += 1
                if res.startswith("panic") or res == "hang":
                    key = "client-count-panic:%s:%s:%s" % (method, api, site)
                    if key in seen_keys:
                        continue
                    seen_keys.add(key)
                    failures.append(dict(layer="property", key=None,
                                         what=f"kafka.Client.{method} {'panicked' if res.startswith('panic') else 'hung'} on a response (api key {api}) whose only defect is a count / length taken from the wire: {site} made {mut} ({res[:160]})",
                                         detail=line[:600],
                                         input=dict(case=parts[0], go=res, seed=ctx.seed,
                                                    replay="build/bin/c20cl -seed %d -rounds %d -only %s" % (ctx.seed, ctx.scale(2, 12), method))))
            ev += n_cl
            dn += n_mut
            cl_extra = dict(client_layer_calls=n_cl, client_layer_mutations=n_mut,
                            client_layer_base_panics=sorted(set(base_panics)))
            if base_panics:
                notes.append("observation (outside the fields C20 lists): kafka.Client methods that panic on a response inconsistent with the request (e.g. naming a partition that was not asked): " + "; ".join(sorted(set(base_panics)))[:400])
    except L.Fail as f:
        failures.append(dict(layer="correspondence", what="harness cmd/c20cl could not be built", detail=str(getattr(f, "detail", ""))[-1500:], input=None))
    return dict(evaluations=ev, distinct_nontrivial=dn, hist=hist, notes=notes,
                rule="for every response schema without record sets: well-formed frames from the real encoder, then ONE length/count field at a time "
                     "(located by the independent layout encoder) replaced by each of {-1, 0, 1, rest, rest+1, max, min} (int16/int32), "
                     "{0,1,2,rest+1,rest+2,2^31,2^32,2^62,2^63,2^63+1,2^63+2,2^64-1, over-long 11/12/13-byte varints} (compact lengths, tag counts and sizes), "
                     "the frame size in {-1,0,3,len-5,len-3,2^31-1,-2^31}; plus frame-size AND count both huge; plus fetch responses with real v1/v2 record sets "
                     "mutated at every offset of the record-set region (32-bit values and single bytes) and cut; each decoded by the real ReadResponse in a child under ulimit -v; "
                     "non-trivial = any mutation; distinct by frame bytes.  Plus the raw SASL authentication response through the Transport (announced lengths exact / one more / 10^4..2^31-1 / negative "
                     "x payload sent x close|silence): no panic, no out-of-memory, TotalAlloc <= 1 MiB + 4 x bytes received.  Plus the Client layer (harness/cmd/c20cl): every exported method of kafka.Client, "
                     "arguments and base responses by reflection, then one array count (nil / empty / first element) or one bytes length (nil / empty / short prefixes) of one response mutated per call",
                samples=[c["line"][:200] + " | " + c["go"][:60] + " | " + c["feats"] for c in cases[:3] + cases[len(cases)//2:len(cases)//2+3]],
                failures=failures, extra=dict(outcome_classes=dict(classes), child_restarts=restarts, residual_declared_size_cases=residual, **raw_extra, **cl_extra))


def search(ctx, violations):
    return None


def replay(ctx, payload):
    inp = payload.get("input")
    if not inp:
        print("replay: no concrete input recorded; broken layer:", payload.get("broken"))
        print(payload.get("detail", "")[:3000])
        return 1
    S.generate()
    L.go_build("c04")
    print("case:", inp["case"][:400])
    res, _ = S.run_dec_child([dict(id=inp["case"].split(" ")[0], line=inp["case"])])
    print("real decoder now:", res)
    model = L.ocaml_build("c04")
    print("model now:", L.run_model(model, inp["case"] + "\n"))
    return 1
