"""C17 — a response cut off at any byte yields an error (DESIGN.md section 7, C17).
Transport half: protocol.ReadResponse on every prefix of well-formed frames (this file +
checks/schema_common.py).  Conn half: checks/c11.py's conn_cut_cases (legacy Conn)."""
import json, collections, importlib, time
import checklib as L
from checks import schema_common as S

TRUSTED_BASE = [
    "Coq 8.16.1 kernel; vm_compute in the schema_ok obligation over the generated schemas and in Examples; no native_compute",
    "translator harness/cmd/vgen regenerates coq/Gen/Schemas.v from /repo on every run",
    "decoder model coq/Model/Schema.v tied by fault enumeration: the REAL protocol.ReadResponse on every (thorough) / sampled (quick) prefix of frames produced by the real encoder, in a child process under ulimit -v, outcome class compared with the extracted model",
    "Conn half: coq/Model/ConnOps.v and harness/cmd/c11 (scripted peer sends k bytes then closes), see checks/c11.py",
    "'never blocks beyond its deadline' relies on net.Conn deadlines (runtime): only watchdogs observe it",
]
ASSUMPTIONS = [
    "frames arrive through a discarder (protocol.Conn / bufio.Reader) as in Transport",
    "resumption of Reader and Writer on a new connection is C02's / C01's theorem with the cut as one more fault label",
]

generate = S.generate


def setup():
    S.setup()
    try:
        c11 = importlib.import_module("checks.c11")
        if hasattr(c11, "setup"):
            c11.setup()
    except Exception:
        pass


def cls(s):
    p = str(s).split(" ")
    return p[0] + (" " + p[1] if p[0] == "err" and len(p) > 1 else "")


def correspondence(ctx):
    model = L.ocaml_build("c04")
    n = ctx.scale(1, 3)
    allc = S.gen_cases(ctx, n, ctx.scale(8, 0), 1)
    cases = [c for c in allc if (c["op"] == "dec" and c["feats"].startswith("cut")) or (c["op"] == "decrec" and c["feats"].endswith("cut"))]
    res, restarts = S.run_dec_child(cases)
    for c in cases:
        c["go"] = res.get(c["id"], "not-run")
    mres = L.run_model(model, "\n".join(c["line"] for c in cases) + "\n")
    failures = []
    classes = collections.Counter()
    for c in cases:
        k = cls(c["go"])
        classes[k] += 1
        if k == "not-run":
            continue
        if k.startswith("err"):
            continue
        what = {"ok": "a truncated response was decoded as if complete (fabricated / partially filled data)",
                "panic": "a truncated response made the decoder panic",
                "hang": "a truncated response made the decoder spin or block",
                "oom": "a truncated response made the decoder allocate out of proportion"}.get(k, f"a truncated response ended in '{k}'")
        failures.append(dict(layer="property", what="C17 transport: " + what + f" ({c['feats']})",
                             detail=c["line"][:600], input=dict(case=c["line"], go=c["go"], model=mres.get(c["id"]))))
        if len(failures) > 10:
            break
    bad = L.diff_cases([c for c in cases if c["op"] == "dec" and c["go"] != "not-run"], mres)
    for c in bad[:8]:
        failures.append(dict(layer="correspondence", what=f"decoder model and real decoder disagree on a truncated frame: go={cls(c['go'])} model={cls(c.get('model'))}",
                             detail=json.dumps(dict(case=c["line"][:600], go=c["go"][:200], model=str(c.get("model"))[:200])), input=None))
    ev, dn, hist = L.coverage_counts(cases, trivial_feats=("",))
    out = dict(evaluations=ev, distinct_nontrivial=dn, hist=hist,
               rule="Transport half: every response schema without record sets x frames from the real encoder x cut positions "
                    "(quick: k in {0,3,4,7,len-1} plus 8 random; thorough: every k), fetch responses with real v1/v2 record sets cut every 7 bytes; "
                    "the real ReadResponse runs on the prefix followed by end of stream; outcome class must be an error and equal the model's. "
                    "Conn half: see conn_* keys. non-trivial = every cut; distinct by frame bytes",
               samples=[c["line"][:160] + " | " + c["go"][:40] + " | " + c["feats"] for c in cases[:3] + cases[len(cases)//2:len(cases)//2+2]],
               failures=failures, extra=dict(transport_outcome_classes=dict(classes), child_restarts=restarts,
                                             exhaustive=bool(ctx.thorough)))
    # On a tree where a cut really is mishandled (a spinning reader, a leaked lock) every hosted family
    # below runs into its watchdogs; once a violation WITH a failing input is established and 150 s have
    # passed, the remaining families are skipped (noted) — on a tree where the property holds nothing is
    # ever skipped, because there is no failure.
    t_start = time.time()
    skipped = []

    class _Skipped:
        def __getattr__(self, name):
            def f(ctx):
                skipped.append(name)
                return dict(evaluations=0, distinct_nontrivial=0, failures=[], hist={}, samples=[], notes=[])
            return f

    def imp(name):
        established = any(f.get("layer") == "property" and f.get("input") for f in out["failures"])
        if established and time.time() - t_start > 150:
            return _Skipped()
        return importlib.import_module(name)

    # Conn half
    try:
        c11 = imp("checks.c11")
        conn = c11.conn_cut_cases(ctx)
        out["evaluations"] += conn.get("evaluations", 0)
        out["distinct_nontrivial"] += conn.get("distinct_nontrivial", 0)
        out["failures"] += conn.get("failures", [])
        out["extra"]["conn_cut_evaluations"] = conn.get("evaluations", 0)
        out["extra"]["conn_hist"] = conn.get("hist", {})
        out["samples"] += conn.get("samples", [])[:3]
    except ModuleNotFoundError:
        out.setdefault("notes", []).append("Conn half (checks/c11.py) not built yet")
    except AttributeError:
        out.setdefault("notes", []).append("checks/c11.py has no conn_cut_cases yet")
    # Conn half, compressed batches: every cut position of a compressed v2 payload (checks/c02.py compressed_cut_cases)
    try:
        cc = imp("checks.c02").compressed_cut_cases(ctx)
        out["evaluations"] += cc.get("evaluations", 0)
        out["distinct_nontrivial"] += cc.get("distinct_nontrivial", 0)
        out["failures"] += cc.get("failures", [])
        out["extra"]["compressed_cut_evaluations"] = cc.get("evaluations", 0)
        out["samples"] += cc.get("samples", [])[:2]
    except (ModuleNotFoundError, AttributeError):
        out.setdefault("notes", []).append("checks/c02.py has no compressed_cut_cases yet")
    # Transport half through kafka.Transport itself (pool behaviour after a cut response): checks/c06.py
    try:
        c06 = imp("checks.c06")
        tc = c06.transport_cut_cases(ctx)
        out["evaluations"] += tc.get("evaluations", 0)
        out["distinct_nontrivial"] += tc.get("distinct_nontrivial", 0)
        out["failures"] += tc.get("failures", [])
        out["extra"]["transport_pool_cut_evaluations"] = tc.get("evaluations", 0)
        out["extra"]["transport_pool_hist"] = tc.get("hist", {})
        out["samples"] += tc.get("samples", [])[:2]
        # concurrent operations on one kafka.Conn, first answer cut (checks/c06.py conn_concurrent_cut_cases)
        cc = c06.conn_concurrent_cut_cases(ctx)
        out["evaluations"] += cc.get("evaluations", 0)
        out["distinct_nontrivial"] += cc.get("distinct_nontrivial", 0)
        out["failures"] += cc.get("failures", [])
        out["extra"]["conn_concurrent_cut_evaluations"] = cc.get("evaluations", 0)
        out["extra"]["conn_concurrent_hist"] = cc.get("hist", {})
        out["samples"] += cc.get("samples", [])[:1]
    except (ModuleNotFoundError, AttributeError):
        out.setdefault("notes", []).append("checks/c06.py has no transport_cut_cases / conn_concurrent_cut_cases yet")
    # raw (SaslHandshake v0) SASL authentication response cut at every byte position, Conn and
    # Transport paths (checks/c18.py raw_sasl_cut_cases)
    try:
        sc = imp("checks.c18").raw_sasl_cut_cases(ctx)
        out["evaluations"] += sc.get("evaluations", 0)
        out["distinct_nontrivial"] += sc.get("distinct_nontrivial", 0)
        out["failures"] += sc.get("failures", [])
        out["extra"]["raw_sasl_cut_evaluations"] = sc.get("evaluations", 0)
        out["extra"]["raw_sasl_cut_hist"] = sc.get("hist", {})
        out["samples"] += sc.get("samples", [])[:2]
        out.setdefault("notes", []).extend(sc.get("notes", []))
    except (ModuleNotFoundError, AttributeError):
        out.setdefault("notes", []).append("checks/c18.py has no raw_sasl_cut_cases yet")
    # the Reader on a new connection after a cut fetch response: no record lost, duplicated or
    # reordered (checks/c02.py reader_cut_cases, real kafka.Reader, cut in every region of the frame)
    try:
        rc = imp("checks.c02").reader_cut_cases(ctx)
        out["evaluations"] += rc.get("evaluations", 0)
        out["distinct_nontrivial"] += rc.get("distinct_nontrivial", 0)
        out["failures"] += rc.get("failures", [])
        out["extra"]["reader_cut_evaluations"] = rc.get("evaluations", 0)
        out["extra"]["reader_cut_hist"] = rc.get("hist", {})
        out["samples"] += rc.get("samples", [])[:2]
        out.setdefault("notes", []).extend(rc.get("notes", []) or [])
    except (ModuleNotFoundError, AttributeError):
        out.setdefault("notes", []).append("checks/c02.py has no reader_cut_cases yet")
    # the Writer on a new connection after a cut produce response: C01's retry rule with the cut
    # as a lost acknowledgement, every retry carrying the same records (checks/writer_common.py)
    try:
        wc = imp("checks.writer_common").writer_cut_cases(ctx)
        out["evaluations"] += wc.get("evaluations", 0)
        out["distinct_nontrivial"] += wc.get("distinct_nontrivial", 0)
        out["failures"] += wc.get("failures", [])
        out["extra"]["writer_cut_evaluations"] = wc.get("evaluations", 0)
        out["extra"]["writer_cut_hist"] = wc.get("hist", {})
        out["samples"] += wc.get("samples", [])[:2]
    except (ModuleNotFoundError, AttributeError):
        out.setdefault("notes", []).append("checks/writer_common.py has no writer_cut_cases yet")
    # Client.ListOffsets / OffsetFetch through the real Transport with sub-responses cut at every
    # byte: a cut partition carries an error, never placeholder offsets (checks/c19.py listoffsets_cut_cases)
    try:
        lc = imp("checks.c19").listoffsets_cut_cases(ctx)
        out["evaluations"] += lc.get("evaluations", 0)
        out["distinct_nontrivial"] += lc.get("distinct_nontrivial", 0)
        out["failures"] += lc.get("failures", [])
        out["extra"]["listoffsets_cut_evaluations"] = lc.get("evaluations", 0)
        out["extra"]["listoffsets_cut_hist"] = lc.get("hist", {})
        out["samples"] += lc.get("samples", [])[:2]
    except (ModuleNotFoundError, AttributeError):
        out.setdefault("notes", []).append("checks/c19.py has no listoffsets_cut_cases yet")
    if skipped:
        out.setdefault("notes", []).append("violation with a failing input established and 150 s used: hosted families skipped: " + ", ".join(skipped))
    return out


def search(ctx, violations):
    return None


def replay(ctx, payload):
    inp = payload.get("input")
    if not inp:
        print("replay: no concrete input recorded; broken layer:", payload.get("broken"))
        print(payload.get("detail", "")[:3000])
        return 1
    S.generate()
    L.go_build("c04")
    print("case:", inp["case"][:400])
    res, _ = S.run_dec_child([dict(id=inp["case"].split(" ")[0], line=inp["case"])])
    print("real decoder now:", res)
    model = L.ocaml_build("c04")
    print("model now:", L.run_model(model, inp["case"] + "\n"))
    return 1
