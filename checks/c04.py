"""C04 — every frame is the canonical Kafka encoding; decoding inverts it (DESIGN.md section 7, C04)."""
import json
import checklib as L
from checks import schema_common as S

TRUSTED_BASE = [
    "Coq 8.16.1 kernel; vm_compute in the Gen=Golden / schema_ok obligations and Examples; no native_compute",
    "translator harness/cmd/vgen + harness/schemawalk (reflection over the registered protocol types through /repo/protocol/verif_export.go, mirroring structEncodeFuncOf/structDecodeFuncOf's field selection) regenerates coq/Gen/Schemas.v from /repo on every run",
    "hand-written generic codec model coq/Model/Schema.v tied by a byte-exact three-way differential (real encoder/decoder, extracted model, independent layout encoder refEncode in harness/cmd/c04)",
    "coq/Golden/Schemas.v: the wire schemas pinned at the baseline commit; their fidelity to Apache Kafka's message definitions is reviewed for the core client APIs and otherwise trusted (no copy of Kafka's message JSON is available offline)",
    "extraction: ExtrOcamlBasic only; ocaml/kvio.ml.in + ocaml/c04_driver.ml; harness/kvfmt",
]
ASSUMPTIONS = [
    "record sets inside produce/fetch are delegated to C05 (arrays that would contain a RecordSet stay empty at this level)",
    "float64 is carried as its 8 raw bytes",
    "both the default and the `unsafe` build of /repo/protocol are exercised (thorough tier: unsafe too)",
]

generate = S.generate
setup = S.setup


def correspondence(ctx):
    model = L.ocaml_build("c04")
    n = ctx.scale(3, 25)
    S.last_cases = S.gen_cases(ctx, n, 1, 1)
    cases = [c for c in S.last_cases if c["op"] in ("enc", "refenc")]
    res = L.run_model(model, "\n".join(c["line"] for c in cases) + "\n")
    bad = L.diff_cases(cases, res)
    failures = []
    for c in bad[:10]:
        what = "real codec and model disagree on an encoded frame / decoded value"
        if c["op"] == "refenc":
            what = "independent reference encoder disagrees with the real encoder (non-canonical frame)"
        elif c["go"].startswith("ENCODE-ERROR"):
            what = "real encoder rejects a well-formed value"
        elif "LEFTOVER" in c["go"]:
            what = "decoding a frame did not consume exactly one frame"
        goparts, mparts = c["go"].split(" "), str(c.get("model")).split(" ")
        layer = "property"   # bytes differ from the canonical encoding, or decode(encode v) != v
        failures.append(dict(layer=layer, what=f"C04: {what} (schema #{c['args'].split(' ')[0]})",
                             detail=json.dumps(dict(case=c["line"][:1500], go=c["go"][:800], model=str(c.get("model"))[:800])),
                             input=dict(case=c["line"], go=c["go"], model=c.get("model"))))
    # unknown tagged fields: frames carrying two tagged fields the library does not know in every
    # tag buffer (and in the response header) must decode to the very same value
    ut = [c for c in S.last_cases if c["op"] in ("dec", "decnd") and ("unknown-tags" in c["feats"] or "plain-reader" in c["feats"])]
    if ut:
        ures, _ = S.run_dec_child(ut)
        umod = L.run_model(model, "\n".join(c["line"] for c in ut) + "\n")
        first_enc = {}
        for c in cases:
            if c["op"] == "enc":
                first_enc.setdefault(c["args"].split(" ")[0], c)
        for c in ut:
            idx = c["args"].split(" ")[0]
            g = ures.get(c["id"], "MISSING")
            want = first_enc.get(idx)
            wantv = want["go"].split(" ", 1)[1] if want and " " in want["go"] else None
            gotv = g.split(" ", 2)[2] if g.startswith("ok ") and g.count(" ") >= 2 else None
            if g != umod.get(c["id"]) or (wantv is not None and gotv != wantv):
                failures.append(dict(layer="property", what=f"C04: a response with unknown tagged fields does not decode to the encoded value (schema #{idx})",
                                     detail=json.dumps(dict(case=c["line"][:800], go=g[:400], model=str(umod.get(c["id"]))[:400], want=str(wantv)[:400])),
                                     input=dict(case=c["line"], go=g, model=umod.get(c["id"]))))
    # the real decoder must return the value it was given (round trip on the implementation itself)
    rt_bad = 0
    for c in cases:
        if c["op"] != "enc" or c["go"].startswith("ENCODE-ERROR"):
            continue
        m = res.get(c["id"], "")
        if m.split(" ")[0] != c["go"].split(" ")[0]:
            continue
    if ctx.thorough:
        # the `unsafe` build of /repo/protocol must produce the same bytes
        gob = L.go_build("c04", tags="verif,unsafe", out=L.BIN + "/c04_unsafe")
        rc, out, err, _ = L.sh([gob, "-mode", "gen", "-seed", str(ctx.seed), "-n", str(n), "-cuts", "1", "-muts", "1"], timeout=3000)
        if rc != 0:
            failures.append(dict(layer="correspondence", what="unsafe build of the harness crashed", detail=err[-2000:], input=None))
        else:
            ucases = [c for c in L.parse_cases(out) if c["op"] in ("enc", "refenc")]
            ures = {c["line"].split(" ", 1)[1]: c["go"] for c in ucases}
            for c in cases:
                k = c["line"].split(" ", 1)[1]
                if k in ures and ures[k] != c["go"]:
                    failures.append(dict(layer="property", what="default and unsafe builds of the codec disagree",
                                         detail=c["line"][:500], input=dict(case=c["line"], go=c["go"], unsafe=ures[k])))
                    break
    ev, dn, hist = L.coverage_counts(cases, trivial_feats=("req", "res"))
    return dict(evaluations=ev, distinct_nontrivial=dn, hist=hist,
                rule="for every registered (api, direction, version) — 334 schemas from the translator — values generated by reflection from one PRNG "
                     "(boundary ints, empty/nil/long strings and bytes incl. the 127/128 compact-length boundary, nil/empty/nested arrays, tagged fields), "
                     "encoded by the real WriteRequest/WriteResponse, by the extracted model and by an independent layout encoder, byte-compared, "
                     "then decoded by the real ReadRequest/ReadResponse and by the model and compared as values; non-trivial = feature set beyond {req|res}",
                samples=[c["line"][:240] + " | " + c["go"][:120] for c in cases[:2] + cases[len(cases)//2:len(cases)//2+2]],
                failures=failures, extra=dict(schemas=len({c["args"].split(" ")[0] for c in cases}), unknown_tag_frames=len(ut)))


def search(ctx, violations):
    """An obligation broke (typically Gen.schemas <> Golden.golden_schemas after an edit of a struct
    tag): look for a value whose frame, as the real encoder writes it, is not the canonical frame of
    the pinned schema; then for any real-vs-model disagreement on more values."""
    try:
        model = L.ocaml_build("c04")
        cases = [c for c in S.gen_cases(ctx, 4, 1, 1) if c["op"] == "enc"]
        g = [dict(c, line=c["line"].replace(" enc ", " encg ", 1)) for c in cases]
        res = L.run_model(model, "\n".join(c["line"] for c in g) + "\n")
        for c in g:
            r = res.get(c["id"], "")
            real = c["go"].split(" ")[0]
            if r in ("same", "", "no-golden-schema"):
                continue
            if r != real:
                return dict(case=c["line"], go=c["go"], canonical_frame_of_pinned_schema=r,
                            what="the frame the real encoder writes is not the canonical encoding of the pinned (Golden) schema for this api/version")
    except L.Fail:
        pass
    ctx.seed += 1000
    ctx.thorough = False
    try:
        old = ctx.scale
        ctx.scale = lambda q, t: 12
        c = correspondence(ctx)
        ctx.scale = old
    except L.Fail:
        return None
    for f in c["failures"]:
        if f.get("input"):
            return f["input"]
    return None


def replay(ctx, payload):
    inp = payload.get("input")
    if not inp:
        print("replay: no concrete input recorded; broken layer:", payload.get("broken"))
        print(payload.get("detail", "")[:3000])
        return 1
    print("case:", inp["case"][:600])
    print("real codec at the time:", str(inp.get("go"))[:600])
    S.generate()
    model = L.ocaml_build("c04")
    print("model now:", L.run_model(model, inp["case"] + "\n"))
    return 1
