"""C04 — every frame is the canonical Kafka encoding; decoding inverts it (DESIGN.md section 7, C04)."""
import json, re
import checklib as L
from checks import schema_common as S

TRUSTED_BASE = [
    "Coq 8.16.1 kernel; vm_compute in the Gen=Golden / schema_ok obligations and Examples; no native_compute",
    "translator harness/cmd/vgen + harness/schemawalk (reflection over the registered protocol types through /repo/protocol/verif_export.go, mirroring structEncodeFuncOf/structDecodeFuncOf's field selection) regenerates coq/Gen/Schemas.v from /repo on every run",
    "hand-written generic codec model coq/Model/Schema.v tied by a byte-exact three-way differential (real encoder/decoder, extracted model, independent layout encoder refEncode in harness/cmd/c04)",
    "coq/Golden/Schemas.v: the wire schemas pinned at the baseline commit; their fidelity to Apache Kafka's message definitions is reviewed for the core client APIs and otherwise trusted (no copy of Kafka's message JSON is available offline)",
    "extraction: ExtrOcamlBasic only; ocaml/kvio.ml.in + ocaml/c04_driver.ml; harness/kvfmt",
    "Conn half: hand-written model coq/Model/ConnWriters.v of write.go / sizeof.go / protocol.go requestHeader / the request structs' size()+writeTo() / recordbatch.go, "
    "tied byte-exact to the real kafka.Conn (harness/cmd/c04conn over an in-memory net.Conn, hooks /repo/verif_export_c04.go + verif_export_c11.go/_c06.go) and, independently, "
    "to the protocol package (protocol.WriteRequest of the equivalent message, protocol.ReadRequest of the captured produce frames); ocaml/c04conn_driver.ml",
    "Conn half, response direction: coq/Model/Legacy.v + ConnOps.v (reader combinators of read.go, response grammars, inline readers; shared with C11/C17) and coq/Model/ConnReaders.v "
    "(reader table, consumer-group subscription/assignment blobs) tied to the real readers (readFrom()/read()/readFetchResponseHeaderVx/readMapStringInt32 through /repo/verif_export_c04b.go, "
    "Conn.ApiVersions on a scripted peer) by comparing the decoded Go value field by field; harness-side reference encoder checked against Legacy.enc; ocaml/c04connr_driver.ml",
    "pooling of encoder / decoder objects in protocol.Marshal / protocol.Unmarshal (sync.Pool; Reset between uses) is NOT modelled: in the model encode/decode are functions of their input "
    "alone (that statelessness is what C04_roundtrip quantifies over), and the real code's history-independence is tied dynamically by the `pool` family of harness/cmd/c04conn: valid "
    "Marshal->Unmarshal round trips of protocol/consumer Subscription/Assignment/TopicPartition and a harness-local type interleaved with failing decodes (truncated, version mismatch, garbage), "
    "on one goroutine and on four; ReadRequest/ReadResponse/WriteRequest/WriteResponse allocate their decoder/encoder per call (no pool)",
]
ASSUMPTIONS = [
    "record sets inside produce/fetch are delegated to C05 (arrays that would contain a RecordSet stay empty at this level)",
    "float64 is carried as its 8 raw bytes",
    "both the default and the `unsafe` build of /repo/protocol are exercised in both tiers (same generated values, encodings and decoded values compared)",
    "Conn half: compression is opaque (the harness's marking codec stands for the real codecs; what is handed to the codec is compared with the model's record/message bytes); "
    "CRC-32 / CRC-32C are those of coq/Lib/Crc.v; message times the Conn replaces by time.Now() (zero Message.Time) and deadline-derived timeouts are exercised through the "
    "writers directly (via=direct) with explicit values, through the Conn with no deadline set",
]

generate = S.generate


def setup():
    S.setup()
    L.go_build("c04", tags="verif,unsafe", out=L.BIN + "/c04_unsafe")
    L.go_build("c04conn")
    L.ocaml_build("c04conn")


# ---------------------------------------------------------------------------------------------
# the Conn half: the hand-written request codec of kafka.Conn
# ---------------------------------------------------------------------------------------------

def conn_rounds(ctx):
    return ctx.scale(20, 150)


def conn_gen(seed, n):
    gobin = L.go_build("c04conn")
    rc, out, err, dt = L.sh([gobin, "-seed", str(seed), "-n", str(n)], timeout=3000)
    if rc != 0:
        raise L.Fail("correspondence", "harness cmd/c04conn crashed", (out[-1500:] + err[-2500:]))
    return L.parse_cases(out)


def conn_judge(cases, res, canon):
    """Failure dicts and counters for the cases of cmd/c04conn.  res: the extracted ConnWriters
    model on every case line; canon: the generic schema model on the bytes the real Conn wrote."""
    failures, cnt = [], {}
    def bump(k):
        cnt[k] = cnt.get(k, 0) + 1
    seen = {}
    def fail(layer, what, c, **more):
        # at most two reports per kind of failure (the kind: the text without its numbers and its [api vN] tag)
        kind = re.sub(r"-?\d+", "#", what.split(" [")[0])
        seen[kind] = seen.get(kind, 0) + 1
        bump("FAIL:" + kind)
        if seen[kind] > 2 or len(failures) >= 10:
            return
        failures.append(dict(layer=layer, what="C04 (Conn): " + what,
                             detail=json.dumps(dict(case=c["line"][:1200], go=c["go"][:600], model=str(res.get(c["id"]))[:600],
                                                    feats=c["feats"], **more)),
                             input=dict(case=c["line"], go=c["go"], model=res.get(c["id"]), harness="c04conn", **more)))
    for c in cases:
        m = str(res.get(c["id"], "MISSING"))
        g = c["go"]
        feats = c["feats"].split(",")
        if c["op"] == "creq":
            a = c["args"].split(" ")
            api, ver = a[0], a[1]
            tag = f"{api} v{int(ver, 16)}"
            gt, mt = g.split(" "), m.split(" ")
            gframe, mframe = gt[0], mt[0]
            if m.startswith("EXN") or m in ("MISSING", "BADCASE"):
                fail("correspondence", f"model driver could not evaluate a case [{tag}]", c)
                continue
            if gframe == "PANIC":
                fail("property", f"the Conn panicked while writing a request [{tag}]", c)
                continue
            # (i) the property's predicate on the bytes the real Conn wrote
            raw = bytes.fromhex(gframe) if gframe != "." else b""
            if len(raw) < 14:
                fail("property", f"the Conn wrote no complete request header [{tag}]", c)
                continue
            announced = int.from_bytes(raw[:4], "big", signed=True)
            wellformed = announced == len(raw) - 4
            if not wellformed:
                fail("property", f"size prefix announces {announced} bytes but {len(raw) - 4} bytes follow it [{tag}]", c,
                     announced=announced, sent=len(raw) - 4)
            key, hver = int.from_bytes(raw[4:6], "big", signed=True), int.from_bytes(raw[6:8], "big", signed=True)
            hcorr = int.from_bytes(raw[8:12], "big", signed=True)
            cl = int.from_bytes(raw[12:14], "big", signed=True)
            want_client = bytes.fromhex(a[3]) if a[3] != "." else b""
            want_corr = int(a[2], 16)
            if hver != int(ver, 16) or hcorr != want_corr or cl != len(want_client) or raw[14:14 + max(cl, 0)] != want_client:
                fail("property", f"request header does not carry the version / correlation id / client id of the request [{tag}]", c,
                     header=dict(key=key, version=hver, corr=hcorr, client_len=cl))
            # (ii) the extracted ConnWriters model, byte for byte
            if gframe != mframe:
                layer = "property" if (not wellformed or canon.get(c["id"], "").startswith("canon=DIFF")) else "correspondence"
                fail(layer, f"real Conn and the ConnWriters model write different bytes [{tag}]", c, canon_of_real=canon.get(c["id"]))
                bump("frame:DIFF")
            else:
                bump("frame:same")
            # (iii) the generic schema model on the captured bytes
            cv = canon.get(c["id"], "MISSING")
            bump(cv.split(":")[0] if "DIFF" not in cv else cv)
            # (a pointer to "" as transactional id: only through the writers directly, the Conn never builds one)
            if cv == "canon=ok-nonnull-strings" and "empty-nullable-str" not in feats and "txid-empty-nonnull" not in feats:
                fail("property", f"frame is canonical only with nullable strings read as non-null, without an empty string in such a position [{tag}]", c)
            elif cv not in ("canon=ok", "canon=ok-nonnull-strings"):
                fail("property", f"the captured frame is not the canonical encoding under the regenerated schema ({cv}) [{tag}]", c, canon_of_real=cv)
            for x in mt[1:]:
                if x.startswith("inner="):
                    bump(x)
                    if x != "inner=ok":
                        fail("property", f"what the Conn handed to the compression codec is not the model's message set / records [{tag}]", c)
            # (iv) the protocol package on the same request
            for x in gt[1:]:
                k = x.split(":")[0]
                if "DIFF" in x:
                    bump(k + ":DIFF")
                    fail("property", f"the two codecs of the library disagree ({k}): protocol package vs Conn [{tag}]", c, verdict=x[:400])
                elif ":" in x and "skip" in x:
                    bump(x)
                else:
                    bump(x)
        elif c["op"] == "cresp":
            # response direction: the decoded Go value of a hand-written reader vs the Legacy/ConnOps/ConnReaders model
            a = c["args"].split(" ")
            tag = f"{a[0]} v{int(a[1], 16)}"
            gt = g.split(" ")
            gval = " ".join(gt[:2]) if gt[0] not in ("ERR", "PANIC") else gt[0]
            if m.startswith(("EXN", "ENC-DIFF")) or m in ("MISSING", "BADCASE"):
                fail("correspondence", f"response case not evaluated by the model driver ({m[:40]}) [{tag}]", c)
            elif gval == "PANIC":
                fail("property", f"a Conn response reader panicked on a well-formed response [{tag}]", c)
            elif gval != m:
                fail("property", f"a well-formed response does not decode to the field values that were encoded: Conn reader vs model [{tag}]", c)
                bump("resp:DIFF")
            else:
                bump("resp:same" if gval != "ERR" else "resp:same-error")
            x = gt[-1]
            if "DIFF" in x:
                bump("resp-proto:DIFF")
                fail("property", f"the protocol package decodes / re-encodes the same response differently [{tag}]", c, verdict=x[:400])
            else:
                bump("resp-" + x)
        elif c["op"] == "pool":
            # history-independence of the pooled encoder / decoder of protocol.Marshal / Unmarshal: the model's
            # decoder is a function of its input alone, so every valid round trip must return the value whatever
            # was decoded before
            a = c["args"].split(" ")
            steps, outs = a[1].split(","), g.split(",")
            if len(steps) != len(outs):
                fail("correspondence", "pool sequence: outcome count differs from step count", c)
                continue
            prev_failed = False
            for st, o in zip(steps, outs):
                st, o = st.split("/")[-1], o.split("/", 1)[-1] if "/" in o.split(":")[0] else o
                if st.startswith("v."):
                    bump("pool:valid-after-failure" if prev_failed else "pool:valid")
                    if o != "ok":
                        fail("property", f"protocol.Unmarshal(protocol.Marshal(v)) did not return v after earlier decodes on the pooled decoder ({a[0]} goroutine mode, step {st}: {o[:80]})", c)
                        bump("pool:BAD")
                    prev_failed = False
                else:
                    bump("pool:failing")
                    if o != "err":
                        fail("correspondence", f"pool sequence: a decode meant to fail did not ({st}: {o[:60]})", c)
                    prev_failed = True
        elif c["op"] == "neg":
            a = c["args"].split(" ")
            sup = [int(x, 16) for x in a[2].split(",")]
            if g != m:
                fail("correspondence", "negotiated version differs from the model's apiVersionMap.negotiate", c)
            if g not in ("none",) and "/" not in g and not g.startswith(("PANIC", "WRONG", "SHORT")):
                v = int(g, 16)
                if a[1] == "-":
                    bump("neg:not-advertised-sent-v%d" % v)
                    if v != 0:
                        fail("property", "a version above 0 was sent for an API the broker did not advertise", c)
                else:
                    lo, hi = [int(x, 16) for x in a[1].split(":")]
                    if v > hi or v not in sup:
                        fail("property", f"request version {v} is above the advertised maximum {hi} or not supported by the client", c)
                    bump("neg:below-advertised-min" if v < lo else "neg:within-range")
            elif g == "none":
                bump("neg:none-sent")
            else:
                fail("property", "version negotiation misbehaved: " + g[:80], c)
        else:
            if g != m:
                fail("correspondence", f"{c['op']}: real Conn and model disagree", c)
            bump(c["op"] + (":same" if g == m else ":DIFF"))
    return failures, cnt


def conn_correspondence(ctx):
    model = L.ocaml_build("c04conn")
    n = conn_rounds(ctx)
    rmodel = L.ocaml_build("c04connr")
    cases = conn_gen(ctx.seed, n)
    res = L.run_model(model, "\n".join(c["line"] for c in cases if c["op"] not in ("cresp", "pool")) + "\n")
    res.update(L.run_model(rmodel, "\n".join(c["line"] for c in cases if c["op"] == "cresp") + "\n"))
    # the generic schema model on the bytes the real Conn wrote
    lines = []
    for c in cases:
        if c["op"] != "creq":
            continue
        a = c["args"].split(" ")
        fr = c["go"].split(" ")[0]
        if fr in ("PANIC", "."):
            continue
        key = int.from_bytes(bytes.fromhex(fr[8:12]), "big", signed=True) if len(fr) >= 12 else 0
        lines.append(f"{c['id']} canonf {L_hex(key)} {a[1]} {a[2]} {a[3]} {fr}")
    canon = L.run_model(model, "\n".join(lines) + "\n") if lines else {}
    failures, cnt = conn_judge(cases, res, canon)
    for f in failures:
        f["input"]["seed"], f["input"]["rounds"] = ctx.seed, n
    ev, dn, hist = L.coverage_counts(cases, trivial_feats=("",))
    return dict(cases=cases, failures=failures, evaluations=ev, distinct_nontrivial=dn,
                hist={"conn:" + k: v for k, v in hist.items()}, counters=cnt, rounds=n)


def L_hex(v):
    return ("-%x" % -v) if v < 0 else ("%x" % v)


def correspondence(ctx):
    model = L.ocaml_build("c04")
    n = ctx.scale(3, 25)
    S.last_cases = S.gen_cases(ctx, n, 1, 1)
    cases = [c for c in S.last_cases if c["op"] in ("enc", "refenc")]
    res = L.run_model(model, "\n".join(c["line"] for c in cases) + "\n")
    bad = L.diff_cases(cases, res)
    failures = []
    for c in bad[:10]:
        what = "real codec and model disagree on an encoded frame / decoded value"
        if c["op"] == "refenc":
            what = "independent reference encoder disagrees with the real encoder (non-canonical frame)"
        elif c["go"].startswith("ENCODE-ERROR"):
            what = "real encoder rejects a well-formed value"
        elif "LEFTOVER" in c["go"]:
            what = "decoding a frame did not consume exactly one frame"
        goparts, mparts = c["go"].split(" "), str(c.get("model")).split(" ")
        layer = "property"   # bytes differ from the canonical encoding, or decode(encode v) != v
        failures.append(dict(layer=layer, what=f"C04: {what} (schema #{c['args'].split(' ')[0]})",
                             detail=json.dumps(dict(case=c["line"][:1500], go=c["go"][:800], model=str(c.get("model"))[:800])),
                             input=dict(case=c["line"], go=c["go"], model=c.get("model"))))
    # unknown tagged fields: frames carrying two tagged fields the library does not know in every
    # tag buffer (and in the response header) must decode to the very same value
    ut = [c for c in S.last_cases if c["op"] in ("dec", "decnd") and ("unknown-tags" in c["feats"] or "plain-reader" in c["feats"])]
    if ut:
        ures, _ = S.run_dec_child(ut)
        umod = L.run_model(model, "\n".join(c["line"] for c in ut) + "\n")
        first_enc = {}
        for c in cases:
            if c["op"] == "enc":
                first_enc.setdefault(c["args"].split(" ")[0], c)
        for c in ut:
            idx = c["args"].split(" ")[0]
            g = ures.get(c["id"], "MISSING")
            want = first_enc.get(idx)
            wantv = want["go"].split(" ", 1)[1] if want and " " in want["go"] else None
            gotv = g.split(" ", 2)[2] if g.startswith("ok ") and g.count(" ") >= 2 else None
            if g != umod.get(c["id"]) or (wantv is not None and gotv != wantv):
                failures.append(dict(layer="property", what=f"C04: a response with unknown tagged fields does not decode to the encoded value (schema #{idx})",
                                     detail=json.dumps(dict(case=c["line"][:800], go=g[:400], model=str(umod.get(c["id"]))[:400], want=str(wantv)[:400])),
                                     input=dict(case=c["line"], go=g, model=umod.get(c["id"]))))
    # the real decoder must return the value it was given (round trip on the implementation itself)
    rt_bad = 0
    for c in cases:
        if c["op"] != "enc" or c["go"].startswith("ENCODE-ERROR"):
            continue
        m = res.get(c["id"], "")
        if m.split(" ")[0] != c["go"].split(" ")[0]:
            continue
    if True:
        # the `unsafe` build of /repo/protocol must produce the same bytes and decode to the same
        # values (both tiers: the property names both builds of the reflection-driven codec)
        gob = L.go_build("c04", tags="verif,unsafe", out=L.BIN + "/c04_unsafe")
        rc, out, err, _ = L.sh([gob, "-mode", "gen", "-seed", str(ctx.seed), "-n", str(n), "-cuts", "1", "-muts", "1"], timeout=3000)
        if rc != 0:
            failures.append(dict(layer="correspondence", what="unsafe build of the harness crashed", detail=err[-2000:], input=None))
        else:
            ucases = [c for c in L.parse_cases(out) if c["op"] in ("enc", "refenc")]
            ures = {c["line"].split(" ", 1)[1]: c["go"] for c in ucases}
            for c in cases:
                k = c["line"].split(" ", 1)[1]
                if k in ures and ures[k] != c["go"]:
                    failures.append(dict(layer="property", what="default and unsafe builds of the codec disagree",
                                         detail=c["line"][:500], input=dict(case=c["line"], go=c["go"], unsafe=ures[k])))
                    break
    ev, dn, hist = L.coverage_counts(cases, trivial_feats=("req", "res"))
    # ---- the Conn half: real kafka.Conn vs the ConnWriters model vs the generic schema model vs the protocol package
    cc = conn_correspondence(ctx)
    failures += cc["failures"]
    ev += cc["evaluations"]
    dn += cc["distinct_nontrivial"]
    hist.update(cc["hist"])
    # ---- hosted families of sibling checks that judge this property's clauses on other paths
    notes = []
    import importlib
    for modname, fn, label in (("checks.c18", "sasl_framing_cases", "SASL exchange framing per negotiated versions (Dialer and Transport)"),
                               ("checks.c05", "frame_sweep_cases", "frame back-patching across 64 KiB page boundaries"),
                               ("checks.c11", "split_cases", "Conn decoding of responses delivered in two segments, boundary at every byte")):
        try:
            hc = getattr(importlib.import_module(modname), fn)(ctx)
            failures += hc.get("failures", [])
            ev += hc.get("evaluations", 0)
            dn += hc.get("distinct_nontrivial", 0)
            hist.update(hc.get("hist", {}))
        except (ModuleNotFoundError, AttributeError):
            notes.append(f"{modname} has no {fn} yet ({label})")
    return dict(evaluations=ev, distinct_nontrivial=dn, hist=hist, notes=notes,
                rule="for every registered (api, direction, version) — 334 schemas from the translator — values generated by reflection from one PRNG "
                     "(boundary ints, empty/nil/long strings and bytes incl. the 127/128 compact-length boundary, nil/empty/nested arrays, tagged fields), "
                     "encoded by the real WriteRequest/WriteResponse, by the extracted model and by an independent layout encoder, byte-compared, "
                     "then decoded by the real ReadRequest/ReadResponse and by the model and compared as values; non-trivial = feature set beyond {req|res}. "
                     "Conn half (op creq/neg/fetchmin/saslraw): every operation of kafka.Conn at every version it can negotiate (produce 2/3/7, fetch 2/5/10, list-offsets 1, metadata 1/6, "
                     "find-coordinator 0, join-group 1/2, sync-group 0, heartbeat 0, leave-group 0, offset-commit 2, offset-fetch 1, list-groups 1, api-versions 0, create-topics 0/1/2, "
                     "delete-topics 0/1, sasl-handshake 0/1, sasl-authenticate 0, raw sasl token) run on an in-memory connection whose ApiVersions answer pins the version, generated arguments "
                     "(nil/empty/long keys, values, strings; headers; equal, sub-millisecond, distinct and zero message times; 1..70 messages; boundary ints; default/explicit client id); the bytes "
                     "written are (i) checked against the property directly (size prefix = bytes that follow, header fields), (ii) compared byte for byte with the extracted ConnWriters model, "
                     "(iii) decoded and re-encoded by the generic schema model under the regenerated schemas (canonical), (iv) compared with protocol.WriteRequest of the equivalent protocol "
                     "message / decoded by protocol.ReadRequest; negotiated versions against random advertised ranges. Response direction (op cresp): for each of the 29 hand-written response readers "
                     "(13 response structs at every version incl. reflective metadata v1/v6, produce/list-offsets partition structs, fetch headers v2/v5/v10, ApiVersions through the Conn, the consumer-group "
                     "metadata and assignment blobs) wire values generated from the grammar (arrays null/0/1/2/3/4-6 at every level, maps with several and duplicate topics, null/empty/long strings and "
                     "bytes, boundary ints), encoded by a reference encoder (= Legacy.enc, checked), decoded by the real reader; the rendered Go value and remaining size must equal the model's, and "
                     "the protocol package must re-encode the frame identically / decode the blobs to the same fields. Pooled codec objects (op pool): sequences of protocol.Marshal->Unmarshal round trips "
                     "interleaved with failing Unmarshal calls, single goroutine and 4 goroutines; every valid round trip must return the value",
                samples=[c["line"][:240] + " | " + c["go"][:120] for c in cases[:2] + cases[len(cases)//2:len(cases)//2+2]]
                        + [c["line"][:240] + " | " + c["go"][:120] for c in cc["cases"][12:13] + cc["cases"][40:41]],
                failures=failures, extra=dict(schemas=len({c["args"].split(" ")[0] for c in cases}), unknown_tag_frames=len(ut),
                                              conn_requests=cc["evaluations"], conn_rounds=cc["rounds"], conn_verdicts=cc["counters"]))


def search(ctx, violations):
    """An obligation broke (typically Gen.schemas <> Golden.golden_schemas after an edit of a struct
    tag): look for a value whose frame, as the real encoder writes it, is not the canonical frame of
    the pinned schema; then for any real-vs-model disagreement on more values."""
    try:
        model = L.ocaml_build("c04")
        cases = [c for c in S.gen_cases(ctx, 4, 1, 1) if c["op"] == "enc"]
        g = [dict(c, line=c["line"].replace(" enc ", " encg ", 1)) for c in cases]
        res = L.run_model(model, "\n".join(c["line"] for c in g) + "\n")
        for c in g:
            r = res.get(c["id"], "")
            real = c["go"].split(" ")[0]
            if r in ("same", "", "no-golden-schema"):
                continue
            if r != real:
                return dict(case=c["line"], go=c["go"], canonical_frame_of_pinned_schema=r,
                            what="the frame the real encoder writes is not the canonical encoding of the pinned (Golden) schema for this api/version")
    except L.Fail:
        pass
    # the Conn half: more rounds with other seeds; a failing case line is itself the replay input
    try:
        model = L.ocaml_build("c04conn")
        for k in range(1, 4):
            sub = type(ctx)(ctx.prop, "quick", ctx.seed + 7000 * k)
            sub.scale = lambda q, t: 20
            cc = conn_correspondence(sub)
            for f in cc["failures"]:
                if f.get("input") and f["layer"] == "property":
                    return f["input"]
    except L.Fail:
        pass
    ctx.seed += 1000
    ctx.thorough = False
    try:
        old = ctx.scale
        ctx.scale = lambda q, t: 12
        c = correspondence(ctx)
        ctx.scale = old
    except L.Fail:
        return None
    for f in c["failures"]:
        if f.get("input"):
            return f["input"]
    return None


def replay(ctx, payload):
    inp = payload.get("input")
    if not inp:
        print("replay: no concrete input recorded; broken layer:", payload.get("broken"))
        print(payload.get("detail", "")[:3000])
        return 1
    print("case:", inp["case"][:600])
    print("real codec at the time:", str(inp.get("go"))[:600])
    S.generate()
    if inp.get("harness") == "c04conn":
        # the generator is deterministic: the same seed and number of rounds give the same case line
        model = L.ocaml_build("c04conn")
        cid = inp["case"].split(" ", 1)[0]
        now = [c for c in conn_gen(inp.get("seed", 1), inp.get("rounds", 6)) if c["id"] == cid and c["line"] == inp["case"]]
        print("real Conn now:", now[0]["go"][:600] if now else "(the generator no longer produces this line)")
        if " cresp " in inp["case"]:
            model = L.ocaml_build("c04connr")
        print("Conn model now:", L.run_model(model, inp["case"] + "\n"))
        return 1
    model = L.ocaml_build("c04")
    print("model now:", L.run_model(model, inp["case"] + "\n"))
    return 1
