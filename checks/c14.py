"""C14 — consumer-group balancers Range / RoundRobin / RackAffinity (DESIGN.md section 7, C14).

Line format of harness/cmd/c14 (see the head of its main.go):
  <id> <op> <members> <partitions> | <go result> | <features>
  members    = "-" | id:topics:userdata;...        topics = "-" | hex,hex,...
  partitions = "-" | topic:id:rack;...
  result     = canonical GroupMemberAssignments  mid=thex:p,p+thex:p;mid=-;...  ("-" = no key)
               range/rr: "<canonical> perm=same|DIFF";  rack: distinct results of 8 runs joined by "/"
Model (ocaml/c14_driver.ml): range/rr the same canonical string; rack per topic
  thex=alt/alt/...;thex=~alt   with alt = mid:p,p+mid:p  (the per-topic projection), one alt per
  pair of zone iteration orders; "~" = orders not enumerated.
Leader path, ops lrange / lrr / lrack: <partitions> is the CLUSTER held by a fake broker; the real
  ConsumerGroup.assignTopicPartitions (kafka.VerifAssignTopicPartitions) asks it for extractTopics(members).
  The broker fails a request naming a topic it has no partition of (UnknownTopicOrPartition); the leader
  then asks topic by topic (when > 1 topics).  Every request is journalled.
  Each leader case runs several rounds of kafka.VerifLeaderJoinSync (real joinGroup as leader -> assignTopicPartitions
  -> syncGroup / makeSyncGroupRequestV0); the SyncGroup request the coordinator receives is decoded by hand in the harness.
  go result  = "<distinct canonical returned assignments joined by '/'> req=<r1>;<r2>;... wire=<distinct canonical
               decoded SyncGroup requests joined by '/'> wirediff=<rounds with wire != returned>"  r = hex,hex | -
               + " own=BAD" / " sync=BAD" / " WIREDUPMEMBER" only when wrong
               (ERR:<msg> / PANIC instead of <canonical>; req=none when no request was made; WIREERR:<why> / NOWIRE as wire)
  model      = "<as range/rr/rack on leader_partitions> req=<leader_requests>" + for lrange/lrr
               " wire=<canonical wire_triples (sync_request assignment)>" (lrack: wire checked per topic against the alternatives)
  The predicates judge the output against the CLUSTER, not against what was requested.
"""
import hashlib, json, os, subprocess
import checklib as L

TRUSTED_BASE = [
    "Coq 8.16.1 kernel (coqc; coqchk in the thorough tier); vm_compute used only in non-vacuity Examples; no native_compute",
    "hand-written model coq/Model/GroupBalancers.v of /repo/groupbalancer.go, tied by the differential run of harness/cmd/c14 (real AssignGroups, build tag verif) against the OCaml extraction (ExtrOcamlBasic only: bool/option/unit/list/prod/sumbool mapped; nat, positive, N, Z kept as Coq datatypes)",
    "leader path: extract_topics / read_partitions / leader_* of the same model file mirror extractTopics (reader.go) and ConsumerGroup.assignTopicPartitions with its per-topic fallback after UnknownTopicOrPartition (other read errors are not modelled); the real function is driven through /repo/verif_export_c14.go (coordinator seam: only readPartitions is replaced, by a fake broker in harness/cmd/c14 that journals every request, fails a request naming a topic of which the cluster lists no partition with UnknownTopicOrPartition as a whole, and otherwise returns the cluster's partitions of exactly the requested topics in cluster order — that this is how a broker behaves through Conn.ReadPartitions is trusted); the leader ops run the real joinGroup (as leader members[0], config.Topics = its topics) and syncGroup through /repo/verif_export_c14b.go and judge the SyncGroup request the coordinator receives: its raw member assignments are decoded by hand in harness/cmd/c14 (version 1, topics, int32 partitions, userdata, no trailing bytes) and must equal the model's sync_request of the assignment (exactly for range/roundrobin, per topic one of the alternatives for rack-affinity) and satisfy the same predicates as the assignment; each case runs 3..10 rounds so that Go's map iteration orders vary",
    "sort.Slice in findMembersByTopic is modelled as an insertion sort by member id; the two agree when ids are distinct (compared on every run, not verified)",
    "Go map iteration order: never used by the Range/RoundRobin model (association lists in insertion order, results canonicalised before comparison); the two 'range zonedPartitions' loops of RackAffinity.assignTopic take their iteration orders as explicit parameters of the model, and the differential accepts a Go result iff it is the model's result for SOME pair of orders (all pairs enumerated when a topic has <= 3 leader racks, <= 4 for small topics)",
    "Go slice semantics: s[:k] with k > len(s) is the model outcome None (the real code panics beyond cap and reads stale elements below it); append never aliases because every appended-to slice is owned by one map entry",
    "ocaml/kvio.ml.in + ocaml/c14_driver.ml (hex interchange, canonicalisation, permutation enumeration, ~150 lines), harness/kvfmt and the canonicalisation/feature code of harness/cmd/c14",
    "the property predicates of checks/c14.py (exactly-once, subscribers only, floor/ceil loads, range/round-robin formulas, rack affinity bound) are a hand transcription of the theorem statements",
]
ASSUMPTIONS = [
    "member ids are pairwise distinct and no member lists a topic twice (the broker hands out unique member ids; duplicate topics in a subscription are not excluded by kafka-go and are outside the theorems)",
    "number of members and of partitions < 2^31 so that memberIndex*partitionCount does not overflow Go's int (64-bit int assumed); up to 60 members x 300 partitions exercised in the differential, every size in the theorems",
    "RackAffinity: a member's rack is string(UserData), a partition's rack is Leader.Rack; the result may depend on Go's map iteration order — the theorems hold for every order, the differential samples 8 runs per case",
]

MAXFAIL = 20


# ----------------------------------------------------------------------------- parsing

def hx(s):
    return b"" if s == "." else bytes.fromhex(s)


def hexint(s):
    return -int(s[1:], 16) if s.startswith("-") else int(s, 16)


class Group:
    """members: [(id, [topics], rack)] in listing order (all hex tokens);
    subs: topic -> [member ids] in listing order; listed: topic -> [(partition id, rack)]."""
    __slots__ = ("members", "ids", "subs", "listed", "rack", "hyp_ok")

    def __init__(self, args):
        ms, ps = args.split(" ")
        self.members, self.subs, self.listed, self.rack = [], {}, {}, {}
        self.hyp_ok = True
        if ms != "-":
            for e in ms.split(";"):
                i, ts, ud = e.split(":")
                tl = [] if ts == "-" else ts.split(",")
                if len(set(tl)) != len(tl) or i in self.rack:
                    self.hyp_ok = False
                self.members.append((i, tl, ud))
                self.rack[i] = ud
                for t in tl:
                    self.subs.setdefault(t, []).append(i)
        if ps != "-":
            for e in ps.split(";"):
                t, i, r = e.split(":")
                self.listed.setdefault(t, []).append((hexint(i), r))


def parse_assign(s):
    """canonical GroupMemberAssignments -> {mid: {topic: [ints]}}; None for PANIC / ERR:..."""
    if s == "PANIC" or s.startswith("ERR:"):
        return None
    a = {}
    if s == "-":
        return a
    for e in s.split(";"):
        mid, ts = e.split("=")
        d = a.setdefault(mid, {})
        if ts != "-":
            for x in ts.split("+"):
                t, l = x.split(":")
                d[t] = [hexint(v) for v in l.split(",")]
    return a


def fmt_ints(l):
    return ",".join(("-%x" % -v) if v < 0 else ("%x" % v) for v in l)


def project(asg, t):
    """per-topic projection in the model driver's form: mid:p,p+mid:p (sorted by id), '-' if none."""
    ents = [(hx(mid), mid + ":" + fmt_ints(tm[t])) for mid, tm in asg.items() if tm.get(t)]
    ents.sort()
    return "+".join(e[1] for e in ents) if ents else "-"


def parse_rack_model(s):
    """-> {topic: (enumerated, [alts])}"""
    res = {}
    if s == "-":
        return res
    for e in s.split(";"):
        t, alts = e.split("=", 1)
        if alts.startswith("~"):
            res[t] = (False, [alts[1:]])
        else:
            res[t] = (True, alts.split("/"))
    return res


# ----------------------------------------------------------------------------- the property on an output

def req_violations(G, req):
    """leader ops, the journal of metadata requests r1;r2;...: the first asks for the sorted set of
    all subscribed topics; if that names a topic the cluster lacks and has > 1 topics it is followed
    by exactly one single-topic request per topic, in the same order; otherwise by nothing."""
    topics = sorted(G.subs, key=hx)
    want = [",".join(topics) or "-"]
    if len(topics) > 1 and any(t not in G.listed for t in topics):
        want += topics
    want = ";".join(want)
    if req != want:
        return [("req", f"the leader's metadata requests were [{req}]; the members subscribe to [{want.split(';')[0]}]"
                        f" and the cluster lacks [{','.join(t for t in topics if t not in G.listed)}], so they must be [{want}]")]
    return []


def violations(op, G, asg, raw="", listed_word="listed"):
    """C14's predicates on one output of the implementation: [(kind, text)]."""
    if asg is None:
        if raw.startswith("ERR:"):
            return [("error", "assignTopicPartitions failed: " + raw[:200])]
        return [("panic", "AssignGroups panicked")]
    v = []
    subs, listed = G.subs, G.listed
    for mid, tm in asg.items():
        if mid not in G.rack:
            v.append(("non-member", f"assignment for {mid} which is not a member"))
        for t in tm:
            if mid not in subs.get(t, ()):
                v.append(("non-subscriber", f"member {mid} was assigned partitions of topic {t} it does not subscribe to"))
    topics = set(subs) | set(listed)
    for tm in asg.values():
        topics.update(tm)
    for t in topics:
        got = sorted(p for tm in asg.values() for p in tm.get(t, ()))
        exp = sorted(p for p, _ in listed.get(t, ())) if subs.get(t) else []
        if got != exp:
            v.append(("multiset", f"topic {t}: assigned partitions {got} are not exactly the {listed_word} partitions {exp}"))
    for t, sl in subs.items():
        parts = [p for p, _ in listed.get(t, ())]
        P, M = len(parts), len(sl)
        q = P // M
        for mid in sl:
            n = len(asg.get(mid, {}).get(t, ()))
            if n != q and n != q + 1:
                v.append(("evenness", f"topic {t}: member {mid} has {n} partitions, floor is {q} (P={P}, M={M})"))
        if op in ("range", "rr"):
            for i, mid in enumerate(sorted(sl, key=hx)):
                want = parts[i * P // M:(i + 1) * P // M] if op == "range" else parts[i::M]
                if asg.get(mid, {}).get(t, []) != want:
                    v.append(("formula", f"topic {t}: subscriber #{i} {mid} got {asg.get(mid, {}).get(t, [])}, "
                                         f"{'contiguous run' if op == 'range' else 'every M-th'} is {want}"))
        if op == "rack":
            rk = dict(listed.get(t, ()))
            for z in set(rk.values()):
                nz = sum(1 for r in rk.values() if r == z)
                mz = [mid for mid in sl if G.rack[mid] == z]
                inz = sum(1 for mid in mz for p in asg.get(mid, {}).get(t, ()) if rk.get(p) == z)
                if inz < min(nz, len(mz) * q):
                    v.append(("affinity", f"topic {t} rack {z}: {inz} of its {nz} partitions stay in the rack, "
                                          f"{len(mz)} members there with floor {q}"))
    return v


def member_keys_ok(G, asg):
    """range/rr: every member with >= 1 topic has a key (not part of the property; the model has it)."""
    return set(asg) == {i for i, tl, _ in G.members if tl}


# ----------------------------------------------------------------------------- evaluation of a batch of cases

def evaluate(cases, res, st):
    """cases: parse_cases dicts (ids renumbered); res: model results; st: accumulator."""
    fails = st["failures"]

    def fail(c, layer, kind, what, model, with_input=True):
        st["nfail"] += 1
        if len(fails) >= MAXFAIL:
            return
        model = res.get(c["id"])   # the driver's whole line (leader ops: including req=)
        f = dict(layer=layer, what=f"{c['op']}: {what}"[:400], key=f"C14:{c['op']}:{kind}",
                 detail=json.dumps(dict(case=c["line"][:2000], go=c["go"][:600], model=str(model)[:600])))
        f["input"] = dict(case=c["line"], go=c["go"], model=model) if with_input else None
        fails.append(f)

    for c in cases:
        op, model = c["op"], res.get(c["id"])
        try:
            G = Group(c["args"])
        except Exception:
            fail(c, "correspondence", "badcase", "unparsable case", model, False)
            continue
        if not G.hyp_ok:
            st["outside_hypothesis"] += 1
            continue
        if model is None or model.startswith(("EXN", "BAD", "MODELINCONSISTENT")):
            fail(c, "correspondence", "driver",
                 "model driver self-check failed (rack_assign / rack_assign_canonical / rack_assign_topic disagree)"
                 if model == "MODELINCONSISTENT" else f"model driver gave {model}", model, False)
            continue
        reported = False
        leader = op in ("lrange", "lrr", "lrack")
        base = op[1:] if leader else op
        gores, req_vs, req_agree = c["go"], [], True
        wires, mwire, marker_vs = [], None, []
        if leader:
            # go: <returned> req=<journal> wire=<w1/w2/..> wirediff=<n> [own=BAD] [sync=BAD] [WIREDUPMEMBER]
            parts = c["go"].split(" ")
            gores = parts[0]
            kv = dict(x.split("=", 1) if "=" in x else (x, "") for x in parts[1:])
            req = kv.get("req", "none")
            mparts = model.split(" ")
            model = mparts[0]
            mkv = dict(x.split("=", 1) for x in mparts[1:])
            mreq, mwire = mkv.get("req"), mkv.get("wire")
            req_vs = req_violations(G, req)
            req_agree = req == mreq
            wires = kv.get("wire", "NOWIRE").split("/")
            st["leader_cases"] += 1
            st["wire_results"] += len(wires)
            if len(wires) > 1:
                st["wire_multi"] += 1
            if kv.get("wirediff", "?") != "0":
                marker_vs.append(("wire", f"in {kv.get('wirediff')} round(s) the SyncGroup request the coordinator received differs from the assignment AssignGroups returned"))
            if "own" in kv:
                marker_vs.append(("wire", "the leader's own assignment decoded from the SyncGroup response is not its entry of the request"))
            if "sync" in kv:
                marker_vs.append(("wire", "SyncGroup request carries the wrong member id or generation"))
            if "WIREDUPMEMBER" in kv:
                marker_vs.append(("wire", "a member id occurs twice in the SyncGroup request"))
            for W in wires:
                if W.startswith("WIREERR") or (W == "NOWIRE" and not gores.startswith(("ERR:", "PANIC"))):
                    marker_vs.append(("wire", f"SyncGroup request: {W}"))
            fs = c["feats"].split(",")
            for f in fs:
                if f.startswith("rounds="):
                    st["wire_rounds"] += int(f[7:])
            for tg, k in (("new-after-seen", "leader_new_after_seen"), ("fallback", "leader_fallback"),
                          ("fallback-beyond-leader", "leader_fallback_beyond_leader")):
                if tg in fs:
                    st[k] += 1
        if base in ("range", "rr"):
            if leader:
                go, perm = gores, "perm=same"
            else:
                go, _, perm = gores.rpartition(" ")
            asg = parse_assign(go)
            vs = violations(base, G, asg, go, "cluster's" if leader else "listed") + req_vs
            if perm != "perm=same":
                vs.append(("perm", "result depends on the listing order of members/topics (same group shuffled gave another assignment)"))
            wire_agree = True
            for W in wires:
                if W == "NOWIRE" or W.startswith("WIREERR"):
                    continue
                vs += [("wire-" + k, "SyncGroup request as received by the coordinator: " + t)
                       for k, t in violations(base, G, parse_assign(W), W, "cluster's")]
                if W != mwire:
                    wire_agree = False
            vs += marker_vs
            if go != model or not req_agree or not wire_agree:
                reported = True
                if vs:
                    fail(c, "property", vs[0][0], vs[0][1], model)
                else:
                    fail(c, "correspondence", "diff", "model and code differ but the output satisfies the property"
                         + ("" if asg is None or member_keys_ok(G, asg) else " (member keys differ)"), model, False)
            if vs and not reported:
                fail(c, "property", vs[0][0], vs[0][1], model)
        elif base == "rack":
            alts = parse_rack_model(model)
            model_panics = any("PANIC" in a for _, a in alts.values())
            if model_panics:
                st["rack_model_panic"] += 1
            for t, (enum, a) in alts.items():
                st["rack_topics_enum" if enum else "rack_topics_noenum"] += 1
                if enum:
                    st["rack_alts_max"] = max(st["rack_alts_max"], len(a))
                    if len(a) > 1:
                        st["rack_topics_multi_alt"] += 1
            runs = gores.split("/")
            if len(runs) > 1:
                st["rack_go_multi"] += 1
            for R in runs:
                st["rack_go_results"] += 1
                asg = parse_assign(R)
                vs = violations(base, G, asg, R, "cluster's" if leader else "listed") + req_vs
                if asg is None:
                    agree = model_panics and req_agree
                else:
                    agree = req_agree and all(t in alts for tm in asg.values() for t in tm)
                    for t, (enum, a) in alts.items():
                        if enum and project(asg, t) not in a:
                            agree = False
                if vs:
                    fail(c, "property", vs[0][0], vs[0][1] + f" (run result {R[:200]})", model)
                    break
                if not agree:
                    fail(c, "correspondence", "diff", "code's result is not the model's result for any zone iteration order, "
                         "but the output satisfies the property", model, False)
                    break
            else:
                # what the coordinator received (leader ops): every distinct wire result
                for W in wires:
                    if W == "NOWIRE" or W.startswith("WIREERR"):
                        continue
                    wasg = parse_assign(W)
                    vs = [("wire-" + k, "SyncGroup request as received by the coordinator: " + t)
                          for k, t in violations(base, G, wasg, W, "cluster's")]
                    if vs:
                        fail(c, "property", vs[0][0], vs[0][1] + f" (wire {W[:200]})", model)
                        break
                    agree = all(t in alts for tm in wasg.values() for t in tm)
                    for t, (enum, a) in alts.items():
                        if enum and project(wasg, t) not in a:
                            agree = False
                    if not agree:
                        fail(c, "correspondence", "diff", "the SyncGroup request is not the model's result for any zone iteration "
                             "order, but it satisfies the property", model, False)
                        break
                else:
                    if marker_vs:
                        fail(c, "property", marker_vs[0][0], marker_vs[0][1], model)
            if model_panics and "PANIC" not in runs:
                # the model says some iteration order panics: a refutation candidate even if Go did not hit it
                fail(c, "property", "panic", "model: RackAffinity panics for some map iteration order (not hit by the 8 real runs)", model)
        else:
            fail(c, "correspondence", "badop", "unknown op", model, False)
            continue
        st["evaluations"] += 1
        feats = c["feats"].split(",") if c["feats"] else [""]
        for f in feats:
            k = op + ":" + f
            st["hist"][k] = st["hist"].get(k, 0) + 1
        if "exh" in feats:
            st["exhaustive_cases"] += 1
        if "trivial" not in feats:
            st["seen"].add(hashlib.sha1((op + " " + c["args"]).encode()).digest())


def new_state():
    return dict(failures=[], nfail=0, evaluations=0, hist={}, seen=set(), exhaustive_cases=0, outside_hypothesis=0,
                rack_topics_enum=0, rack_topics_noenum=0, rack_topics_multi_alt=0, rack_alts_max=0,
                rack_go_multi=0, rack_go_results=0, rack_model_panic=0, leader_cases=0, leader_new_after_seen=0, leader_fallback=0,
                leader_fallback_beyond_leader=0, wire_rounds=0, wire_results=0, wire_multi=0)


def _work(job):
    """One chunk: run the model on it and evaluate (runs in a worker process)."""
    model, start, lines = job
    cases = L.parse_cases("\n".join(lines))
    for k, c in enumerate(cases):
        c["id"] = str(start + k + 1)
        c["line"] = c["id"] + " " + c["op"] + " " + c["args"]
    st = new_state()
    res = L.run_model(model, "\n".join(c["line"] for c in cases) + "\n", timeout=3000)
    evaluate(cases, res, st)
    st["samples"] = [c["line"][:300] + " | " + c["go"][:120] for c in cases[:3] + cases[-2:]]
    return st


def _chunks(model, paths, chunk):
    start, buf = 0, []
    for p in paths:
        with open(p) as f:
            for l in f:
                if l.strip():
                    buf.append(l.rstrip("\n"))
                    if len(buf) == chunk:
                        yield (model, start, buf)
                        start += len(buf)
                        buf = []
    if buf:
        yield (model, start, buf)


def run_differential(model, paths, chunk, workers):
    """Cases are read from files in chunks; every chunk is given to the model and evaluated."""
    st = new_state()
    samples, last = [], []
    jobs = _chunks(model, paths, chunk)
    pool = None
    try:
        if workers > 1:
            import multiprocessing
            pool = multiprocessing.get_context("fork").Pool(workers)
    except Exception:
        pool = None
    try:
        it = pool.imap(_work, jobs) if pool else map(_work, jobs)
        for k, s in enumerate(it):
            for key in s:
                if key in ("failures", "samples"):
                    continue
                if key == "hist":
                    for h, v in s["hist"].items():
                        st["hist"][h] = st["hist"].get(h, 0) + v
                elif key == "seen":
                    st["seen"] |= s["seen"]
                elif key == "rack_alts_max":
                    st[key] = max(st[key], s[key])
                else:
                    st[key] += s[key]
            st["failures"] += s["failures"][:MAXFAIL - len(st["failures"])]
            if k == 0:
                samples += s["samples"][:3]
            last = s["samples"]
        samples += last[-5:]
    finally:
        if pool:
            pool.terminate()
    return st, samples[:8]


def setup():
    L.go_build("c14")
    L.ocaml_build("c14")


def correspondence(ctx):
    gobin = L.go_build("c14")
    model = L.ocaml_build("c14")
    n = ctx.scale(2500, 50000)
    scope = ctx.scale(1, 2)
    paths = []
    cdir = os.path.join(L.CORPUS, "C14")
    if os.path.isdir(cdir):
        paths += [os.path.join(cdir, f) for f in sorted(os.listdir(cdir))]
    os.makedirs(os.path.join(L.BUILD, "cases"), exist_ok=True)
    gen = os.path.join(L.BUILD, "cases", "c14-%d.txt" % os.getpid())
    try:
        with open(gen, "w") as f:
            p = subprocess.run([gobin, "-seed", str(ctx.seed), "-n", str(n), "-exhaustive", str(scope)],
                               stdout=f, stderr=subprocess.PIPE, text=True, timeout=3000)
        if p.returncode != 0:
            raise L.Fail("correspondence", "harness cmd/c14 crashed", p.stderr[-3000:])
        paths.append(gen)
        st, samples = run_differential(model, paths, ctx.scale(4000, 20000), min(8, L.NCPU))
    finally:
        if os.path.exists(gen):
            os.remove(gen)
    notes = []
    if st["nfail"] > len(st["failures"]):
        notes.append(f"{st['nfail']} failing cases, first {len(st['failures'])} recorded")
    if st["outside_hypothesis"]:
        notes.append(f"{st['outside_hypothesis']} corpus cases skipped: duplicate member ids or topics (outside C14's hypotheses)")
    extra = {k: st[k] for k in ("exhaustive_cases", "rack_topics_enum", "rack_topics_noenum", "rack_topics_multi_alt",
                                "rack_alts_max", "rack_go_results", "rack_go_multi", "rack_model_panic",
                                "leader_cases", "leader_new_after_seen", "leader_fallback", "leader_fallback_beyond_leader",
                                "wire_rounds", "wire_results", "wire_multi")}
    extra["exhaustive_scope"] = (
        "range/rr: all listing orders of <=%d members (ids '', m, m1, m10) x subscriptions over 2 topics (4^M, members without topics included) "
        "x 0..%d / 0..%d partitions of the two topics; rack one topic: %s; rack two topics (each member a non-empty subset): %s"
        % ((3, 4, 2, "<=3 members x 0..4 partitions x 3 racks ('', a, b), racks of members and leaders in all ways",
            "<=2 members x 0..2 partitions each x 2 racks") if scope == 1 else
           (4, 6, 3, "<=4 members x 0..6 partitions x 3 racks ('', a, b), racks of members and leaders in all ways",
            "<=3 members x 0..3 partitions each x 2 racks")))
    extra["exhaustive_scope"] += (
        "; leader path (lrange, lrr, lrack each): <=3 members, every member's topic list any duplicate-free ordered list over 3 topics "
        "(16 lists incl. the empty one, 16^M groups) x %s"
        % ("5 small clusters (all topics present + an unsubscribed one; t, u, v each missing on its own; two missing), all three balancers on the "
           "first two, one balancer each on the others" if scope == 1 else
           "10 small clusters (0..2 partitions per topic: none / each one / two / all three topics missing, with and without an unsubscribed topic)"))
    return dict(evaluations=st["evaluations"], distinct_nontrivial=len(st["seen"]), hist=st["hist"],
                rule="random groups from one PRNG (VERIF_SEED): 1..8 members (10%: 9..60), distinct ids with shared prefixes / empty id / "
                     "high bytes in unsorted listing order, 1..3 topics with full, partial, empty and ghost subscriptions, 0..20 (large: 0..300) "
                     "partitions per topic with contiguous, permuted or sparse ids, topics interleaved, orphan topics, 1..5 racks incl. the empty "
                     "rack, racks without members / without leaders; the same groups (more topics, mostly heterogeneous overlapping subscriptions in "
                     "shuffled order, topics missing from / extra in the cluster) through the leader path assignTopicPartitions against a fake broker "
                     "(3 to 10 rounds each, the SyncGroup request decoded from its raw bytes and judged like the returned assignment) "
                     "that fails requests naming a topic it lacks (about 40% of the random leader cases have a subscribed topic missing, in every position of the "
                     "sorted request; also the only topic missing, all missing); plus the small-scope enumeration (extra.exhaustive_scope). Each case runs the "
                     "real AssignGroups (range/rr also on shuffled listings, rack 8 times), is compared with the extracted model (exact for "
                     "range/rr, membership among the results over all zone iteration orders for rack) and every output is checked against the "
                     "property's predicates. A case is non-trivial unless its features are the happy path (one topic, everybody subscribed, "
                     "P divisible by M and >= M, sorted ids, partition ids 0..P-1 in order, one rack); distinct by hash of op+args",
                samples=samples, failures=st["failures"], extra=extra, notes=notes)


def search(ctx, violations):
    """A layer broke without a concrete input: run the thorough differential with another seed and
    return the first case on which the implementation's own output violates the property."""
    ctx.seed += 1000
    ctx.tier = "thorough"
    ctx.thorough = True
    try:
        c = correspondence(ctx)
    except L.Fail:
        return None
    for f in c["failures"]:
        if f.get("input"):
            return f["input"]
    return None


def replay(ctx, payload):
    """Re-run the recorded case on the real code (harness -case) and on the model."""
    inp = payload.get("input")
    if not inp:
        print("replay: no concrete input recorded; broken layer:", payload.get("broken"))
        print(payload.get("detail", "")[:3000])
        return 1
    case = inp["case"]
    print("replay case:", case[:800])
    print("go result at the time:", str(inp.get("go"))[:800])
    print("model at the time:    ", str(inp.get("model"))[:800])
    gobin = L.go_build("c14")
    model = L.ocaml_build("c14")
    op_args = case.split(" ", 1)[1]
    rc, out, err, _ = L.sh([gobin, "-seed", str(ctx.seed), "-rackruns", "500", "-wirerounds", "300", "-case", op_args], timeout=600)
    if rc != 0:
        print("harness failed:", err[-2000:])
        return 1
    cases = L.parse_cases(out)
    for c in cases:
        c["line"] = c["id"] + " " + c["op"] + " " + c["args"]
    res = L.run_model(model, "\n".join(c["line"] for c in cases) + "\n")
    print("go result now:", cases[0]["go"][:800])
    print("model now:    ", str(res.get(cases[0]["id"]))[:800])
    st = new_state()
    evaluate(cases, res, st)
    for f in st["failures"]:
        print(f"STILL FAILING layer={f['layer']}: {f['what']}")
    if not st["failures"]:
        print("the case no longer fails")
        return 0
    return 1
