"""C11 — a kafka.Conn stays usable after broker-reported errors and is never reused misaligned;
also the Conn half of C17 (conn_cut_cases).  DESIGN.md section 7, C11 / C17."""
import json, os, re
import checklib as L

TRUSTED_BASE = [
    "Coq 8.16.1 kernel (coqc; coqchk in the thorough tier); vm_compute only in refutation witnesses and non-vacuity Examples; no native_compute",
    "hand-written models coq/Model/Legacy.v (read.go, discard.go: peekRead, readInt*, readStringWith, readBytesWith, readNewBytes, readArrayWith, discardN/String/Bytes, reflective read) and coq/Model/ConnOps.v (per-operation response readers of conn.go / read.go fetch headers / readFrom methods, waitResponse, Conn.do, ApiVersions, ReadBatchWith + Batch.close), tied by the differential run of harness/cmd/c11 (real kafka.Conn over a scripted in-memory net.Conn, build tag verif, hooks /repo/verif_export_c11.go) against the OCaml extraction (ExtrOcamlBasic only)",
    "the reference encoder of the response grammars: Model/Legacy.v enc + Model/ConnOps.v resp_ty (written from the Kafka protocol guide) and its independent Go twin in harness/cmd/c11 that generates the frames; fidelity to the protocol guide is trusted",
    "bufio.Reader (Peek/Discard/ReadFull semantics at end of stream), net.Conn and the Go runtime are modelled (stream = list of bytes, end of list = io.EOF), not verified",
    "ocaml/kvio.ml.in + ocaml/c11_driver.ml (hex interchange, result printer) and the harness's fake connection (request header parse, scripted frames, cut position, hang detection)",
]
ASSUMPTIONS = [
    "one goroutine uses the Conn at a time (waitResponse with concurrency() = 1); concurrent waiters are C10/C06's business",
    "a well-formed response answers exactly the one topic / one partition the Conn asked for (produce, fetch, list-offsets); frame size < 2^31",
    "no read deadline expires during an exchange (checkTimeoutErr yields io.EOF, never RequestTimedOut); fetch = ReadBatchWith followed by Batch.Close without reading a message (reading the message set is C02's model; PART C checks the C17 predicate on fetch + ReadMessage directly on the implementation); SASL raw (unframed, handshake v0) authentication and compressed message sets are not modelled",
    "io.ErrNoProgress (a response with a foreign correlation id) does not close the Conn: with one goroutine and the aligned streams proved here it needs a misbehaving broker",
]

F2_KEYS = {
    "produce": "F2-produce-error-leaves-throttle",
    "fetch-partition": "F2-fetch-partition-error-leaves-messageset",
    "fetch-toplevel": "F2-fetch-v10-toplevel-error-leaves-body",
}
KEY_HWM = "C11-fetch-hwm-eq-offset-leaves-messageset"
KEY_CROSS = "C11-noprogress-keeps-conn-foreign-frame-accepted"
KEY_APIV = "C17-apiversions-cut-conn-not-closed"
KEY_FCLOSE = "C17-fetch-close-swallows-cut"
KEY_TAIL = "C17-error-response-cut-in-unread-tail"

# fixed regression case appended to the generated ones (ids continue): the former
# cross-interpretation witness (Properties/C11.v C11_regression_former_cross_interpretation)
# replayed on the real Conn: produce v2 error 6 with throttle 6, then heartbeats.
def _hb(i):
    return "00000006%08x0000" % i
CROSS_CASE = ("run 74 produce:2:0,heartbeat:0:0,heartbeat:0:0,heartbeat:0:0,heartbeat:0:0 "
              "0000002900000002000000010001740000000100000000000600000000000000050000000000000007" "00000006,"
              + ",".join(_hb(i) for i in (3, 4, 5, 6)) + " -")
CROSS_FEATS = "fixed,cross,op=producev2,field=partition,code=6,next=heartbeatv0"


# malformed counts (ApiVersions array -1, fetch v5 aborted transactions -2) used to panic (the
# second with the read lock held: the next call hung); now an error and the Conn is closed
NEG_CASES = [
    "run 74 apiversions:0:0,heartbeat:0:0 0000000a000000020000ffffffff,00000006000000030000 - | | fixed,negcount,op=apiversionsv0",
    "run 74 fetch:5:3,heartbeat:0:0 0000003500000002000000000000000100017400000001000000000000000000000000000a000000000000000a0000000000000000fffffffe,00000006000000030000 - | | fixed,negcount,op=fetchv5",
]


def feats_of(c):
    d = c.get("_f")
    if d is not None:
        return d
    d = {}
    txt = c["feats"]
    i = txt.find("want=[")
    if i >= 0:
        j = txt.find("]", i)
        d["want"] = txt[i + 5:j + 1]
        txt = txt[:i] + txt[j + 1:]
    c["_f"] = d
    for f in txt.split(","):
        if not f:
            continue
        k, _, v = f.partition("=")
        d[k] = v if _ else True
    return d


def toks(res):
    """'class~c class~c' -> [(class, closedflag)]"""
    out = []
    for t in res.split(" "):
        if not t:
            continue
        cls, _, c = t.rpartition("~")
        out.append((cls, c))
    return out


def kind(cls):
    if cls.startswith("ok=") or cls.startswith("reads:ok"):
        return "ok"
    if cls.startswith("reads:shortbuf"):
        return "shortbuf"
    if cls.startswith("kafka:"):
        return "kafka"
    return cls.split(":")[0]


def predicate(c):
    """(The F2-* / C11-* / C17-* keys below name defects that were fixed in /repo; a key is
    reported only if the defect comes back.)  The property evaluated directly on the implementation's output for one case.
    Returns a list of (key, what); empty = the case satisfies C11 / C17(Conn)."""
    f = feats_of(c)
    r = toks(c["go"])
    bad = []
    if not r:
        return [("C11-empty-result", "harness produced no result")]
    for cls, _ in r:
        if kind(cls) in ("panic", "hang") and "framing" not in f and "split" not in f and "trunc2" not in f and "stall" not in f:
            bad.append(("C17-panic-or-hang", f"operation outcome {cls}"))
    op = f.get("op", "")
    if "cross" in f:
        # regression case: produce error (throttle 6) then heartbeats; before the F2 fix the
        # fourth heartbeat "succeeded" on a foreign frame header after three ErrNoProgress
        ks = [kind(x) for x, _ in r]
        if ks[0] != "kafka" or any(k != "ok" for k in ks[1:]) or any(x != "0" for _, x in r):
            bad.append((KEY_CROSS, "after a produce error the following heartbeats must each read their own frame: " + c["go"]))
        return bad
    if "comp" in f:
        # compressed sets (not modelled: predicate only): ReadMessage k times / Conn.ReadMessage /
        # Conn.Read, Close inside or before the compressed unit, then two operations: every
        # delivered message is a stored one in order, Close keeps the Conn, and the next operations
        # read their own frames
        ks = [kind(x) for x, _ in r]
        want = parse_msgs(f.get("want", "[]")) or []
        if ks[0] != "ok" or r[0][1] != "0":
            bad.append(("C11-compressed-batch-close-outcome", f"{op} {f.get('msgset')}/{f.get('codec')} layout={f.get('layout')} k={f.get('k')}: {r[0][0][:80]}~{r[0][1]}"))
        else:
            acts = r[0][0].split(":[", 1)[1][:-1]
            got = [a.split(",", 1)[1].rsplit(",", 1)[0] for a in acts.split(";") if a.startswith("m,") and a.endswith(",ok")]
            if got != want[:len(got)]:
                bad.append(("C11-compressed-batch-wrong-message", f"{op} {f.get('codec')}: delivered {got} is not a prefix of {want}"))
        for i, k in enumerate(ks[1:], 2):
            if k != "ok" or r[i - 1][1] != "0":
                bad.append(("C11-close-inside-compressed-batch-leaves-stream-misaligned",
                            f"{op} msgset={f.get('msgset')} codec={f.get('codec')} layout={f.get('layout')} k={f.get('k')}: after {r[0][0][:50]} "
                            f"operation #{i} returned {r[i - 1][0][:50]} instead of reading its own frame"))
                break
        return bad
    if "msgcut" in f:
        # Conn.ReadMessage / Batch.ReadMessage+Close over every cut position: an error, or (no cut)
        # exactly the stored records — never a nil error on a truncated response
        ks = [kind(x) for x, _ in r]
        cut = c["args"].split(" ")[3]
        want = parse_msgs(f.get("want", "[]")) or []
        if cut == "-":
            if ks[0] != "ok" or any(k != "ok" for k in ks[1:]):
                bad.append(("C17-readmessage-complete-response", c["go"][:160]))
        else:
            if ks[0] in ("ok", "kafka", "shortbuf"):
                bad.append(("C17-readmessage-nil-error-on-cut-response",
                            f"{op} msgset={f.get('msgset')}: response cut at byte {cut}: the call returned {r[0][0][:90]} (no error; messages wholly received at {f.get('recends')})"))
            elif r[0][1] != "1":
                bad.append(("C17-readmessage-cut-conn-kept", f"{op}: response cut at byte {cut}: {r[0][0][:40]} but the Conn was kept"))
            elif len(ks) > 1 and ks[1] in ("ok", "kafka"):
                bad.append(("C17-conn-used-after-cut", f"{op}: cut at {cut}: next operation {r[1][0][:40]}"))
        if ks[0] == "ok":
            acts = r[0][0].split(":[", 1)[1][:-1]
            got = [a.split(",", 1)[1].rsplit(",", 1)[0] for a in acts.split(";") if a.startswith("m,") and a.endswith(",ok")]
            if got != want[:len(got)]:
                bad.append(("C17-readmessage-fabricated-message", f"{op}: delivered {got}, stored {want}"))
        for kk in ks:
            if kk in ("hang", "panic"):
                bad.append(("C17-panic-or-hang", "operation outcome " + kk))
        return bad
    if "offs" in f:
        # a fetch answered with a broker error code must not move the Conn: Conn.Offset() after it,
        # the offset of the NEXT fetch request and Conn.Offset() after that are the offset the Conn
        # was positioned at
        off = f.get("off")
        exp = [None, f"ok={off},1", None, f"ok={off},1"]
        for i, (cls, x) in enumerate(r):
            if i in (1, 3) and cls != exp[i]:
                bad.append(("C11-fetch-error-moves-conn-offset",
                            f"{op} {f.get('field')} error code {f.get('code')} on a Conn positioned at offset {off}: Conn.Offset() "
                            f"{'after the error' if i == 1 else 'after the next fetch'} is {cls[3:]} (offset,whence), expected {off},1"))
                break
            if i == 2 and not (cls.startswith("ok=[") and cls.endswith(";" + str(off) + "]")):
                bad.append(("C11-fetch-error-moves-conn-offset",
                            f"{op} {f.get('field')} error code {f.get('code')} on a Conn positioned at offset {off}: the next fetch request "
                            f"asked for {cls[:60]} instead of offset {off}"))
                break
        if f.get("code") not in ("0", None) and kind(r[0][0]) != "kafka":
            bad.append(("C11-misaligned-fetchoffs", c["go"][:100]))
        return bad
    if "stall" in f:
        # C17 "never blocks beyond its deadline": the peer goes silent after k bytes; a deadline
        # governs the exchange (the harness only generates such configurations): the call must
        # return (an error) before the 3 s watchdog and the Conn must be closed
        ks = [kind(x) for x, _ in r]
        if ks[0] in ("hang", "notrun"):
            if ks[0] == "hang":
                bad.append(("C17-stall-blocks-beyond-deadline",
                            f"{f.get('kind')} {op} with only deadline config '{f.get('cfg')}' (a=SetDeadline r=SetReadDeadline w=SetWriteDeadline, 150 ms): "
                            f"the peer went silent after {f.get('k')} bytes and the call had not returned after 3 s (20x the deadline); the Conn was not closed"))
        elif ks[0] in ("ok", "kafka") or r[0][1] != "1":
            bad.append(("C17-stall-outcome", f"{op} cfg={f.get('cfg')} k={f.get('k')}: {r[0][0][:50]}~{r[0][1]}"))
        elif any(k in ("ok", "kafka") for k in ks[1:]):
            bad.append(("C17-conn-used-after-stall", c["go"][:120]))
        return bad
    if "trunc2" in f:
        return trunc2_predicate(c, f, r, op)
    if "split" in f:
        # the response delivered in two pieces at every position (optionally with the following
        # responses already queued): same results as in one piece: everything succeeds
        ks = [kind(x) for x, _ in r]
        if any(k != "ok" for k in ks) or any(x != "0" for _, x in r):
            bad.append(("C11-split-delivery-misaligns",
                        f"{op} msgset={f.get('msgset')} delivered in two pieces at byte {c['args'].split(' ')[3].lstrip('es')} (mode {f.get('mode')}): " + c["go"][:200]))
        return bad
    if "readcut" in f:
        # C17 x short-buffer reads: the response is cut while / before / after a value longer than
        # the caller's buffer is received: the call must report the truncation (an error other
        # than io.ErrShortBuffer, which means "retry with a bigger buffer"), the Conn must be
        # closed by the library and the next operation must fail
        ks = [kind(x) for x, _ in r]
        rel = f.get("cutrel")
        k = c["args"].split(" ")[3]
        if ks[0] in ("ok", "kafka", "shortbuf") or r[0][1] != "1":
            key = ("C17-short-buffer-error-hides-cut-inside-value" if rel == "inside" else
                   "C17-short-buffer-error-hides-later-cut" if rel == "after" else "C17-short-buffer-read-cut-not-reported")
            bad.append((key, f"{op} msgset={f.get('msgset')} cap={f.get('cap')}: response cut at byte {k} ({rel} the oversized value "
                             f"[{f.get('vs')},{f.get('ve')})): the call returned {r[0][0][:60]} and the Conn was "
                             + ("kept" if r[0][1] != "1" else "closed")))
        elif len(ks) > 1 and ks[1] in ("ok", "kafka", "shortbuf"):
            bad.append(("C17-conn-used-after-cut", f"{op}: response cut at byte {k}: the next operation returned {r[1][0][:40]}"))
        for kk in ks:
            if kk in ("hang", "panic"):
                bad.append(("C17-panic-or-hang", "operation outcome " + kk))
        return bad
    if "reads" in f:
        # Batch.Read / Conn.Read / Conn.ReadMessage, Close, then further operations: Close after
        # io.ErrShortBuffer keeps the Conn, the reader sits at the next frame boundary (the next
        # operations succeed: their frames are success responses), the Conn offset is rolled back
        # to the message that did not fit
        ks = [kind(x) for x, _ in r]
        spec = c["args"].split(" ")[1].split(",")[0].split(":")
        off = int(spec[2], 16) if not spec[2].startswith("-") else -int(spec[2][1:], 16)
        want_short = f.get("cap") in ("zero", "one", "short")
        tgt = int(f.get("target", "0"))
        if ks[0] != ("shortbuf" if want_short else "ok") or r[0][1] != "0":
            bad.append(("C11-short-buffer-read-outcome", f"{op} cap={f.get('cap')}: first operation returned {r[0][0][:80]}~{r[0][1]}"))
        else:
            got_off = r[0][0].split(":")[2]
            exp = off + tgt + (0 if want_short else 1)
            if int(got_off, 16) != exp:
                bad.append(("C11-short-buffer-offset-not-rolled-back", f"{op} cap={f.get('cap')} target={tgt}: Conn offset after Close {got_off}, expected {exp:x}"))
        for i, k in enumerate(ks[1:], 2):
            if k != "ok" or r[i - 1][1] != "0":
                bad.append(("C11-short-buffer-read-leaves-stream-misaligned",
                            f"{op} msgset={f.get('msgset')} cap={f.get('cap')} target={tgt}: after {r[0][0][:40]} operation #{i} ({f.get('next') if i == 2 else f.get('next2')}) "
                            f"returned {r[i - 1][0][:60]} instead of succeeding"))
                break
        return bad
    if "nego" in f:
        # real version negotiation (no priming): the version map is cached only after a
        # successful ApiVersions exchange; after one that failed with a broker error the next
        # operation asks again and runs at the version a fresh Conn would choose
        ks = [kind(x) for x, _ in r]
        specs = [x.split(":") for x in c["args"].split(" ")[1].split(",")]
        kd = f.get("kind")
        for i, (k, sp) in enumerate(zip(ks, specs)):
            if kd == "cut":
                break
            expect_nomatch = sp[1] == "-"
            if r[i][0].startswith("fmt:7") != expect_nomatch:
                key = "C11-versions-cached-after-failed-apiversions" if kd == "errcode" else "C11-version-negotiation"
                bad.append((key, f"{kd} code={f.get('code')} list={f.get('list')}: operation #{i + 1} ({sp[0]}) returned {r[i][0][:60]}"
                                 + ("" if expect_nomatch else " although the broker supports a version the Conn offers")))
                return bad
        if kd == "errcode" and f.get("list") != "explicit":
            if ks[0] != "kafka" or r[0][1] != "0":
                bad.append(("C11-version-negotiation", f"ApiVersions error code {f.get('code')}: operation #1 returned {r[0][0][:50]}~{r[0][1]}"))
            elif any(k != "ok" for k in ks[1:]):
                bad.append(("C11-versions-cached-after-failed-apiversions",
                            f"after the implicit ApiVersions exchange failed with code {f.get('code')} (list {f.get('list')}) the next operations returned "
                            + " ".join(x[:40] for x, _ in r[1:]) + " instead of behaving as on a fresh Conn"))
        elif kd == "table":
            for i, (k, sp) in enumerate(zip(ks, specs)):
                if sp[1] != "-" and k != "ok":
                    bad.append(("C11-version-negotiation", f"table max={f.get('max')}: operation #{i + 1} ({sp[0]} v{sp[1]}) returned {r[i][0][:60]}"))
                    break
        elif kd == "cut":
            if ks[0] in ("ok", "kafka") or any(k in ("ok", "kafka") for k in ks[1:]) or r[-1][1] != "1":
                bad.append(("C17-apiversions-cut-during-negotiation", "cut ApiVersions response: " + c["go"][:120]))
        return bad
    if "framing" in f:
        # C11: "after a transport-level or framing error every later operation on that Conn
        # fails" — fails, i.e. RETURNS an error: a call that never returns is a violation
        ks = [kind(x) for x, _ in r]
        for i, k in enumerate(ks):
            if k in ("hang", "notrun", "panic", "spin"):
                if k != "notrun":
                    bad.append(("C11-later-operation-hangs-after-framing-error",
                                f"{f.get('kind')} on {op}: operation #{i + 1} of the same Conn ended as '{k}' (did not return / panicked): " + c["go"][:160]))
                break
        if ks and ks[0] not in ("ok", "kafka"):
            for i, k in enumerate(ks[1:], 2):
                if k in ("ok", "kafka"):
                    bad.append(("C11-usable-after-framing-error",
                                f"{f.get('kind')} on {op}: operation #1 failed with {r[0][0][:30]} but operation #{i} returned {r[i - 1][0][:40]}"))
                    break
        return bad
    if "negcount" in f:
        if [kind(x) for x, _ in r] != ["fmt", "closed"] or any(x != "1" for _, x in r):
            bad.append(("C17-negative-count-not-rejected", "a negative element count must be an error that closes the Conn: " + c["go"]))
        return bad
    if "drain" in f:
        return drain_predicate(c, f)
    if "exh" in f and len(r) == 2:
        (c1, x1), (c2, x2) = r
        k1, k2 = kind(c1), kind(c2)
        base = c.get("base")          # the second operation alone on a fresh Conn
        same = (base is None and k2 == "ok") or (base is not None and base == c2 + "~" + x2)
        if k1 == "kafka":
            if not same or x1 != "0":
                if op.startswith("produce"):
                    key = F2_KEYS["produce"]
                elif op.startswith("fetch"):
                    key = F2_KEYS["fetch-toplevel"] if f.get("field") == "toplevel" else F2_KEYS["fetch-partition"]
                else:
                    key = f"C11-misaligned-{op}-{f.get('field')}"
                bad.append((key, f"{op} {f.get('field')} error code {f.get('code')}: the next operation ({f.get('next')}) "
                                 f"returned {c2[:40]} but {str(base)[:40]} on a fresh Conn"))
        elif k1 == "ok":
            if not same:
                key = KEY_HWM if (op.startswith("fetch") and "hwm" in f) else f"C11-misaligned-after-ok-{op}"
                bad.append((key, f"{op} succeeded but the next operation ({f.get('next')}) returned {c2[:40]}, and {str(base)[:40]} on a fresh Conn"))
        elif k1 != "noprogress":
            # a framing / transport error: the Conn must be closed and the next call must fail
            if x1 != "1":
                bad.append((f"C11-not-closed-after-{k1}-{op}", f"{op} failed with {c1[:40]} but the Conn was kept"))
            if k2 in ("ok", "kafka"):
                bad.append((f"C11-usable-after-{k1}-{op}", f"{op} failed with {c1[:40]} and the next operation returned {c2[:40]}"))
    if "cut" in f:
        (c1, x1) = r[0]
        k1 = kind(c1)
        if k1 == "ok":
            key = KEY_FCLOSE if op.startswith("fetch") else f"C17-ok-on-cut-{op}"
            bad.append((key, f"{op}: response cut at byte {c['args'].split(' ')[-1]} but the call returned success"))
        elif k1 == "kafka":
            bad.append((KEY_TAIL, f"{op}: response cut at byte {c['args'].split(' ')[-1]} inside the part the reader never reads (F2); "
                                  f"{c1} returned and the Conn kept"))
        elif x1 != "1":
            key = KEY_APIV if op.startswith("apiversions") else f"C17-not-closed-on-cut-{op}"
            bad.append((key, f"{op}: response cut at byte {c['args'].split(' ')[-1]}: {c1[:30]} but the Conn was not closed"))
    return bad


def parse_msgs(txt):
    txt = txt.strip()
    if not (txt.startswith("[") and txt.endswith("]")):
        return None
    body = txt[1:-1]
    return [] if body == "" else body.split(";")


KEY_F35 = "F35-conn-truncated-record-partial-data"


def trunc2_predicate(c, f, r, op):
    """A COMPLETE frame whose magic-2 batch is truncated by the broker inside its last record
    (MaxBytes truncation).  C11: the client consumes exactly the fetch frame (Close nil, Conn kept,
    the next operations get their own answers; never a hang).  C05 (Conn path): every API delivers
    exactly the whole records, and the action that hits the truncation returns NO data:
    Batch.ReadMessage / Batch.Read: io.EOF and n == 0; Conn.ReadMessage / Conn.Read (which silence
    the end-of-batch io.EOF by design): nil error with an empty key/value resp. n == 0."""
    bad = []
    ks = [kind(x) for x, _ in r]
    want = parse_msgs(f.get("want", "[]")) or []
    where = f"{op} nwhole={f.get('nwhole')} hdr={f.get('hdr')} truncated {f.get('t')}/{f.get('reclen')} bytes into the last record (mode {f.get('mode')})"
    if ks[0] != "ok" or r[0][1] != "0":
        bad.append(("C11-truncated-record-read-past-frame", f"{where}: the read returned {r[0][0][:70]}~{r[0][1]}"))
    else:
        acts = r[0][0].split(":[", 1)[1][:-1]
        acts = acts.split(";") if acts else []
        nwhole = int(f.get("nwhole", "0"))
        whole, last = acts[:nwhole], acts[nwhole:]
        # the whole records, exactly
        exp_vals = [w.split(",", 2) for w in want]          # [off, key, val]
        ok_whole = len(whole) == nwhole
        for a, w in zip(whole, exp_vals):
            p = a.split(",")
            if p[0] == "m":
                ok_whole = ok_whole and p[-1] == "ok" and p[1:4] == w
            else:
                ok_whole = ok_whole and p[-1] == "ok" and p[2] == w[2]
        if not ok_whole:
            bad.append((KEY_F35, f"C05 Conn path on a record truncated by the broker: {where}: the whole records were not delivered exactly: {whole} vs {want}"))
        # the action at the truncation: nothing
        conn = op.startswith("connread")
        exp_last = {"connreadmsg": None, "connread": "r,0,.,ok"}.get(op.split("v")[0])
        if len(last) != 1:
            bad.append((KEY_F35, f"C05 Conn path on a record truncated by the broker: {where}: {len(last)} actions reported after the whole records"))
        else:
            a = last[0]
            p = a.split(",")
            if op.startswith("connreadmsg"):
                good = len(p) == 5 and p[0] == "m" and p[2] == "." and p[3] == "." and p[4] == "ok"
                api = "Conn.ReadMessage"
            elif op.startswith("connread"):
                good = a == "r,0,.,ok"
                api = "Conn.Read"
            elif p[0] == "m":
                good = a == "m,eof"
                api = "Batch.ReadMessage"
            else:
                good = a == "r,0,.,eof"
                api = "Batch.Read"
            if not good:
                bad.append((KEY_F35, f"C05 Conn path on a record truncated by the broker: {api} returned data of a record the broker never completely "
                                     f"sent ({a[:60]}; expected no data: " + ("nil error with empty key/value" if api == "Conn.ReadMessage" else
                                      "n = 0, nil error" if api == "Conn.Read" else "io.EOF" + (" and n = 0" if api == "Batch.Read" else "")) + f"); {where}"))
    for i, k in enumerate(ks[1:], 2):
        if k != "ok" or r[i - 1][1] != "0":
            bad.append(("C11-truncated-record-read-past-frame",
                        f"{where}: after {r[0][0][:40]} operation #{i} returned {r[i - 1][0][:50]} instead of its own answer (the client did not stop at the frame boundary)"))
            break
    return bad


def drain_predicate(c, f):
    """fetch + ReadMessage until error + Close (no model: the message-set reader is C02's).
    C17: with the response cut at byte k the records delivered are a prefix of the records sent
    and only records wholly received; Close reports a non-Kafka error and the Conn is closed;
    never a panic or hang.  Without a cut: every record, io.EOF, Close nil, next operation ok."""
    bad = []
    go = c["go"].split(" ")
    tok = go[0]
    body, _, cflag = tok.rpartition("~")
    a = c["args"].split(" ")
    cut = a[3] if len(a) > 3 else "-"
    if not body.startswith("drain:"):
        return [("C17-drain-" + kind(body), f"fetch+drain outcome {body[:40]}")]
    head, sep, mtxt = body[len("drain:"):].rpartition(":[")
    msgs = parse_msgs("[" + mtxt) if sep else None
    want = parse_msgs(f.get("want", "[]")) or []
    recends = [int(x, 16) for x in f.get("recends", "").split("/") if x]
    if msgs is None:
        return [("C17-drain-unparsable", tok[:80])]

    def take_class(h):
        for pre in ("kafka:", "unread:", "fmt:"):
            if h.startswith(pre):
                x, _, rest = h[len(pre):].partition(":")
                return pre + x, rest
        if h.startswith("other:"):
            # the message may contain ':'; the read class that follows is a simple word
            x, _, rest = h.rpartition(":")
            return x, rest
        x, _, rest = h.partition(":")
        return x, rest
    closecls, readcls = take_class(head)
    if msgs != want[:len(msgs)]:
        bad.append(("C17-drain-fabricated-record", f"delivered {msgs} is not a prefix of the records sent {want}"))
    if cut == "-":
        if msgs != want or closecls != "ok" or readcls != "eof" or cflag != "0":
            bad.append(("C17-drain-complete-response", f"complete response: {tok[:120]}"))
        if len(go) > 1 and kind(go[1].rpartition("~")[0]) != "ok":
            bad.append(("C11-misaligned-after-drain", f"operation after a completely read batch: {go[1][:60]}"))
    else:
        k = int(cut, 16)
        nrecv = sum(1 for p in recends if p <= k)
        if len(msgs) > nrecv:
            bad.append(("C17-drain-partial-record-delivered", f"cut at {k}: {len(msgs)} records delivered, only {nrecv} wholly received"))
        if closecls == "ok" or closecls.startswith("kafka"):
            bad.append(("C17-drain-cut-not-reported", f"cut at {k}: Close returned {closecls} (read loop ended with {readcls})"))
        elif cflag != "1":
            bad.append(("C17-drain-cut-conn-not-closed", f"cut at {k}: Close returned {closecls} but the Conn was kept"))
    return bad


def generate(ctx=None):
    """Translator: coq/Gen/Skeleton.v (call and access facts with must-hold locksets) from
    /repo's current source; the property file carries the obligation Cxx_skeleton_assumptions."""
    from checks import c10
    return c10.generate(ctx)


def setup():
    L.go_build("c11")
    L.ocaml_build("c11")


def add_baselines(gobin, cases):
    # "the next operation behaves as it would on a fresh connection", evaluated directly: the
    # second operation of every two-operation case is re-run ALONE on a fresh Conn against the
    # same response (correlation id patched to the fresh Conn's first id, 2)
    base_lines, owners = [], []
    for c in cases:
        a = c["args"].split(" ")
        if "exh" in feats_of(c) and len(a) == 4 and a[3] == "-" and a[1].count(",") == 1 and a[2].count(",") == 1:
            f2 = a[2].split(",")[1]
            base_lines.append("%d run %s %s %s -" % (len(base_lines) + 1, a[0], a[1].split(",")[1], f2[:8] + "00000002" + f2[16:]))
            owners.append(c)
    if base_lines:
        rc, out3, err3, _ = L.sh([gobin, "-run"], input="\n".join(base_lines) + "\n", timeout=1200)
        if rc != 0:
            raise L.Fail("correspondence", "harness cmd/c11 -run crashed on the fresh-Conn baselines", (out3[-1500:] + err3[-2500:]))
        bl = L.parse_cases(out3)
        if len(bl) != len(owners):
            raise L.Fail("correspondence", "fresh-Conn baseline run returned %d of %d results" % (len(bl), len(owners)))
        for c, b in zip(owners, bl):
            c["base"] = b["go"]


def run_cases(ctx):
    gobin = L.go_build("c11")
    model = L.ocaml_build("c11")
    tier = "thorough" if ctx.thorough else "quick"
    rc, out, err, dt = L.sh([gobin, "-gen", "-seed", str(ctx.seed), "-tier", tier], timeout=3000)
    if rc != 0:
        raise L.Fail("correspondence", "harness cmd/c11 crashed", (out[-1500:] + err[-2500:]))
    cases = L.parse_cases(out)
    # fixed cases and the corpus, re-run on the real Conn
    extra = [CROSS_CASE + " | | " + CROSS_FEATS] + NEG_CASES
    cdir = os.path.join(L.CORPUS, "C11")
    if os.path.isdir(cdir):
        for fn in sorted(os.listdir(cdir)):
            extra += [l for l in open(os.path.join(cdir, fn)).read().splitlines() if l.strip()]
    n0 = len(cases)
    text = "\n".join("%d %s" % (n0 + 1 + i, l) for i, l in enumerate(extra)) + "\n"
    rc, out2, err2, _ = L.sh([gobin, "-run"], input=text, timeout=600)
    if rc != 0:
        raise L.Fail("correspondence", "harness cmd/c11 -run crashed", (out2[-1500:] + err2[-2500:]))
    cases += L.parse_cases(out2)
    # timing-class verdicts: a stall case that hit the watchdog is re-run alone before it counts
    hung = [c for c in cases if "stall" in feats_of(c) and "hang~" in c["go"]][:6]
    for c in hung:
        rc, o, e, _ = L.sh([gobin, "-run"], input=c["line"] + " | | " + c["feats"] + "\n", timeout=60)
        again = L.parse_cases(o)
        if rc == 0 and again:
            c["go"] = again[0]["go"]
    res = L.run_model(model, "\n".join(c["line"] for c in cases) + "\n")
    add_baselines(gobin, cases)
    return cases, res


def evaluate(cases, res, want):
    """want(feats) selects the cases of this evaluation. Returns the correspondence dict."""
    sel = [c for c in cases if want(feats_of(c))]
    failures, notes = [], []
    notrun = [c for c in sel if "notrun~" in c["go"]]
    if notrun:
        notes.append(f"{len(notrun)} cases NOT RUN: the harness's circuit breaker tripped after 3 cases hit the 2 s watchdog "
                     "(an operation of the real Conn never returned); the hung cases are reported as property violations")
    bad = L.diff_cases([c for c in sel if "drain" not in feats_of(c) and "comp" not in feats_of(c) and "trunc2" not in feats_of(c)
                        and "notrun~" not in c["go"]], res)
    # PART K is compared in full: at the truncation the model's action returns nothing, like the
    # (repaired) code.  Only Message.Offset of Conn.ReadMessage's empty result is left out (the code
    # reports the offset when the record's offset delta had been received, the model 0).
    def norm_trunc(txt, conn):
        t0, _, rest = txt.partition(" ")
        if conn:
            t0 = re.sub(r"\[m,[^,\]]*,\.,\.,ok\]", "[m,_,.,.,ok]", t0)
        return t0 + " " + rest
    for c in sel:
        if "trunc2" in feats_of(c) and "notrun~" not in c["go"]:
            conn = feats_of(c).get("op", "").startswith("connreadmsg")
            m = res.get(c["id"])
            if m is None or norm_trunc(c["go"], conn) != norm_trunc(m, conn):
                c2 = dict(c); c2["model"] = m
                bad.append(c2)
    for c in bad[:10]:
        pv = predicate(c)
        detail = json.dumps(dict(case=c["line"][:1500], go=c["go"][:300], model=str(c.get("model"))[:300], feats=c["feats"]))
        if pv:
            failures.append(dict(layer="property", key=pv[0][0], what="implementation differs from the model AND violates the property: " + pv[0][1],
                                 detail=detail, input=dict(case=c["line"], go=c["go"], model=c.get("model"), feats=c["feats"])))
        else:
            failures.append(dict(layer="correspondence", key=None,
                                 what="model conn_do and the real Conn disagree on " + (feats_of(c).get("op") or "?") + " (the outcome itself satisfies the property)",
                                 detail=detail, input=None))
    if len(bad) > 10:
        notes.append(f"{len(bad)} model/implementation disagreements in total")
    # the property's predicate on the implementation's own outputs
    by_key = {}
    for c in sel:
        for key, what in predicate(c):
            by_key.setdefault(key, []).append((c, what))
    for key in sorted(by_key):
        lst = by_key[key]
        c, what = lst[0]
        ops = sorted({feats_of(x).get("op", "?") for x, _ in lst})
        failures.append(dict(layer="property", key=key,
                             what=f"{what} [{len(lst)} cases; operations {','.join(ops)}]",
                             detail=json.dumps(dict(case=c["line"][:1500], go=c["go"], model=res.get(c["id"]), feats=c["feats"])),
                             input=dict(case=c["line"], go=c["go"], model=res.get(c["id"]), feats=c["feats"])))
    triv = set()
    ev, dn, hist = L.coverage_counts(sel, trivial_feats=("",))
    # non-trivial: an error code other than 0, or a cut
    dn = len({c["line"] for c in sel if ("cut" in feats_of(c)) or ("drain" in feats_of(c) and not c["args"].endswith(" -"))
              or feats_of(c).get("code", "0") not in ("0", True) or "cross" in feats_of(c) or "framing" in feats_of(c) or "nego" in feats_of(c) or "reads" in feats_of(c) or "readcut" in feats_of(c) or "comp" in feats_of(c) or "split" in feats_of(c) or "trunc2" in feats_of(c) or "stall" in feats_of(c) or "offs" in feats_of(c) or ("msgcut" in feats_of(c) and not c["args"].endswith(" -"))})
    hist = {}
    for c in sel:
        f = feats_of(c)
        for k in ("op", "field", "code", "cutpos", "msgset", "kind", "cap", "list", "cutrel", "codec", "layout", "mode", "nwhole", "hdr", "cfg"):
            if k in f:
                hist[f"{k}={f[k]}"] = hist.get(f"{k}={f[k]}", 0) + 1
    return dict(evaluations=ev, distinct_nontrivial=dn, hist=hist, failures=failures, notes=notes, sel=sel)


RULE = ("PART A (exhaustive, no randomness in the structure): every (operation, negotiated version) of Conn "
        "[produce v2/v3/v7, fetch v2/v5/v10, list-offsets v1, metadata v1/v6, brokers, controller, find-coordinator, join-group v1/v2, "
        "sync/heartbeat/leave, offset-commit v2, offset-fetch v1, list-groups v1, create-topics v0/v1/v2, delete-topics v0/v1, "
        "ApiVersions, sasl handshake/authenticate] x every error field of its response x error codes {0,1,3,6,7,19,27,36,-1,87} "
        "x every following (operation, version) on the same Conn (fetch: empty / magic-2 / magic-1 message sets, hwm = offset variants); "
        "field values from one PRNG (VERIF_SEED); result classes of both operations, decoded values and whether the Conn closed its "
        "net.Conn, real kafka.Conn vs conn_do.  PART B: every (operation, version) x {success, error} response x cut positions "
        "(quick: boundaries of every field + fixed sample; thorough: every byte).  A case is non-trivial when it carries a non-zero "
        "error code or a cut; distinct by the full case line.  PART C (no model; predicate only): fetch v2/v5/v10 with 1..3 records "
        "(magic 2) or 1..2 messages (magic 1), ReadMessage until error then Close, every cut position: the records delivered must be a "
        "prefix of those sent and wholly received, Close must report a non-Kafka error and close the Conn.  PART D (framing errors, "
        "every (operation, version)): a response with a foreign correlation id / a size field 1 or 2 too small / 3 too large then EOF / "
        "cut at 3 positions, followed by TWO further operations of different kinds on the same Conn, each case under a 2 s watchdog "
        "(a call that does not return is class 'hang', a mismatch against the model and a property violation; after 3 hung cases the "
        "rest are NOT RUN); compared with conn_do_i, which threads Conn.inflight.  PART E (no priming: the scripted peer answers the implicit ApiVersions "
        "requests of loadVersions): tables forcing every supported version of every negotiated API, in-between / too low / absent "
        "entries; error code {35,1,-1} with empty / non-empty list then a second negotiating operation; explicit ApiVersions; cut; "
        "3 operations per case, compared with conn_nop.  PART F: fetch v2/v5/v10 over magic-0/1/2 sets, Batch.Read with a buffer of "
        "0 / 1 / len-1 / len / len+3 bytes at the first / middle / last message (earlier ones read by ReadMessage or Read), Close, then "
        "heartbeat + list-offsets or the documented retry + heartbeat; Conn.Read, Conn.ReadMessage.  PART G: Batch.Read / Conn.Read with a "
        "buffer of 0 / 1 / 19 bytes on a 20-byte value (magic 0/1/2, fetch v2/v10) x every cut position inside the value, three before "
        "and three after it, then Close and a heartbeat: the truncation must be reported (not io.ErrShortBuffer) and the Conn closed.  "
        "PART H (predicate only: compressed sets are not modelled): gzip/snappy/lz4/zstd magic-2 batches and magic-0/1 wrappers as first / "
        "middle unit, Close after 0..k messages, Conn.ReadMessage, Conn.Read, then two operations.  PART I: Conn.ReadMessage and "
        "Batch.ReadMessage x2 + Close over every cut position of small magic-0/1/2 fetch v2/v5/v10 responses.  PART J: the fetch response "
        "delivered in two pieces at every byte position, with and without the following responses already queued.  PART K: complete fetch "
        "frames whose magic-2 batch is truncated by the broker at every byte of its last record (0..3 whole records before it, with / "
        "without record headers), read by ReadMessage / Read / Conn.ReadMessage / Conn.Read, next responses queued or not.  PART L (stall): the peer goes SILENT "
        "after k bytes (no EOF) under SetDeadline / SetReadDeadline only / SetWriteDeadline only (150 ms), for every operation under the "
        "deadline of its side and for the implicit ApiVersions negotiation of a first call under all three: the call must return a timeout "
        "error within the 3 s watchdog and the Conn must be closed; expectation from the model's deadline_of; a hang is re-run in isolation.  PART M: a Conn positioned at a non-zero offset, a fetch answered with a broker error code, "
        "then Conn.Offset(), a fetch WITHOUT Seek (the scripted peer reports the offset requested) and Conn.Offset() again.")


def correspondence(ctx):
    cases, res = run_cases(ctx)
    ev = evaluate(cases, res, lambda f: True)
    # the cut x short-buffer-read cases (PART G) belong to C17: their findings are reported through
    # conn_cut_cases (./check C17) and only noted here
    c17_only = lambda k: str(k) == "C17-short-buffer-error-hides-later-cut" or str(k).startswith("NOTE-")
    failures = [f for f in ev["failures"] if not c17_only(f.get("key"))]
    notes = ev["notes"] + ["C17 (Conn half) finding, reported by ./check C17 through conn_cut_cases: " + str(f.get("key")) + ": " + f["what"][:260]
                           for f in ev["failures"] if c17_only(f.get("key")) and f["what"].startswith(("fetchread", "connread"))]
    notes = [n.replace("C17 (Conn half) finding, reported by ./check C17 through conn_cut_cases: NOTE-", "observation (not a C11 failure): ") for n in notes]
    sel = ev["sel"]
    n_exh = sum(1 for c in sel if "exh" in feats_of(c))
    samples = [c["line"][:260] + " | " + c["go"][:120] + " | " + c["feats"]
               for c in (sel[:2] + sel[len(sel)//3:len(sel)//3+2] + sel[-3:])]
    return dict(evaluations=ev["evaluations"], distinct_nontrivial=ev["distinct_nontrivial"], hist=ev["hist"],
                rule=RULE, samples=samples, failures=failures, notes=notes,
                extra=dict(exhaustive=True,
                           exhaustive_scope=f"PART A: the finite product (operation, version) x error field x error code set x following operation, {n_exh} cases, enumerated completely; PART B (cut positions) is complete only in the thorough tier",
                           cut_cases=sum(1 for c in sel if "cut" in feats_of(c)),
                           drain_cases=sum(1 for c in sel if "drain" in feats_of(c))))


def conn_cut_cases(ctx):
    """The truncation cases only (Conn half of C17), same dict shape as correspondence()."""
    cases, res = run_cases(ctx)
    ev = evaluate(cases, res, lambda f: "cut" in f or "drain" in f or "readcut" in f or "msgcut" in f or "stall" in f)
    sel = ev["sel"]
    samples = [c["line"][:260] + " | " + c["go"][:120] + " | " + c["feats"] for c in (sel[:2] + sel[len(sel)//2:len(sel)//2+2] + sel[-2:])]
    return dict(evaluations=ev["evaluations"], distinct_nontrivial=ev["distinct_nontrivial"], hist=ev["hist"],
                rule="Conn half of C17: " + RULE.split("PART B:")[1], samples=samples, failures=ev["failures"], notes=ev["notes"],
                extra=dict(exhaustive=bool(ctx.thorough), cut_cases=len(sel)))


def truncated_record_cases(ctx, _gen_output=None):
    """Hosting function for C05 (Conn path): the trunc2 family (PART K) with the STRICT predicate on
    the implementation's own output; same dict shape as conn_cut_cases.  No model run: a few seconds."""
    if _gen_output is None:
        gobin = L.go_build("c11")
        tier = "thorough" if ctx.thorough else "quick"
        rc, out, err, dt = L.sh([gobin, "-gen", "-seed", str(ctx.seed), "-tier", tier], timeout=600)
        if rc != 0:
            raise L.Fail("correspondence", "harness cmd/c11 crashed", (out[-1500:] + err[-2500:]))
    else:
        out = _gen_output
    sel = [c for c in L.parse_cases(out) if "trunc2" in feats_of(c)]
    failures, by_key = [], {}
    for c in sel:
        for key, what in predicate(c):
            by_key.setdefault(key, []).append((c, what))
    for key in sorted(by_key):
        lst = by_key[key]
        c, what = lst[0]
        ops = sorted({feats_of(x).get("op", "?") for x, _ in lst})
        if not what.startswith("C05 Conn path"):
            what = "C05 Conn path on a record truncated by the broker: " + what
        failures.append(dict(layer="property", key=key,
                             what=f"{what} [{len(lst)} cases; operations {','.join(ops)}]",
                             detail=json.dumps(dict(case=c["line"][:1500], go=c["go"], feats=c["feats"][:300],
                                                    replay="echo '<case>' | /verif/build/bin/c11 -run   (or ./check C11 --replay <file>)")),
                             input=dict(case=c["line"], go=c["go"], feats=c["feats"])))
    hist = {}
    for c in sel:
        f = feats_of(c)
        for k in ("op", "nwhole", "hdr", "mode"):
            if k in f:
                hist[f"{k}={f[k]}"] = hist.get(f"{k}={f[k]}", 0) + 1
    samples = [c["line"][:260] + " | " + c["go"][:140] + " | " + c["feats"][:120] for c in (sel[:2] + sel[len(sel)//2:len(sel)//2+2] + sel[-2:])]
    return dict(evaluations=len(sel), distinct_nontrivial=len({c["line"] for c in sel}), hist=hist,
                rule="PART K of harness/cmd/c11: complete fetch v2/v10 frames whose uncompressed magic-2 batch is truncated by the broker at every "
                     "byte of its last record (0..3 whole records before it, with / without record headers), read through Batch.ReadMessage, "
                     "Batch.Read, Conn.ReadMessage, Conn.Read, next responses queued or not; predicate on the real Conn's output: exactly the "
                     "whole records are delivered and the action at the truncation returns no data",
                samples=samples, failures=failures, notes=[], extra=dict(exhaustive=True))


def split_cases(ctx, _gen_output=None):
    """Hosting function for C04 (Conn decoding): the split family (PART J): a fetch response with
    magic-2 records (2-byte length varints) or magic-1 messages delivered in two segments at EVERY
    byte boundary (with and without the following responses already queued): the decoded values
    must equal the one-piece decoding (the unsplit reference case of the same sweep) and the
    following operations must succeed.  Predicate on the implementation only: ~2 s."""
    if _gen_output is None:
        gobin = L.go_build("c11")
        tier = "thorough" if ctx.thorough else "quick"
        rc, out, err, dt = L.sh([gobin, "-gen", "-seed", str(ctx.seed), "-tier", tier], timeout=600)
        if rc != 0:
            raise L.Fail("correspondence", "harness cmd/c11 crashed", (out[-1500:] + err[-2500:]))
    else:
        out = _gen_output
    sel = [c for c in L.parse_cases(out) if "split" in feats_of(c)]
    ref = {}
    for c in sel:
        f = feats_of(c)
        if f.get("mode") == "none":
            ref[(f.get("op"), f.get("msgset"))] = c
    by_key = {}
    for c in sel:
        f = feats_of(c)
        if f.get("mode") == "none":
            if any(kind(x) != "ok" for x, _ in toks(c["go"])):
                by_key.setdefault("C04-conn-split-reference", []).append((c, "the one-piece reference itself failed: " + c["go"][:120]))
            continue
        rc_ = ref.get((f.get("op"), f.get("msgset")))
        pos = c["args"].split(" ")[3].lstrip("es")
        if rc_ is None or c["go"] != rc_["go"]:
            by_key.setdefault("C04-conn-segmented-response-decoding", []).append(
                (c, f"{f.get('op')} msgset={f.get('msgset')} segment boundary at byte {pos} (mode {f.get('mode')}): decoded "
                    f"{c['go'][:150]} but the one-piece decoding is {(rc_ or {}).get('go', '?')[:150]}"))
    failures = []
    for key in sorted(by_key):
        lst = by_key[key]
        c, what = lst[0]
        failures.append(dict(layer="property", key=key,
                             what=f"C04 Conn decoding of a response delivered in segments: {what} [{len(lst)} cases]",
                             detail=json.dumps(dict(case=c["line"][:1500], go=c["go"][:400], feats=c["feats"][:300],
                                                    replay="echo '<case>' | /verif/build/bin/c11 -run")),
                             input=dict(case=c["line"], go=c["go"], feats=c["feats"])))
    hist = {}
    for c in sel:
        f = feats_of(c)
        for k in ("op", "msgset", "mode"):
            if k in f:
                hist[f"{k}={f[k]}"] = hist.get(f"{k}={f[k]}", 0) + 1
    samples = [c["line"][:200] + " | " + c["go"][:140] + " | " + c["feats"][:100] for c in (sel[:2] + sel[len(sel)//2:len(sel)//2+2] + sel[-2:])]
    return dict(evaluations=len(sel), distinct_nontrivial=sum(1 for c in sel if feats_of(c).get("mode") != "none"), hist=hist,
                rule="PART J of harness/cmd/c11: fetch v2/v10 responses holding one uncompressed magic-2 batch (2 records, 70- and 75-byte values: "
                     "2-byte length varints) or a magic-1 set, delivered to the real Conn in two segments with the boundary at every byte "
                     "(inside every varint, length prefix, key, value), with and without the following responses already queued; read by "
                     "Batch.ReadMessage x2 + Close and by Conn.ReadMessage, then heartbeat and list-offsets; the decoded values and results "
                     "must equal those of the one-piece delivery",
                samples=samples, failures=failures, notes=[], extra=dict(exhaustive=True))


def search(ctx, violations):
    """A layer broke without a concrete input: the thorough enumeration is the search."""
    from checks import c10
    c10.annotate_skeleton_failure(ctx, violations, "SkeletonConn", "conn_assumptions", "Model/ConnMux.v / ConnOps.v", "conn.go / batch.go")
    ctx.seed += 1000
    ctx.tier = "thorough"
    ctx.thorough = True
    try:
        c = correspondence(ctx)
    except L.Fail:
        return None
    for f in c["failures"]:
        if f.get("input"):
            return f["input"]
    return None


def replay(ctx, payload):
    inp = payload.get("input")
    if not inp:
        print("replay: no concrete input recorded; broken layer:", payload.get("broken"))
        print(payload.get("detail", "")[:3000])
        return 1
    line = inp["case"]
    feats = inp.get("feats", "")
    print("replay case:", line[:600])
    print("features:", feats)
    print("go result at the time:", inp.get("go"), "\nmodel at the time:   ", inp.get("model"))
    gobin = L.go_build("c11")
    model = L.ocaml_build("c11")
    rc, out, err, _ = L.sh([gobin, "-run"], input=line + " | | " + feats + "\n", timeout=120)
    cs = L.parse_cases(out)
    if rc != 0 or not cs:
        print("harness failed:", err[-1500:])
        return 1
    c = cs[0]
    add_baselines(gobin, [c])
    res = L.run_model(model, c["line"] + "\n")
    print("go result now:       ", c["go"])
    print("model now:           ", res.get(c["id"]))
    pv = predicate(c)
    for key, what in pv:
        print("PROPERTY VIOLATED:", key, "-", what)
    if res.get(c["id"]) != c["go"]:
        print("MODEL AND IMPLEMENTATION DISAGREE")
    return 1 if (pv or res.get(c["id"]) != c["go"]) else 0
