"""Shared by C04 / C17 / C20: translator, case generation, the memory-limited decode child."""
import os, re, subprocess, time
import checklib as L

GEN_V = os.path.join(L.COQ, "Gen", "Schemas.v")
last_cases = []


def generate(ctx=None):
    """Translator: regenerate coq/Gen/Schemas.v from /repo's registered protocol types."""
    vgen = L.go_build("vgen")
    tmp = GEN_V + ".new"
    os.makedirs(os.path.dirname(GEN_V), exist_ok=True)
    rc, out, err, _ = L.sh([vgen, "schema", tmp], timeout=300)
    if rc != 0:
        raise L.Fail("obligation", "translator vgen schema failed on /repo's protocol types", (out + err)[-3000:])
    L.write_if_changed(GEN_V, open(tmp).read())
    os.remove(tmp)
    return int(out.split()[0])


def setup():
    generate()
    L.go_build("c04")
    L.ocaml_build("c04")


def gen_cases(ctx, n, cuts, muts):
    gobin = L.go_build("c04")
    rc, out, err, dt = L.sh([gobin, "-mode", "gen", "-seed", str(ctx.seed), "-n", str(n),
                             "-cuts", str(cuts), "-muts", str(muts)], timeout=3000)
    if rc != 0:
        raise L.Fail("correspondence", "harness cmd/c04 -mode gen crashed", (out[-1500:] + err[-2500:]))
    return L.parse_cases(out)


def run_dec_child(cases, vlimit_kb=24_000_000, per_case_timeout=40, max_restarts=40, max_hangs=3):
    """Run the real decoder on `dec` cases in a child under an address-space limit.
    A child that dies is restarted after the case it was working on; that case is
    classified from the child's stderr (out of memory -> oom, else crash)."""
    gobin = os.path.join(L.BIN, "c04")
    results = {}
    i = 0
    restarts = 0
    hangs = 0
    while i < len(cases):
        chunk = cases[i:]
        inp = "".join(c["line"] + "\n" for c in chunk)
        p = subprocess.Popen(f"ulimit -v {vlimit_kb}; exec {gobin} -mode dec", shell=True,
                             stdin=subprocess.PIPE, stdout=subprocess.PIPE, stderr=subprocess.PIPE, text=True)
        try:
            out, err = p.communicate(inp, timeout=per_case_timeout * max(1, len(chunk)) if len(chunk) < 50 else 3000)
        except subprocess.TimeoutExpired:
            p.kill()
            out, err = p.communicate()
            err += "\nTIMEOUT"
        got = 0
        for line in out.splitlines():
            cid, _, r = line.partition(" ")
            results[cid] = r
            got += 1
        if got >= len(chunk):
            break
        if got > 0 and results.get(chunk[got - 1]["id"]) == "hang":
            # the child reported a hang and exited on purpose (the spinning goroutine
            # cannot be stopped): continue with the next case
            i += got
            restarts += 1
            hangs += 1
            if hangs > max_hangs:
                # a decoder that spins on case after case: what was observed is already a
                # violation; do not spend a watchdog period on every remaining case
                break
            continue
        # the child died while working on chunk[got]
        dead = chunk[got]
        if "out of memory" in err or "cannot allocate" in err:
            results[dead["id"]] = "oom"
        elif "TIMEOUT" in err:
            results[dead["id"]] = "hang"
            hangs += 1
            if hangs > max_hangs:
                break
        else:
            results[dead["id"]] = "crash:" + err.strip().splitlines()[0][:120] if err.strip() else "crash"
        i += got + 1
        restarts += 1
        if restarts > max_restarts:
            # the decoder dies over and over: what was observed so far is already a violation;
            # the remaining cases are not run (they are absent from the results)
            break
    return results, restarts
