"""Shared machinery of the Writer checks C01, C07, C08, C09 (DESIGN.md section 7).

One run of harness/cmd/writer (real kafka.Writer on the RoundTripper-level fake `fakert`,
plus step-level cases through /repo/verif_export_writer.go) against the extracted model
coq/Model/Writer.v (ocaml/writer_driver.ml).  Each property's check filters the result.

go result / model result per op:
  add, size, wm : the model computes what the Go code must print (exact diff)
  rtb           : isTemporary || isTransientNetworkError of the real code against retriable_spec (Kafka error
                  table + transient transport classes), one case per error class; the model side NEVER uses the
                  code's own classification: histories are judged with retriable_spec
  trk           : trickle (Async, one message every BatchTimeout/3): per produce request the accept times of its
                  messages; model = span_ok (no message later than BatchTimeout + margin after the request's first)
  nwc           : kafka.NewWriter(WriterConfig) field by field against cfg_of_writer_config / options_of_writer_config
  pdl           : the context deadline the RoundTripper receives for the produce / metadata request of the real
                  Writer against produce_deadline_ms (effective WriteTimeout) / metadata_deadline_ms (none: caller's ctx only)
  pto           : real Writer on a delaying broker (ack after d ms) against a RUN of the model with timed_reaction:
                  attempts:copies:result
  cfgd          : the option accessors (zero / negative field -> documented default) against cfg_of_options
  wire          : real Writer on the real Transport over synchronous pipes to a wire-level fake broker that
                  stalls mid-request; judged like e2e but only by the order / limits / log predicates; the
                  `census` scenarios (kafka.NewWriter: the writer owns its Transport) check after Close that the
                  transport's goroutines and connections are gone: go = LEAK:<what> otherwise
  prr, pr       : Client.Produce's mapping of a produce response (error code -> Error, Throttle, BaseOffset,
                  LogAppendTime, LogStartOffset, RecordErrors) against produce_error / make_time_ms of the
                  model; prr sweeps ALL 65536 error codes on every run
  e2e           : go = ok | HANG:<what> | PANIC:<text> | ANOMALY:<record-attrs|completion-attrs>;  model = ok | FAIL:<names>, where a name
                  is an extracted history predicate of Model/Writer.v that evaluated to false on
                  the recorded history, or det:<what> (deterministic scenario: the model RUN with
                  the recorded environment choices differs from the implementation)
  f3            : <close returned|hang>:<call result> on both sides (batchMessages after Close; expected returned:closed)
"""
import hashlib, json, os
import checklib as L

COMMON_TRUSTED = [
    "Coq 8.16.1 kernel (coqc; coqchk in the thorough tier); vm_compute only in non-vacuity Examples and the refutation witness; no native_compute",
    "hand-written model coq/Model/Writer.v of /repo/writer.go as an atomic-step LTS (labels = critical sections of w.mutex / ptw.mutex, queue operations, one produce attempt with the broker's reaction, timer firings, environment choices); that Go's mutexes, condition variables, channels and WaitGroup behave as the LTS assumes, and that no goroutine outside the model touches the state, is modelled, not verified (C10 covers data races)",
    "abstractions argued in the header of Model/Writer.v: pw_open = (in w.writers) = (queue open) because both change only inside Close's critical section; batch.ready/trigger not represented; Assign processes messages in call order instead of Go's random map order (partitions are independent); Attempt merges the broker's reaction with the client's observation (fault model of DESIGN.md 2.3: a request is applied when received or never)",
    "tie: harness/cmd/writer runs the REAL kafka.Writer (build tag verif, hooks in /repo/verif_export_writer.go) on harness/fakert (typed RoundTripper-level fake: produce and metadata only; no wire format); recorded globally-sequenced histories are judged by the history predicates DEFINED in Model/Writer.v and extracted (ExtrOcamlBasic only); deterministic single-caller scenarios are additionally compared request-by-request with a run of the extracted step function; step-level differential for writeBatch.add/full, Message.totalSize (header-less), partitionWriter.writeMessages, and Client.Produce's response mapping (error code -> Error on all 65536 codes, Throttle, BaseOffset, LogAppendTime, LogStartOffset, RecordErrors)",
    "ocaml/kvio.ml.in + ocaml/writer_driver.ml (parsing, the deterministic scheduler that picks model labels; ~350 lines) and harness/kvfmt",
    "message identity: every message value carries (caller, sequence number); ids are unique per scenario (the model's Call step requires fresh ids)",
    "retriable : err -> bool is a parameter of the model (theorems hold for every such predicate); histories are judged with the SPECIFIED classification retriable_spec (Kafka protocol error table, transcribed by hand: fidelity trusted; plus transient transport classes), never with the code's own; the code's isTemporary || isTransientNetworkError is compared with it class by class (op rtb); documented deviation of the unchanged tree: code 9 REPLICA_NOT_AVAILABLE is retriable in the table, not in kafka-go",
]

TWO_IN_FLIGHT = ("two produce round trips of one partition were in flight at the same time (an attempt abandoned inside the "
                 "RoundTripper and the batch re-sent, or a second partition writer registered for the partition while the first "
                 "is still sending)")
PRED_PROP = {
    "C08_limits_holds": "C08", "rejected_sends_nothing_holds": "C08", "verdict_holds": "C08",
    "C01_nil_holds": "C01", "C01_we_holds": "C01", "C01_compl_holds": "C01",
    "C01_compl_total_holds": "C01", "C01_no_foreign_holds": "C01", "C01_dups_holds": "C01",
    "C07_holds": "C07", "C09_after_close": "C09", "no_early_giveup_holds": "C01",
}
PRED_WHAT = {
    "C08_limits_holds": "a produce request exceeds BatchSize / BatchBytes or mixes topic-partitions",
    "rejected_sends_nothing_holds": "a message of a rejected call (too large / topic conflict / closed) was sent",
    "verdict_holds": "WriteMessages' validation verdict (MessageTooLarge index / topic error) differs from the rule",
    "C01_nil_holds": "WriteMessages returned nil but a message has no applied+acknowledged produce attempt in its partition / is not in the log",
    "C01_we_holds": "WriteErrors entries do not match the outcome of the messages' produce attempts",
    "C01_compl_holds": "Completion callback: message reported twice, with the wrong outcome, or not matching the call's result",
    "C01_compl_total_holds": "after Close returned an accepted message never reached the Completion callback",
    "C01_no_foreign_holds": "a message was appended to a partition the balancer did not choose",
    "C01_dups_holds": "log copies do not match applied attempts, or a batch was re-sent without a retriable failure / beyond MaxAttempts",
    "C07_holds": "per-goroutine submission order is not preserved in a partition log",
    "C09_after_close": "WriteMessages started after Close returned did not fail with io.ErrClosedPipe",
    "no_early_giveup_holds": "a batch was given up with an error the specification classifies as retriable (Kafka error table / "
                             "transient transport error such as a cut response = unexpected EOF) before MaxAttempts produce requests",
}
# failures of the tie itself (model vs code), relevant to all four properties
CORR_NAMES = ("det:", "log_is_journal", "unknown-message-id", "call-returned-unexpected-error")

_cache = {}


def generate(ctx=None):
    """Translator: coq/Gen/Skeleton.v (call and access facts with must-hold locksets) from
    /repo's current source; the Writer properties carry the obligation
    Cxx_skeleton_assumptions (Proofs/SkeletonWriter.v) over it."""
    from checks import c10
    return c10.generate(ctx)


def skeleton_hint():
    from checks import c10
    return c10.skeleton_hint("writer_assumptions", "Model/Writer.v")



def setup():
    L.go_build("writer")
    L.ocaml_build("writer")


def shared_run(ctx):
    key = (ctx.seed, ctx.tier)
    if key in _cache:
        return _cache[key]
    gobin = L.go_build("writer")
    model = L.ocaml_build("writer")
    n = ctx.scale(260, 6000)
    texts = []
    cdir = os.path.join(L.CORPUS, "WRITER")
    if os.path.isdir(cdir):
        for f in sorted(os.listdir(cdir)):
            texts.append(open(os.path.join(cdir, f)).read())
    rc, out, err, dt = L.sh([gobin, "-seed", str(ctx.seed), "-n", str(n)], timeout=3000)
    if rc != 0:
        raise L.Fail("correspondence", "harness cmd/writer crashed or timed out (a hang must be reported per scenario, not kill the run)",
                     (out[-1500:] + err[-2500:]))
    texts.append(out)
    cases = []
    for t in texts:
        for c in L.parse_cases(t):
            c["id"] = str(len(cases) + 1)
            c["line"] = c["id"] + " " + c["op"] + " " + c["args"]
            cases.append(c)
    res = L.run_model(model, "\n".join(c["line"] for c in cases) + "\n", timeout=3000)
    for c in cases:
        c["model"] = res.get(c["id"])
    r = dict(cases=cases, go_time=dt)
    _cache[key] = r
    return r


def failures_of_case(c):
    """[(property or '*', layer, what, key)] for one case."""
    op, go, model = c["op"], c["go"], c.get("model")
    out = []
    if model is None or model.startswith("EXN:") or model in ("BADCASE", "? BADLINE"):
        return [("*", "correspondence", f"model driver could not evaluate a {op} case: {model}", None)]
    if op in ("prr", "pr"):
        if go != model:
            # the model function is the property's own reading of the response ("only code 0 is
            # success; the other fields are copied"): a differing error verdict is a violation of
            # C01 (a failed batch reported as written, or a written one as failed)
            gi, mi = go.split(",") if op == "prr" else [go.split(":")[0]], model.split(",") if op == "prr" else [model.split(":")[0]]
            verdict_differs = len(gi) != len(mi) or any((a == "-") != (b == "-") for a, b in zip(gi, mi))
            if verdict_differs:
                out.append(("C01", "property",
                            "Client.Produce reports a produce response with a NON-ZERO partition error code as success (or a "
                            "zero code as failure): the batch is acknowledged to the Writer although the broker did not append it "
                            "(see the case: op prr sweeps all 65536 codes, go result '-' = reported as success)", None))
            else:
                out.append(("*", "correspondence", "Client.Produce's response mapping (error code value / Throttle / BaseOffset / "
                            "LogAppendTime / LogStartOffset / RecordErrors) differs from the model", None))
        return out
    if op == "trk":
        if go != "ok":
            out.append(("C09", "property", f"trickle scenario: {go[:100]}", None))
        elif model != "ok":
            out.append(("C08", "property",
                        "a produce request contains a message accepted more than BatchTimeout (+ an equal margin) after the first "
                        "message of that request: BatchTimeout does not count from the batch's opening (later adds keep the batch "
                        "open); the case lists, per request, the accept times in ms (timing class: the harness re-ran it once)", None))
        return out
    if op == "rtb":
        if go != model:
            out.append(("C01", "property",
                        "isTemporary || isTransientNetworkError classifies error class " + c["args"] + " (interchange code, hex) as "
                        + ("retriable" if go == "1" else "NOT retriable") + " but the specification (Kafka error table's retriable "
                        "column + transient transport errors: unexpected EOF, reset, broken pipe, refused, time-out) says the opposite: "
                        "the Writer gives up / keeps retrying where it must not", None))
        return out
    if op == "nwc":
        if go != model:
            out.append(("C08", "property",
                        "kafka.NewWriter does not carry a WriterConfig field over to the Writer (fields in order: batchSize, batchBytes, "
                        "maxAttempts, batchTimeout, backoffMin, backoffMax, readTimeout, writeTimeout, acks, async, balancer, compression, "
                        "topic, logger, errorLogger, brokers): the configured limits / options are silently replaced by defaults", None))
        return out
    if op in ("pdl", "pto"):
        if go != model:
            if op == "pdl" and go.split(":")[0] != model.split(":")[0] or op == "pto":
                out.append(("C01", "property",
                            "the produce round trip is not bounded by the effective WriteTimeout: the deadline the RoundTripper "
                            "receives differs from produce_deadline_ms (pdl), or an acknowledgement arriving within WriteTimeout "
                            "is abandoned and the batch re-sent / one arriving after it is awaited (pto: attempts:copies:result; "
                            "go = implementation, model = run of the transition system with timed_reaction)", None))
            else:
                out.append(("*", "correspondence", "the metadata lookup's deadline differs from the model (metadata_deadline_ms: the caller's context only)", None))
        return out
    if op == "cfgd":
        if go != model:
            out.append(("*", "correspondence", "the Writer's option accessors (batchSize()/batchBytes()/maxAttempts()/…: zero or "
                        "negative field -> documented default) differ from the model's cfg_of_options", None))
        return out
    if op in ("add", "size", "wm"):
        if go != model:
            what = {"add": "writeBatch.add/full differ from the model's add_fits/add_msg/full",
                    "size": "Message.totalSize differs from the model",
                    "wm": "partitionWriter.writeMessages (batch assignment, queue, current batch) differs from the model's pw_add"}[op]
            out.append(("*", "correspondence", what, None))
        return out
    if op == "f3":
        # regression scenario: a call passed enter(), Close marked the writer closed, then the
        # call's batchMessages ran.  Expected on both sides: returned:closed
        close_res, _, call_res = go.partition(":")
        if close_res == "hang":
            out.append(("C09", "property",
                        "Close never returns after a WriteMessages call that passed enter() before Close ran batchMessages "
                        "after Close emptied w.writers (regression of the fixed defect F3)", None))
        elif call_res not in ("closed",) or "produced" in c["feats"].split(","):
            out.append(("C09", "property",
                        f"a call whose batchMessages ran after Close did not fail with io.ErrClosedPipe / was sent ({go})", None))
        if go != model:
            out.append(("C09", "correspondence", f"batchMessages-after-Close scenario: implementation says {go}, model says {model}", None))
        return out
    if op in ("e2e", "wire"):
        if "two-in-flight" in c["feats"].split(",") and not go.startswith("ANOMALY:two-in-flight"):
            out.append(("C07", "property", TWO_IN_FLIGHT, None))
        if go.startswith("HANG:close"):
            out.append(("C09", "property", "Close did not return within the watchdog", None))
        elif go.startswith("HANG"):
            out.append(("C09", "property", f"a blocked operation did not return within the watchdog ({go})", None))
        elif go.startswith("ANOMALY:two-in-flight"):
            out.append(("C07", "property", TWO_IN_FLIGHT, None))
        elif go.startswith("LEAK:"):
            out.append(("C09", "property",
                        "after Writer.Close returned, goroutines / connections of the writer's own Transport are still alive "
                        "(connPool.discover, conn.run, open sockets or late requests; the counts are in the case's go result LEAK:…)", None))
        elif go.startswith("ANOMALY:record-attrs"):
            out.append(("C01", "property", "a record received by the broker differs from the submitted message with that identity "
                        "(key / timestamp / headers)", None))
        elif go.startswith("ANOMALY:completion-attrs"):
            out.append(("C01", "property", "Completion reports a message with a topic / partition / offset other than where the "
                        "acknowledged produce request appended it", None))
        elif go.startswith("PANIC"):
            out.append(("*", "property", f"the Writer panicked: {go[:200]}", None))
        elif go != "ok":
            out.append(("*", "correspondence", f"harness reported {go[:200]}", None))
        if model != "ok":
            names = model[5:].split(",") if model.startswith("FAIL:") else [model]
            for nm in names:
                if nm in PRED_PROP:
                    out.append((PRED_PROP[nm], "property", PRED_WHAT[nm], None))
                elif nm.startswith(CORR_NAMES):
                    out.append(("*", "correspondence",
                                "deterministic scenario: run of the model differs from the implementation (" + nm.split("@")[0] + ")"
                                if nm.startswith("det:") else "history not interpretable / fake inconsistent (" + nm + ")", None))
                else:
                    out.append(("*", "correspondence", "unknown verdict of the model driver: " + nm, None))
        return out
    return [("*", "correspondence", "unknown op " + op, None)]


def relevant(prop, c):
    """Does case c count as an evaluation for property prop?"""
    op = c["op"]
    if op == "e2e":
        if prop == "C09":
            return True
        return True
    if op == "f3":
        return prop == "C09"
    if op in ("add", "size"):
        return prop == "C08"
    if op in ("prr", "pr"):
        return prop == "C01"
    if op == "cfgd":
        return prop == "C08"
    if op in ("pdl", "pto", "rtb"):
        return prop == "C01"
    if op in ("nwc", "trk"):
        return prop == "C08"
    if op == "wire":
        return prop == "C07" or (prop == "C09" and "census" in c["feats"].split(","))
    if op == "wm":
        return prop in ("C08", "C07", "C01")
    return False


TRIVIAL_TAGS = {"callers=1", "sync", "det", "acked-only", "nondet", "times=zero"}


def nontrivial(c):
    if c["op"] == "wm":
        return "queued" in c["feats"] or "call-split" in c["feats"]
    if c["op"] == "prr":
        return True
    if c["op"] == "cfgd":
        return "zero-fields=0" not in c["feats"]
    if c["op"] in ("pdl", "pto"):
        return "rt=wt" not in c["feats"]
    if c["op"] in ("rtb", "nwc", "trk", "nwt"):
        return True
    if c["op"] == "wire":
        return "stall" in c["feats"] or "census" in c["feats"]
    if c["op"] == "pr":
        return c["feats"] not in ("code-zero", "")
    if c["op"] != "e2e":
        return c["op"] == "f3" or any(t in c["feats"] for t in ("exact", "full-by", "oversize", "beyond", "rejected"))
    tags = set(t for t in c["feats"].split(",") if t)
    return bool(tags - TRIVIAL_TAGS)


def correspondence_for(prop, ctx, rule_extra=""):
    r = shared_run(ctx)
    cases = [c for c in r["cases"] if relevant(prop, c)]
    failures, seen = [], set()
    for c in sorted(r["cases"], key=lambda c: 0 if c["op"] == "f3" else 1):
        for (p, layer, what, key) in failures_of_case(c):
            if p not in ("*", prop):
                continue
            k = (layer, what, key)
            if k in seen:
                continue
            seen.add(k)
            f = dict(layer=layer, what=what, key=key,
                     detail=json.dumps(dict(case=c["line"][:6000], go=c["go"][:300], model=str(c.get("model"))[:600],
                                            feats=c["feats"])))
            if layer == "property":
                f["input"] = dict(case=c["line"], go=c["go"], model=c.get("model"), feats=c["feats"])
            else:
                f["input"] = None
            failures.append(f)
    hist, dn = {}, set()
    for c in cases:
        for t in (c["feats"].split(",") if c["feats"] else [""]):
            hist[c["op"] + ":" + t] = hist.get(c["op"] + ":" + t, 0) + 1
        if nontrivial(c):
            dn.add(hashlib.sha1((c["op"] + " " + c["args"]).encode()).hexdigest())
    e2e = [c for c in cases if c["op"] == "e2e"]
    samples = [c["line"][:400] + " | " + c["go"][:60] + " | " + c["feats"][:120]
               for c in (cases[:2] + e2e[:2] + e2e[len(e2e)//2:len(e2e)//2+2] + cases[-1:])]
    return dict(
        evaluations=len(cases), distinct_nontrivial=len(dn), hist=hist, samples=samples, failures=failures,
        rule="cases from one PRNG (VERIF_SEED) in harness/cmd/writer: step-level (writeBatch.add/full with sizes at / one below / one above "
             "the limits; totalSize; partitionWriter.writeMessages call sequences; Client.Produce response mapping on all 65536 error codes (prr) and generated field values (pr)) and end-to-end scenario programs on the real Writer over "
             "the fakert RoundTripper fake (1-8 callers, sync/async, BatchSize 1..10, BatchBytes 60..2000, BatchTimeout 1-20 ms, MaxAttempts 1-4, "
             "fault scripts over acked / applied-but-answer-lost / error code (retriable, permanent; any non-zero int16 incl. the boundary codes -1, -2, -32768, 1, 127, 128, 255, 256, 32767; 42 fixed scenarios put 7 boundary codes at first attempt / after a retry / last attempt, sync and async) / network error (transient, permanent) / "
             "time-out, per-message attributes (Message.Time zero / increasing / equal / DECREASING / sub-millisecond / far apart, headers, nil-empty-long keys, nil-short values, caller-set Offset/Partition), topic conflicts, too-large messages first/middle/last, context cancellation, Close racing callers, calls after Close, "
             "metadata faults); an e2e case counts when both the implementation ran it and the extracted predicates judged its history; "
             "non-trivial = feature vector beyond {1 caller, sync, acked-only}; distinct by hash of op+args. " + rule_extra,
        extra=dict(go_run_s=round(r["go_time"], 1),
                   e2e_scenarios=len(e2e),
                   deterministic_model_runs=sum(1 for c in e2e if ",det" in "," + c["feats"] or c["feats"].startswith("det")),
                   failing_case_count=sum(1 for c in r["cases"] if any(p in ("*", prop) for (p, _, _, _) in failures_of_case(c)))))


def search_for(prop, ctx, violations):
    from checks import c10
    c10.annotate_skeleton_failure(ctx, violations, "SkeletonWriter", "writer_assumptions", "Model/Writer.v", "writer.go")
    ctx.seed += 1000
    ctx.tier = "thorough"
    ctx.thorough = True
    try:
        c = correspondence_for(prop, ctx)
    except L.Fail:
        return None
    for f in c["failures"]:
        if f.get("input"):
            return f["input"]
    return None


def replay(ctx, payload):
    inp = payload.get("input")
    if not inp:
        print("replay: no concrete input recorded; broken layer:", payload.get("broken"))
        print(payload.get("detail", "")[:3000])
        return 1
    line = inp["case"]
    print("replay case:", line[:3000])
    print("implementation result at the time:", inp.get("go"), " model verdict:", inp.get("model"))
    model = L.ocaml_build("writer")
    res = L.run_model(model, line + "\n")
    print("model verdict now:", res)
    if " f3 " in " " + line + " ":
        gobin = L.go_build("writer")
        rc, out, err, _ = L.sh([gobin, "-seed", str(ctx.seed), "-n", "0"], timeout=600)
        for l in out.splitlines():
            if " f3 " in l:
                print("implementation now:", l)
    return 1


# --------------------------------------------------------------------------------------------
# C17 (Writer half): resume after a produce response cut at byte k.  Called by checks/c17.py.
WCUT_PREFIX = "C17 writer resume after a cut produce response: "
WCUT_GO = {
    "HANG": "a WriteMessages call or Close did not return within the watchdog",
    "PANIC": "the Writer / Transport panicked",
    "ANOMALY:same-connection-after-cut": "the request after a cut response did not go out on a new connection",
    "ANOMALY:retried-request-differs": "a retried produce request does not carry the same records as the first attempt",
    "ANOMALY:success-without-ack": "a message was reported as written although no produce request for it was both applied "
                                   "and completely answered (the only request that reached the broker had its answer cut)",
}
WCUT_PRED = {
    "C01_nil_holds": "WriteMessages returned nil but a message has no applied and completely answered produce request / is not in the broker log",
    "C01_we_holds": "WriteErrors entries do not match the outcome of the messages' produce requests (nil entry without acknowledgement, or error without exhausting the attempts)",
    "C01_compl_holds": "Completion reported a message twice or with an outcome other than its last produce request's",
    "C01_compl_total_holds": "after Close an accepted message never reached the Completion callback",
    "C01_no_foreign_holds": "a message was appended to a partition the balancer did not choose",
    "C01_dups_holds": "copies in the log do not match the applied requests, a batch was re-sent with different records / without a lost answer / beyond MaxAttempts",
    "C07_holds": "per-partition submission order is not preserved across the retries",
    "C08_limits_holds": "a retried request exceeds the batch limits or mixes partitions",
    "rejected_sends_nothing_holds": "a message of a rejected call was sent",
    "verdict_holds": "validation verdict differs",
    "C09_after_close": "a call after Close did not fail with io.ErrClosedPipe",
    "no_early_giveup_holds": "a batch was given up after a cut response (unexpected EOF: retriable by the specification) before MaxAttempts produce requests",
}


def writer_cut_cases(ctx):
    """The real kafka.Writer on the real kafka.Transport over the wire-level fake broker of
    harness/cmd/writer (wire.go / wcut.go); the only fault: a produce response delivered up to
    byte k, then the connection lost (request applied or not).  Judged by the harness's own
    checks, by the extracted history predicates of Model/Writer.v (a cut answer is a lost
    acknowledgement) and, for deterministic scenarios, by a run of the extracted Writer model.
    Returns dict(evaluations, distinct_nontrivial, hist, failures, samples)."""
    gobin = L.go_build("writer")
    model = L.ocaml_build("writer")
    n = ctx.scale(300, 6000)
    rc, out, err, dt = L.sh([gobin, "-seed", str(ctx.seed), "-wcut", str(n)], timeout=1200)
    if rc != 0:
        raise L.Fail("correspondence", "harness cmd/writer -wcut crashed or timed out", (out[-1000:] + err[-2000:]))
    cases = L.parse_cases(out)
    for c in cases:
        c["line"] = c["id"] + " " + c["op"] + " " + c["args"]
    res = L.run_model(model, "\n".join(c["line"] for c in cases) + "\n", timeout=1200)
    failures, seen, hist, dn = [], set(), {}, set()
    for c in cases:
        c["model"] = res.get(c["id"])
        for t in (c["feats"].split(",") if c["feats"] else [""]):
            hist["wcut:" + t] = hist.get("wcut:" + t, 0) + 1
        if "cuts=0" not in c["feats"].split(","):
            dn.add(hashlib.sha1(c["args"].encode()).hexdigest())
        found = []   # (layer, what)
        go, m = c["go"], c["model"]
        if go != "ok":
            key = next((k for k in WCUT_GO if go.startswith(k)), None)
            found.append(("property", WCUT_GO.get(key, "the harness reported " + go[:120])))
        if m is None or m.startswith("EXN:") or m in ("BADCASE", "? BADLINE"):
            found.append(("correspondence", "the model driver could not evaluate the history: " + str(m)[:200]))
        elif m != "ok":
            for nm in (m[5:].split(",") if m.startswith("FAIL:") else [m]):
                if nm in WCUT_PRED:
                    found.append(("property", WCUT_PRED[nm]))
                elif nm.startswith("det:"):
                    found.append(("correspondence", "deterministic scenario: the run of the extracted Writer model (cut answer = lost "
                                  "acknowledgement) differs from the implementation (" + nm.split("@")[0] + ")"))
                else:
                    found.append(("correspondence", "history not interpretable / broker inconsistent (" + nm + ")"))
        for layer, what in found:
            if (layer, what) in seen:
                continue
            seen.add((layer, what))
            payload = dict(case=c["line"], go=go, model=m, feats=c["feats"], seed=ctx.seed,
                           replay="build/bin/writer -seed %d -wcut %d | grep '^%s ' ; echo '<case>' | build/bin/writer_model" % (ctx.seed, n, c["id"]))
            failures.append(dict(layer=layer, key=None, what=WCUT_PREFIX + what,
                                 detail=json.dumps(dict(case=c["line"][:6000], go=go[:300], model=str(m)[:600], feats=c["feats"])),
                                 input=payload if layer == "property" else None))
    samples = [c["line"][:500] + " | " + c["go"][:60] + " | " + c["feats"][:160] for c in cases[:3]]
    return dict(evaluations=len(cases), distinct_nontrivial=len(dn), hist=hist, failures=failures, samples=samples,
                extra=dict(wcut_go_run_s=round(dt, 1)))


# --------------------------------------------------------------------------------------------
# C18 (hosted): the Transport that kafka.NewWriter builds.  Called by checks/c18.py.
NWT_PREFIX = "C18 NewWriter transport: "


def newwriter_transport_cases(ctx):
    """kafka.NewWriter(WriterConfig{Dialer, IdleConnTimeout, RebalanceInterval}) on the real
    constructor: SASL / TLS / ClientID / IdleTimeout / MetadataTTL / Dial of the *kafka.Transport it
    builds (exported fields, read through w.Transport) against transport_of_writer_config of
    Model/Writer.v, over SASL set/unset x TLS set/unset x ClientID x Dialer nil and random durations
    (zero = default).  Returns dict(evaluations, distinct_nontrivial, hist, failures, samples)."""
    gobin = L.go_build("writer")
    model = L.ocaml_build("writer")
    n = ctx.scale(200, 4000)
    rc, out, err, dt = L.sh([gobin, "-seed", str(ctx.seed), "-nwt", str(n)], timeout=600)
    if rc != 0:
        raise L.Fail("correspondence", "harness cmd/writer -nwt crashed", (out[-1000:] + err[-2000:]))
    cases = L.parse_cases(out)
    for c in cases:
        c["line"] = c["id"] + " " + c["op"] + " " + c["args"]
    res = L.run_model(model, "\n".join(c["line"] for c in cases) + "\n")
    names = ["SASL", "TLS", "ClientID", "IdleTimeout", "MetadataTTL", "Dial"]
    failures, seen, hist, dn = [], set(), {}, set()
    for c in cases:
        m = res.get(c["id"])
        for t in (c["feats"].split(",") if c["feats"] else [""]):
            hist["nwt:" + t] = hist.get("nwt:" + t, 0) + 1
        dn.add(c["args"])
        if m == c["go"]:
            continue
        g, mm = c["go"].split(":"), (m or "").split(":")
        diff = [names[i] for i in range(min(len(g), len(mm), 6)) if g[i] != mm[i]] or ["result not interpretable"]
        if "SASL" in diff and len(g) > 0 and g[0] == "0":
            what = ("the Transport built by NewWriter has no SASL mechanism although WriterConfig.Dialer.SASLMechanism is set: "
                    "every connection sends its requests unauthenticated")
        else:
            what = "field(s) " + ", ".join(diff) + " of the Transport built by NewWriter differ from WriterConfig.Dialer / the config"
        if what in seen:
            continue
        seen.add(what)
        failures.append(dict(layer="property", key=None, what=NWT_PREFIX + what,
                             detail=json.dumps(dict(case=c["line"], go=c["go"], model=m, feats=c["feats"])),
                             input=dict(case=c["line"], go=c["go"], model=m, feats=c["feats"], seed=ctx.seed,
                                        replay="build/bin/writer -seed %d -nwt %d | grep '^%s '" % (ctx.seed, n, c["id"]))))
    return dict(evaluations=len(cases), distinct_nontrivial=len(dn), hist=hist, failures=failures,
                samples=[c["line"] + " | " + c["go"] + " | " + c["feats"] for c in cases[:4]])
