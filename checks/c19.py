"""C19 — offset and metadata queries report exactly the brokers' state (DESIGN.md section 7, C19)."""
import json, os
import checklib as L

TRUSTED_BASE = [
    "Coq 8.16.1 kernel (coqc; coqchk in the thorough tier); vm_compute used only in non-vacuity Examples; no native_compute",
    "hand-written model coq/Model/Queries.v of conn.go Seek/ReadOffsets/readOffset/ReadPartitions, protocol/listoffsets Split/Merge, listoffset.go, offsetfetch.go, offsetcommit.go, metadata.go, client.go ConsumerOffsets; tied by the differential run of harness/cmd/c19 (real code, build tag verif, exported API only: no hook file) against the OCaml extraction (ExtrOcamlBasic only)",
    "harness/cmd/c19 fakeRT.RoundTrip replays transport.go (*connPool).roundTrip's Splitter path by hand (Split, one round trip per message routed by (*Request).Broker, results joined in order as in joined.await, Merge); the pooled Transport itself is exercised only by the end-to-end family (harness/cmd/c19/e2e.go: Client.ListOffsets/OffsetFetch/OffsetCommit through the real kafka.Transport against a wire-level multi-broker fake with broker ids from 0 and the bootstrap address on a non-zero broker, every broker answering only for the partitions it leads / groups it coordinates); connection faults, metadata refresh and retries are C12's",
    "the version sweep decodes REQUESTS with /repo/protocol's ReadRequest but lays RESPONSES out by hand (transcribed from the Kafka protocol guide, trusted); elsewhere the wire-level peer uses /repo/protocol's own ReadRequest/WriteResponse (list offsets v1, metadata v1/v6, ApiVersions v0) to talk to the legacy Conn decoders: a symmetric encode/decode defect of both would go unnoticed here (C04 covers the codecs)",
    "sort.Slice in Merge is not stable: merged partitions are compared after a total re-sort and a separate 'sorted by (partition, offset)' flag; Offsets-map entries written twice with different times are compared as '*'",
    "ocaml/kvio.ml.in + ocaml/c19_driver.ml (hex interchange and formatting, ~230 lines) and harness/kvfmt; the Python predicates below (independent re-statement of the property on the implementation's output)",
    "timestamps are int64 milliseconds end to end; time.Time conversion (timestamp/makeTime) is observed through Unix milliseconds only",
]
ASSUMPTIONS = [
    "offsets held by brokers satisfy 0 <= first <= last < 2^63; Seek arguments and c.offset are any int64, SeekCurrent stated without int64 overflow of current+offset (the wrap is modelled and exercised); SeekAbsolute to the offset the connection already holds is answered without a broker round trip and hence without range check (documented optimisation, part of C19_seek_spec)",
    "C19_listoffsets_exact / C19_error_isolation assume each answering leader returns exactly the one (topic, partition) it was asked (any error code, timestamp, offset); arbitrary answers are covered by the model and the differential only",
    "mapping theorems with map-valued results assume topic names (resp. partition ids for ConsumerOffsets) are not repeated in the broker's response; repeated keys follow Go map semantics in the model and the differential",
]

M63 = 1 << 63


def hz(s):
    return -int(s[1:], 16) if s.startswith("-") else int(s, 16)


def wrap64(v):
    return (v + M63) % (1 << 64) - M63


# ---------------------------------------------------------------- property predicates on the implementation's own output

def seek_predicate(args, res):
    """Every step of a Seek history against the property text: SeekStart first+offset,
    SeekEnd last-offset, SeekAbsolute offset, SeekCurrent current+offset with current as
    Conn.Offset reports it (first / last for the FirstOffset / LastOffset placeholders);
    OffsetOutOfRange exactly outside [first,last] unless SeekDontCheck applies or the
    offset is unchanged; c.offset unchanged on every error."""
    cur = -2
    steps, outs = args.split(" "), res.split(",")
    if len(steps) != len(outs):
        return False
    for st, o in zip(steps, outs):
        off, whence, ans = st.split("/")
        off, whence = hz(off), hz(whence)
        a = ans.split(":")
        r, new, nreq = o.split("/")
        new, nreq = hz(new), hz(nreq)
        dont = bool(whence & (1 << 30))
        w = whence & ~(1 << 30)
        if w not in (0, 1, 2, 3):
            if not (r == "bw" and new == cur and nreq == 0):
                return False
            continue
        if dont and (w == 1 or (w == 3 and cur not in (-1, -2))):
            t = off if w == 1 else wrap64(cur + off)
            if not (r == "ok:%s" % fmt(t) and new == t and nreq == 0):
                return False
            cur = new
            continue
        if w == 1 and off == cur:
            # the unchanged-offset shortcut: no broker round trip
            if not (r == "ok:%s" % fmt(off) and new == cur and nreq == 0):
                return False
            continue
        if a[0] == "F":
            if not (r == "err:" + a[1] and new == cur and nreq == 1):
                return False
            continue
        if a[0] == "L":
            if not (r == "err:" + a[2] and new == cur and nreq == 2):
                return False
            continue
        first, last = hz(a[1]), hz(a[2])
        current = first if cur == -2 else last if cur == -1 else cur
        t = {0: first + off, 1: off, 2: last - off, 3: current + off}[w]
        if nreq != 2:
            return False
        if not (-M63 <= t < M63):
            t = wrap64(t)  # int64 wrap: reachable only with offsets outside what a broker holds
        if first <= t <= last:
            if not (r == "ok:%s" % fmt(t) and new == t):
                return False
            cur = new
        else:
            if not (r == "err:1" and new == cur):
                return False
    return True


def fmt(v):
    return ("-%x" % -v) if v < 0 else ("%x" % v)


def parse_resp_topics(s):
    out = []
    if s in (".", ""):
        return out
    for t in s.split(";"):
        name, parts = t.split(":")
        for p in (parts.split(",") if parts else []):
            out.append((name,) + tuple(p.split("/")))
    return out


def merge_predicate(args, res):
    """Faithful cases: exactly one entry per sub-request: the leader's answer with the
    requested timestamp, or (-1,-1,-1,-1) on that partition when the sub-request failed;
    sorted; first error when everything failed."""
    reqs, results = args.split(" ")
    reqs = [] if reqs == "." else reqs.split("~")
    results = [] if results == "." else results.split("~")
    if len(reqs) != len(results):
        return True
    expected = []
    nfail = 0
    throttle = 0
    for q, r in zip(reqs, results):
        rep, iso, topics = q.split("@")
        if topics == "." or ";" in topics or "," in topics or topics.endswith(":"):
            return True   # not a request produced by Split: judged by the model only
        name, part = topics.split(":")
        p, ep, ts = part.split("/")
        if r.startswith("E"):
            nfail += 1
            expected.append((name, p, "-1", "-1", "-1", "-1"))
        else:
            th, ts_ = r[1:].split("@")
            throttle = max(throttle, hz(th))
            ents = parse_resp_topics(ts_)
            if len(ents) != 1 or ents[0][0] != name or ents[0][1] != p:
                return True   # not a faithful answer: not judged here
            e = ents[0]
            expected.append((name, p, e[2], ts, e[4], e[5]))
    if reqs and nfail == len(reqs):
        return res == results[0]
    if not res.startswith("R"):
        return False
    th, topics, flag = res[1:].split("@")
    if flag != "s1" or hz(th) != throttle:
        return False
    return sorted(parse_resp_topics(topics)) == sorted(expected)


def lo_predicate(args, res):
    """Client.ListOffsets against the fake cluster's answers: per (topic, partition):
    FirstOffset/LastOffset are the leader's answers when asked and answered, every other
    timestamp's offset is a key of Offsets, the error is one of that partition's own errors
    (and there is one iff the partition had one), nothing about another partition leaks."""
    iso, ulist, outcomes = args.split(" ")
    q, r = res.split(" ", 1)
    if "ROUTE-BAD" in q or "PANIC" in r:
        return False
    user = []
    if ulist != ".":
        for t in ulist.split(";"):
            name, parts = t.split(":")
            for p in (parts.split(",") if parts else []):
                pp, ts = p.split("/")
                user.append((name, hz(pp), hz(ts)))
    outs = [] if outcomes == "." else outcomes.split("~")
    if len(outs) != len(user):
        return False
    if user and all(o.startswith("F") for o in outs):
        return r == "E" + outs[0].split("/")[1]
    if not r.startswith("R"):
        return False
    th, ents = r[1:].split("@")
    got = {}
    if ents != ".":
        for e in ents.split(","):
            name, p, first, last, err, offs = e.split("/")
            got[(name, hz(p))] = (hz(first), hz(last), hz(err), {} if offs == "." else dict(x.split("=") for x in offs.split("+")))
    want = {}
    for (name, p, ts), o in zip(user, outs):
        w = want.setdefault((name, p), dict(first=[], last=[], times=[], errs=set(), failed=False))
        f = o.split("/")
        if f[0] == "F":
            w["failed"] = True
            w["errs"].add(-1)
            continue
        err, off = hz(f[1]), hz(f[3])
        if err != 0:
            w["errs"].add(err)
        if ts == -2:
            w["first"].append(off)
        elif ts == -1:
            w["last"].append(off)
        else:
            w["times"].append((off, max(ts, 0) if ts > 0 else 0))
    if set(got) != set(want):
        return False
    for k, w in want.items():
        first, last, err, offs = got[k]
        if (err != 0) != bool(w["errs"]) or (err != 0 and err not in w["errs"]):
            return False
        if w["failed"]:
            continue      # a failed sub-request of this partition: its own entry carries the error
        if w["first"] and first not in w["first"]:
            return False
        if not w["first"] and first != -1:
            return False
        if w["last"] and last not in w["last"]:
            return False
        if not w["last"] and last != -1:
            return False
        keys = {fmt(o) for o, _ in w["times"]}
        if keys != set(offs):
            return False
        for o, t in w["times"]:
            v = offs[fmt(o)]
            if v != "*" and v not in {fmt(t2) for o2, t2 in w["times"] if o2 == o}:
                return False
    return True


def of_predicate(args, res):
    """OffsetFetch: every partition of the broker's response comes back with its own
    committed offset, metadata and error (topics not repeated)."""
    ulist, th, err, topics = args.split(" ")
    q, r = res.split(" ", 1)
    if "BAD" in q:
        return False
    names = [t.split(":")[0] for t in topics.split(";")] if topics != "." else []
    if len(set(names)) != len(names):
        return True
    if q[1:] != ("-" if ulist == "." else ulist):
        return False
    head, rt = r[1:].split("@")
    if head != th + "/" + err:
        return False
    return sorted(topics.split(";")) == sorted(rt.split(";"))


def md_predicate(args, res):
    """Metadata / ReadPartitions-independent part: every partition's leader is the broker
    registered under the leader id (last registration wins), or the zero broker."""
    th, cl, ctrl, bs, ts = args.split(" ")
    if "BAD" in res:
        return False
    reg = {}
    if bs != ".":
        for b in bs.split(","):
            i, h, p, r = b.split("/")
            reg[i] = "_".join((i, h, p, r))
    rth, rcl, rctrl, rbs, rts = res.split(" ")
    if rth != th or rcl != cl or rctrl != reg.get(ctrl, "0_._0_."):
        return False
    want = []
    if ts != ".":
        for t in ts.split(";"):
            hd, parts = t.split(":")
            e, n, i = hd.split("/")
            for p in (parts.split(",") if parts else []):
                pe, idx, leader, reps, isr, off = p.split("/")
                conv = lambda l: "." if l == "." else "+".join(reg.get(x, "0_._0_.") for x in l.split("+"))
                want.append("/".join((n, idx, pe, reg.get(leader, "0_._0_."), conv(reps), conv(isr), ".")))
    got = []
    if rts != ".":
        for t in rts.split(";"):
            hd, parts = t.split(":")
            got += parts.split(",") if parts else []
    return got == want


def rp_predicate(args, res):
    """ReadPartitions: the error of the first failing topic that concerns the connection,
    else every partition of the response in order with its own id and error code."""
    v6, ct, th, cl, ctrl, bs, ts = args.split(" ")
    if "BAD" in res:
        return False
    want = []
    if ts != ".":
        for t in ts.split(";"):
            hd, parts = t.split(":")
            e, n, i = hd.split("/")
            if e != "0" and (ct == "." or n == ct):
                return res == "err:" + e
            for p in (parts.split(",") if parts else []):
                f = p.split("/")
                want.append((n, f[1], f[0]))
    if not res.startswith("ok:"):
        return False
    got = [] if res == "ok:." else [tuple(p.split("/")[:3]) for p in res[3:].split(",")]
    return got == want


def rpq_predicate(args, res):
    """ReadPartitions against a broker that answers what is on the wire.  Stated from the
    caller's side: the topics asked are the caller's, else the connection's, else ALL
    (a null array on the wire, never an empty one), and the result lists exactly the
    cluster's partitions (topic, id, error) of those topics, in order — or the error of
    the first failing topic that concerns the connection."""
    v6, ct, arg, th, cl, ctrl, bs, ts = args.split(" ")
    q, r = res.split(" ", 1)
    if "BAD" in r or "?" in q:
        return False
    names = [] if arg in ("-", ".") else arg.split(",")
    if not names and ct != ".":
        names = [ct]
    wire = ",".join(names) if names else "-"
    if q != "Q" + wire:
        return False
    cluster = []
    if ts != ".":
        for t in ts.split(";"):
            hd, parts = t.split(":")
            e, n, i = hd.split("/")
            cluster.append((n, e, [tuple(p.split("/")[:2]) for p in (parts.split(",") if parts else [])]))
    if names:
        asked, seen = [], set()
        for n in names:
            if n in seen:
                continue
            seen.add(n)
            hit = [c for c in cluster if c[0] == n]
            asked.append(hit[0] if hit else (n, "3", []))
    else:
        asked = cluster
    want = []
    for n, e, parts in asked:
        if e != "0" and (ct == "." or n == ct):
            return r == "err:" + e
        want += [(n, idx, pe) for pe, idx in parts]
    if not r.startswith("ok:"):
        return False
    got = [] if r == "ok:." else [tuple(p.split("/")[:3]) for p in r[3:].split(",")]
    return got == want


def addr_predicate(args, res):
    """Which cluster answers a Client query: the one at the request's Addr when it has one,
    else at the client's Addr; with neither, the documented error and no round trip.  The
    result must be that cluster's state (for the APIs the fake clusters implement)."""
    api, req, cl = args.split(" ")
    eff = req if req != "-" else cl
    if eff == "-":
        return res == "err"
    stateful = api in ("ListOffsets", "Metadata", "OffsetFetch", "OffsetCommit", "ConsumerOffsets")
    return res == eff + "/" + (eff if stateful else "-")


def fan_predicate(args, res):
    """Fan-out / merge APIs (ListGroups, DescribeGroups, DescribeConfigs): NO SILENT DROP — when a
    sub-response was lost the call returns an error, or the result marks every affected part with
    an error (item 'label/<non-zero code>/...'); never a shorter list with a nil error.  Healthy
    parts report exactly their brokers' answers."""
    api, parts = args.split(" ")
    if "SLOW" in res:
        return False
    failed, want = [], []
    for p in parts.split(","):
        label, items = p.split(":")
        if items == "F":
            failed.append(label)
        elif items != ".":
            want += items.split("+")
    if res == "ERR":
        return bool(failed)
    if not res.startswith("OK:"):
        return False
    got = [] if res[3:] == "." else res[3:].split("+")
    marked = []
    for label in failed:
        m = [g for g in got if g.split("/")[0] == label and len(g.split("/")) > 1 and g.split("/")[1] != "0"]
        if not m:
            return False          # a lost part neither failed the call nor is marked with an error
        marked += m
    return sorted(g for g in got if g not in marked) == sorted(want)


PREDICATES = dict(fan=fan_predicate, addr=addr_predicate, rpq=rpq_predicate, merge=merge_predicate, lo=lo_predicate, of=of_predicate, md=md_predicate, rp=rp_predicate,
                  seek=seek_predicate)


def classify(c):
    """A go/model disagreement: does the implementation's own output violate C19?"""
    op = c["op"]
    go = c["go"]
    if "REQUEST-BAD" in go or "ROUTE-BAD" in go or "STATE-BAD" in go:
        return dict(layer="property", what=f"{op}: the request sent to the broker is not the one asked for, or the result differs from the fake cluster's state", input=c)
    if op in PREDICATES and op != "rp":
        try:
            ok = PREDICATES[op](c["args"], go)
        except Exception:
            ok = False
        if ok:
            return dict(layer="correspondence", what=f"{op}: model and code differ but the implementation's result matches the brokers' answers", input=None)
        return dict(layer="property", what=f"{op}: the result does not report exactly what the brokers answered", input=c)
    # split, oc, co, roff, rp (its predicate covers ids and errors only): structure-preserving maps proved exact for the model: a
    # differing result is a value the broker did not send (or sent for another partition)
    return dict(layer="property", what=f"{op}: result differs from the broker's response as mapped by the verified model", input=c)


def setup():
    L.go_build("c19")
    L.ocaml_build("c19")


def correspondence(ctx):
    gobin = L.go_build("c19")
    model = L.ocaml_build("c19")
    n = ctx.scale(20000, 200000)
    texts = []
    cdir = os.path.join(L.CORPUS, "C19")
    if os.path.isdir(cdir):
        for f in sorted(os.listdir(cdir)):
            texts.append(open(os.path.join(cdir, f)).read())
    rc, out, err, dt = L.sh([gobin, "-seed", str(ctx.seed), "-n", str(n)], timeout=3000)
    if rc != 0:
        raise L.Fail("correspondence", "harness cmd/c19 crashed (panic in a query method?)", (out[-1500:] + err[-2500:]))
    texts.append(out)
    # the cut-response families hosted for C17 (ListOffsets sub-responses and the fan-out mergers
    # ListGroups / DescribeGroups / DescribeConfigs), thinly sampled: they tie concat_merge /
    # listgroups_merge of the model to the code in C19's own run as well
    rc, out2, err2, _ = L.sh([gobin, "-seed", str(ctx.seed), "-subset", "cut", "-cutstride", str(ctx.scale(5, 1))], timeout=600)
    if rc != 0:
        raise L.Fail("correspondence", "harness cmd/c19 -subset cut crashed", (out2[-1500:] + err2[-2500:]))
    texts.append("\n".join(l for l in out2.splitlines() if " cutof " not in l) + "\n")
    cases = []
    for t in texts:
        for c in L.parse_cases(t):
            c["id"] = str(len(cases) + 1)
            c["line"] = c["id"] + " " + c["op"] + " " + c["args"]
            cases.append(c)
    res = L.run_model(model, "\n".join(c["line"] for c in cases) + "\n")
    bad = L.diff_cases(cases, res)
    failures = []
    for c in bad[:20]:
        f = classify(c)
        f["detail"] = json.dumps(dict(case=c["line"][:2000], go=c["go"][:800], model=str(c.get("model"))[:800]))
        if f.get("input") is not None:
            f["input"] = dict(case=c["line"], go=c["go"], model=c.get("model"))
        failures.append(f)
    # the property predicates evaluated on the implementation's own output
    nfail = 0
    for c in cases:
        op = c["op"]
        ok = True
        try:
            if op != "fan" and (c["go"] in ("ERR", "NOREQUEST") or "BAD" in c["go"]):
                ok = False
            elif op in PREDICATES:
                ok = PREDICATES[op](c["args"], c["go"])
        except Exception:
            ok = False
        if not ok and nfail < 20:
            nfail += 1
            failures.append(dict(layer="property", what=f"{op}: the implementation's result does not satisfy the C19 predicate (independent of the model)",
                                 detail=c["line"][:1500] + " -> " + c["go"][:600], input=dict(case=c["line"], go=c["go"])))
    # the regression cases (once defects of /repo) must have been run
    for tag in ("shortcut-example", "regression-current-sentinel", "regression-partition-error"):
        if not any(tag in c["feats"] for c in cases):
            failures.append(dict(layer="correspondence", what=f"regression case {tag} was not run on the implementation", detail="", input=None))
    # every shape of the ReadPartitions argument must have met a Conn with and without topic on both metadata versions
    for shape in ("arg-none", "arg-nil-slice", "arg-empty-nonnil", "arg-empty-cfg", "arg-resliced-empty", "arg-one", "arg-several", "arg-duplicates"):
        for conn in ("no-conn-topic", "conn-topic"):
            for ver in ("v1", "v6"):
                if not any(c["op"] == "rpq" and {shape, conn, ver} <= set(c["feats"].split(",")) for c in cases):
                    failures.append(dict(layer="correspondence", what=f"ReadPartitions case {shape} x {conn} x {ver} was not run on the implementation", detail="", input=None))
    # the end-to-end family (real Transport, broker ids from 0, bootstrap on a non-zero broker) must have asked broker 0's partitions / groups
    for op in ("lo", "of", "oc"):
        if not any(c["op"] == op and {"e2e", "owner=broker-0"} <= set(c["feats"].split(",")) for c in cases):
            failures.append(dict(layer="correspondence", what=f"end-to-end {op} case owned by broker 0 was not run through the real Transport", detail="", input=None))
    # transport-level faults under the real Transport: each kind must have hit a call in which another sub-request succeeded
    for kind in ("refused", "dropped", "ghost-leader", "hidden-partition"):
        if not any(c["op"] == "lo" and {"e2e", "fault=" + kind, "some-failed"} <= set(c["feats"].split(",")) for c in cases):
            failures.append(dict(layer="correspondence", what=f"end-to-end ListOffsets with a {kind} sub-request next to a healthy one was not run", detail="", input=None))
    if not any(c["op"] == "lo" and {"e2e", "all-failed"} <= set(c["feats"].split(",")) for c in cases):
        failures.append(dict(layer="correspondence", what="end-to-end ListOffsets with every sub-request failing was not run", detail="", input=None))
    # version sweep: every registered version of the four query APIs (and ConsumerOffsets over every OffsetFetch version)
    for api, lo_v, hi_v in (("of", 0, 5), ("lo", 1, 5), ("md", 0, 8), ("oc", 0, 7), ("co", 0, 5)):
        for v in range(lo_v, hi_v + 1):
            if not any(c["op"] == api and {"ver-sweep", "v=%d" % v} <= set(c["feats"].split(",")) for c in cases):
                failures.append(dict(layer="correspondence", what=f"version sweep: {api} at version {v} was not run through the real Transport", detail="", input=None))
    # every stateful Client query must have met every address configuration
    for api in ("ListOffsets", "Metadata", "OffsetFetch", "OffsetCommit", "ConsumerOffsets"):
        for cfg in ("addr=client-only", "addr=request-only", "addr=both-same", "addr=both-different", "addr=neither"):
            if api == "ConsumerOffsets" and cfg not in ("addr=client-only", "addr=neither"):
                continue
            if not any(c["op"] == "addr" and {"api=" + api, cfg} <= set(c["feats"].split(",")) for c in cases):
                failures.append(dict(layer="correspondence", what=f"Client.{api} was not run in address configuration {cfg}", detail="", input=None))
    ev, dn, hist = L.coverage_counts(cases, trivial_feats=("", "faithful,none-failed,subs=1", "none-failed", "subs=0", "no-topics", "v1", "v6", "faithful,first", "faithful,last", "faithful,time", "absolute", "start", "end"))
    ops = {}
    for c in cases:
        ops[c["op"]] = ops.get(c["op"], 0) + 1
    # queries after a broker was re-registered under its id at a new address (checks/c12.py moved_broker_cases)
    try:
        import importlib
        mb = importlib.import_module("checks.c12").moved_broker_cases(ctx)
        failures += mb.get("failures", [])
        ev += mb.get("evaluations", 0)
        dn += mb.get("distinct_nontrivial", 0)
        hist.update(mb.get("hist", {}))
        ops["moved-broker (hosted from C12)"] = mb.get("evaluations", 0)
    except (ModuleNotFoundError, AttributeError):
        pass
    return dict(evaluations=ev, distinct_nontrivial=dn, hist=hist,
                extra=dict(cases_per_op=ops),
                rule="cases from one PRNG (VERIF_SEED). Tier 1: listoffsets Split/Merge called directly on requests with 0..5 topics (names repeated, empty, non-ASCII), "
                     "0..32 partition entries per topic (partitions repeated with equal/different timestamps, >12 entries to leave sort.Slice's insertion-sort range), "
                     "sub-results = faithful answers (error codes, returned timestamps, tied offsets), failures (none/some/all), adversarial responses (other topics/partitions, empty arrays), "
                     "and Merge on requests not produced by Split incl. fewer/more results than requests. Tier 2: Client.ListOffsets/OffsetFetch/OffsetCommit/ConsumerOffsets/Metadata through a fake RoundTripper "
                     "over generated clusters (1-5 brokers some unreachable, 1-5 topics, 1-6 partitions with log start/end, timestamp index, leader, epoch, per-partition errors, committed offsets per group, commit/fetch errors, "
                     "unknown topics/partitions, duplicate node ids, unknown/-1 leaders). Tier 2b: two fake clusters with the same topics but different leaders, offsets and committed positions behind one RoundTripper keyed by address; ListOffsets/Metadata/OffsetFetch/OffsetCommit/ConsumerOffsets and 27 other Client methods in the address configurations {client Addr only, request Addr only, both same, both different, neither}: who was asked and whose state came back. Tier 2c (end to end): the same three Client queries through the real Transport against 2-4 wire-level brokers (ids from 0, bootstrap never broker 0), expected outcomes = the owners' answers; plus multi-partition ListOffsets with transport-level faults per sub-request (leader's dial refused, connection dropped on the request, leader id absent from the broker list, partition absent from the metadata; one, several, all): expectation = the model's Merge over the positionally aligned outcomes (healthy partitions report the owners' offsets, the faulty ones carry an error, the call fails only when every sub-request failed). Version sweep (harness/cmd/c19/versions.go): the fake brokers' ApiVersions answer pins the highest version of one API, so the library negotiates exactly v: OffsetFetch v0-v5 (+ ConsumerOffsets), ListOffsets v1-v5, Metadata v0-v8, OffsetCommit v0-v7 through the real Transport; the responses are laid out by hand from the Kafka protocol guide per version (throttle_time_ms, top-level error_code, leader epochs, rack, cluster_id, controller_id, is_internal, offline replicas, authorized operations from the version that introduced them; none of these versions is flexible), the expected result is what a broker of that version conveys, the brokers check that the version they saw is the pinned one. Tier 3: Conn.Seek histories of 1..6 steps (all whence values, SeekDontCheck, invalid whence, moving log bounds, boundary and +-1 offsets, "
                     "int64 extremes, broker errors on the first/second request) plus regression cases (SeekCurrent from the FirstOffset/LastOffset placeholders, leaderless partition in ReadPartitions), ReadFirstOffset/ReadLastOffset/ReadOffset and ReadPartitions (metadata v1 and v6) against a wire-level peer over net.Pipe; ReadPartitions argument shapes {no argument, nil slice, empty non-nil slice (literal, empty config, l[:0]), one topic, several, duplicates} x Conn {with, without topic} x metadata {v1, v6} against a peer that holds a cluster and answers according to the topic array decoded by hand from the raw request frame (null = all topics, empty = none, list = those). "
                     "A case is non-trivial when its feature vector is not a happy-path default (single faithful answer, no failure, plain whence); distinct by hash of op+args",
                samples=[c["line"][:300] + " | " + c["go"][:120] for c in cases[:2] + cases[len(cases)//3:len(cases)//3+2] + cases[2*len(cases)//3:2*len(cases)//3+2] + cases[-2:]],
                failures=failures)


def search(ctx, violations):
    """An obligation or the correspondence broke without a concrete input: run a larger
    differential with another seed and return the first case whose implementation output
    violates a property predicate."""
    ctx.seed += 1000
    ctx.tier = "thorough"
    ctx.thorough = True
    try:
        c = correspondence(ctx)
    except L.Fail:
        return None
    for f in c["failures"]:
        if f.get("input"):
            return f["input"]
    return None


def replay(ctx, payload):
    inp = payload.get("input")
    if not inp:
        print("replay: no concrete input recorded; broken layer:", payload.get("broken"))
        print(payload.get("detail", "")[:3000])
        return 1
    print("replay case:", inp["case"][:1500])
    print("go result at the time:", inp.get("go"), " model:", inp.get("model"))
    model = L.ocaml_build("c19")
    res = L.run_model(model, inp["case"] + "\n")
    print("model now:", res)
    print("the case was generated by: build/bin/c19 -seed %s (same op/args); Seek/merge cases can be replayed by adding them to corpus/C19/" % payload.get("seed"))
    return 1


# ---------------------------------------------------------------- hosted for C17

def _model_exe():
    """The extracted model does not depend on /repo: reuse build/bin/c19_model when it is newer than
    everything it is built from (saves the ~10 s of extraction + ocamlopt in a hosted call)."""
    exe = os.path.join(L.BIN, "c19_model")
    srcs = [os.path.join(L.COQ, "Model/Queries.v"), os.path.join(L.COQ, "Lib/Bits.v"), os.path.join(L.COQ, "Extract/C19.v"),
            os.path.join(L.OCAML, "c19_driver.ml"), os.path.join(L.OCAML, "kvio.ml.in")]
    try:
        if os.path.getmtime(exe) > max(os.path.getmtime(f) for f in srcs):
            return exe
    except OSError:
        pass
    return L.ocaml_build("c19")


def listoffsets_cut_cases(ctx):
    """C17's clause on the Transport's split ListOffsets (and on OffsetFetch): Client.ListOffsets over
    several partitions / leaders through the REAL kafka.Transport against the wire-level multi-broker
    fake of harness/cmd/c19/e2e.go, where for one, two or all leaders every ListOffsets response is
    delivered up to byte k and the connection is then lost; k = 0, s, 2s, ... beyond the end of the
    frame (size prefix, correlation id, throttle, topic array, topic name, partition array,
    partition id / error, timestamp / offset, leader epoch; Split makes every sub-response carry one
    entry, so "between entries" is between the fields of that entry).  Each call is followed by the
    same call after the brokers answer in full again.  Client.OffsetFetch (one round trip to the
    coordinator) is cut the same way.
    Predicate on the implementation's own output: a partition whose sub-response was cut carries a
    non-nil Error (or the whole call fails, when every sub-request failed) — never offsets presented
    as valid; healthy partitions report their owners' answers; the call returns well within its
    deadline; the following call works (fresh connections) and reports every owner's answer.  The
    ListOffsets cases are also compared with the extracted model (failed sub-request -> Merge's
    placeholder -> error on that partition, Model/Queries.v split_round_trip / listoffsets_client).
    The same for the other fan-out / merge APIs of the Transport (every protocol.Merger of /repo/protocol):
    Client.ListGroups (one request per broker), Client.DescribeGroups (one per group, to its
    coordinator), Client.DescribeConfigs (one per broker resource): one or two brokers' responses cut
    at byte k; predicate NO SILENT DROP (fan_predicate): the call returns an error or marks every
    affected part with an error — never a shorter list with a nil error; compared with the model's
    concat_merge / listgroups_merge (theorems C19_fanout_no_silent_drop, C19_listgroups_no_silent_drop).
    Client.Metadata is not cut here: the Transport serves it from its cache, a cut metadata response
    is the pool's refresh path (C12)."""
    gobin = L.go_build("c19")
    model = _model_exe()
    stride = 1
    rc, out, err, dt = L.sh([gobin, "-seed", str(ctx.seed), "-subset", "cut", "-cutstride", str(stride)], timeout=600)
    if rc != 0:
        raise L.Fail("correspondence", "harness cmd/c19 -subset cut failed", (out[-1500:] + err[-2500:]))
    cases = L.parse_cases(out)
    for i, c in enumerate(cases):
        c["id"] = str(i + 1)
        c["line"] = c["id"] + " " + c["op"] + " " + c["args"]
    lo = [c for c in cases if c["op"] == "lo"]
    withmodel = [c for c in cases if c["op"] in ("lo", "fan")]
    res = L.run_model(model, "\n".join(c["line"] for c in withmodel) + "\n") if withmodel else {}
    failures, hist, nontrivial = [], {}, set()

    def fail(c, what):
        if len(failures) < 6:
            failures.append(dict(layer="property", what=what, key=None,
                                 detail=c["line"][:1200] + " -> " + c["go"][:500],
                                 input=dict(case=c["line"], go=c["go"], model=res.get(c["id"]), seed=ctx.seed,
                                            replay="build/bin/c19 -seed %d -subset cut -cutstride %d" % (ctx.seed, stride))))

    for c in cases:
        fs = c["feats"].split(",")
        region = next((f for f in fs if f.startswith("cut=") or f in ("not-cut", "after-cut", "cut")), "?")
        fam = "listoffsets-cut:" if c["op"] == "lo" else "offsetfetch-cut:" if c["op"] == "cutof" else next((f[4:].lower() for f in fs if f.startswith("api=")), "fan") + "-cut:"
        hist[fam + region] = hist.get(fam + region, 0) + 1
        if region not in ("not-cut",):
            nontrivial.add(c["op"] + " " + c["args"])
        if c["op"] == "lo":
            k = next((f for f in fs if f.startswith("k=")), "k=?")
            where = ("the call following a cut (byte %s)" % k[2:]) if "after-cut" in fs else ("sub-response cut at byte %s [%s]" % (k[2:], region))
            go = c["go"]
            if "SLOW" in go:
                fail(c, f"C17 ListOffsets after a cut sub-response: the call took more than 2 s of its 5 s deadline ({where})")
                continue
            try:
                ok = lo_predicate(c["args"], go)
            except Exception:
                ok = False
            if not ok:
                q, r = (go.split(" ", 1) + [""])[:2]
                outs = c["args"].split(" ")[2].split("~")
                ncut = sum(o.startswith("F") for o in outs)
                if r.startswith("E") and ncut < len(outs):
                    what = f"the whole call failed ({r}) although {len(outs) - ncut} of {len(outs)} sub-requests were answered in full"
                elif ncut and r.startswith("R"):
                    what = "a partition whose sub-response was cut is reported without an Error (the placeholder offsets of Merge presented as valid), or a healthy partition does not report its owner's answer"
                else:
                    what = "the result does not report the owners' answers"
                fail(c, f"C17 ListOffsets after a cut sub-response: {what} ({where})")
            elif res.get(c["id"]) != go:
                failures.append(dict(layer="correspondence", what="C17 ListOffsets after a cut sub-response: model and code differ although the result satisfies the predicate",
                                     detail=json.dumps(dict(case=c["line"][:1200], go=go[:500], model=str(res.get(c["id"]))[:500])), input=None))
        elif c["op"] == "fan":
            api = c["args"].split(" ")[0]
            k = next((f for f in fs if f.startswith("k=")), "k=?")[2:]
            where = ("the call following a cut (byte %s)" % k) if "after-cut" in fs else ("sub-response(s) cut at byte %s" % k)
            go = c["go"]
            nparts = len(c["args"].split(" ")[1].split(","))
            ncut = sum(p.endswith(":F") for p in c["args"].split(" ")[1].split(","))
            try:
                ok = fan_predicate(c["args"], go)
            except Exception:
                ok = False
            if "SLOW" in go:
                fail(c, f"C17 {api} after a cut sub-response: the call took more than 2 s of its 5 s deadline ({where})")
            elif not ok:
                if ncut and go.startswith("OK:"):
                    what = (f"the call returned a nil error and the answers of {nparts - ncut} of {nparts} brokers/parts only — the part whose response was cut "
                            "is silently dropped (partial data presented as complete)")
                elif not ncut and go == "ERR":
                    what = "the call failed although every sub-request was answered in full"
                else:
                    what = "the healthy parts do not report their brokers' answers"
                fail(c, f"C17 {api} after a cut sub-response: {what} ({where})")
            elif res.get(c["id"]) != go:
                failures.append(dict(layer="correspondence", what=f"C17 {api} after a cut sub-response: model (Merge over the outcomes) and code differ although the result satisfies the predicate",
                                     detail=json.dumps(dict(case=c["line"][:1200], go=go[:500], model=str(res.get(c["id"]))[:500])), input=None))
        elif c["op"] == "cutof":
            k, frame = (hz(x) for x in c["args"].split(" "))
            first, follow = (x.split("=", 1)[1] for x in c["go"].split(" "))
            if "SLOW" in c["go"]:
                fail(c, f"C17 OffsetFetch after a cut response: the call took more than 2 s of its 5 s deadline (cut at byte {k} of {frame})")
            elif k < frame and first != "err":
                fail(c, f"C17 OffsetFetch after a cut response: the call returned {first} although only {k} of the {frame} bytes of the coordinator's response arrived")
            elif k >= frame and first != "ok-state":
                fail(c, f"C17 OffsetFetch after a cut response: complete response ({frame} bytes) but the call returned {first}")
            elif follow != "ok-state":
                fail(c, f"C17 OffsetFetch after a cut response: the following call returned {follow} instead of the coordinator's state (cut at byte {k} of {frame})")
    for need in ("cut=size-prefix", "cut=correlation-id", "cut=topic-name", "cut=partition-id-and-error", "cut=timestamp-and-offset", "after-cut"):
        if not any(need in c["feats"].split(",") for c in lo):
            failures.append(dict(layer="correspondence", what=f"C17 ListOffsets after a cut sub-response: no case with {need} was run", detail="", input=None))
    for api in ("ListGroups", "DescribeGroups", "DescribeConfigs"):
        if not any(c["op"] == "fan" and {"api=" + api, "cut", "some-failed"} <= set(c["feats"].split(",")) for c in cases):
            failures.append(dict(layer="correspondence", what=f"C17 {api} after a cut sub-response: no case with a cut sub-response next to a healthy one", detail="", input=None))
    if not any("some-failed" in c["feats"] and "after-cut" not in c["feats"] for c in lo):
        failures.append(dict(layer="correspondence", what="C17 ListOffsets after a cut sub-response: no case with a cut sub-response next to a healthy one", detail="", input=None))
    return dict(evaluations=len(cases), distinct_nontrivial=len(nontrivial), hist=hist, failures=failures,
                samples=[c["line"][:260] + " | " + c["go"][:160] for c in cases[:2] + cases[len(cases)//2:len(cases)//2+2]])
