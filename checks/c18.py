"""C18 — with SASL configured, nothing is sent before authentication succeeds
(DESIGN.md section 7, C18)."""
import hashlib, json, os, shutil
import checklib as L

TRUSTED_BASE = [
    "Coq 8.16.1 kernel (coqc; coqchk in the thorough tier); vm_compute used only in non-vacuity Examples and refutation witnesses; no native_compute",
    "hand-written model coq/Model/Sasl.v of Dialer.connect/authenticateSASL + Conn.saslHandshake/saslAuthenticate (dialer.go, conn.go) and of connGroup.connect/authenticateSASL + protocol.Conn.RoundTrip/RawExchange (transport.go, protocol/), one connection as a transition system over wire events; tied to the real code by the differential run of harness/cmd/c18 (real Dialer and Transport, build tag verif) against the OCaml extraction (ExtrOcamlBasic only)",
    "the SASL mechanism is an abstract state machine in every theorem; for the differential run PLAIN and SCRAM are instantiated by their shapes over token payloads (Model/Sasl.v shape_start/shape_next/shape_srv): cryptography, SASLprep and the message syntax of SCRAM are oracles, exercised against the reference servers but not proved",
    "harness/saslfake: scripted wire-level broker over net.Pipe (requests decoded with protocol.ReadRequest, responses encoded with protocol.WriteResponse, raw length-prefixed reads after a v0 handshake) and reference servers written from RFC 4616 / RFC 5802 / RFC 7677 with crypto/hmac, crypto/sha256, crypto/sha512 and a hand-written PBKDF2-HMAC; self-tested at every start against the RFC 7677 section 3 conversation, PBKDF2 vectors and the RFC 4616 example; the SASLprep expectations are a hand-written table (RFC 4013 section 3 examples and a few more), not computed by a library",
    "ocaml/kvio.ml.in + ocaml/c18_driver.ml (hex interchange; renders the model's trace as the broker would journal it) and harness/kvfmt",
    "net.Pipe in place of TCP; the per-case watchdog (9 s) and child-process isolation of the harness (a panic in a goroutine of the library is recorded as PANIC for the running case)",
]
ASSUMPTIONS = [
    "one connection at a time; no TLS, no dial errors, no context expiry or deadline during the exchange (a silent broker is not among the faults: neither path arms a deadline for the raw exchange, see notes)",
    "the broker answers ApiVersions v0; advertised MaxVersion of SaslHandshake / SaslAuthenticate in {absent, -1, 0, 1, 2, 3}; MinVersion is ignored by both paths",
    "raw response read: the model counts the bytes allocated for the response body (io.ReadAll's buffer and its regrowths; append's capacity choice is only assumed to lie between 1.25x and 2x, size-class rounding ignored); the harness measures the process-wide TotalAlloc of the whole dial / round trip in a child process, which includes the client's and the in-process fake broker's other allocations (about 0.1-0.2 MB), hence the 1 MiB slack",
    "S-conc: Mechanism.Start returns a fresh StateMachine and writes no field of the shared Mechanism value (sasl/plain: value receiver; sasl/scram: client.NewConversation per Start; xdg-go's Client is documented safe for concurrent use) — this is what makes n concurrent set-ups the product of n single ones (C18_concurrent_is_product); exercised by the conc family with forced overlap, not derived from the code",
    "dial address: only the classes of dialer.go splitHostPortNumber matter (a port that is not a number is the one refusal); Transport with a BrokerResolver refuses such an address before dialling (no connection: outside the one-connection model, expected value given by the driver)",
    "re-authentication on a handed-out connection is not modelled (LUse excludes api keys 17 and 36)",
    "PLAIN ignores the server's payload (sasl/plain Next returns done whatever the challenge): a success response carrying junk is not a failing step for PLAIN, in the model and in the check",
]

FAILING_KINDS = {"unsup", "authfail", "trunc", "short", "corrid", "neglen", "close"}
AUTH_KEYS = {"12", "11", "24"}     # ApiVersions 18, SaslHandshake 17, SaslAuthenticate 36 (hex)


def go_build_c18():
    """L.go_build with a private module file: the shared harness/go.mod pins golang.org/x/sync
    v0.10.0 (for x/tools), which conflicts offline with golang.org/x/text v0.23.0 needed by
    xdg-go/stringprep (sasl/scram).  harness/c18.mod lists exactly what cmd/c18 needs."""
    os.makedirs(L.BIN, exist_ok=True)
    out = os.path.join(L.BIN, "c18")
    with L.Lock("go"):
        shutil.copyfile(os.path.join(L.REPO, "go.sum"), os.path.join(L.HARNESS, "c18.sum"))
        rc, o, e, dt = L.sh(["go", "build", "-modfile=c18.mod", "-tags", "verif", "-o", out, "./cmd/c18"],
                            cwd=L.HARNESS, env=dict(L.GOENV), timeout=1200)
    if rc != 0:
        raise L.Fail("correspondence", "harness build failed for cmd/c18 (does /repo still compile with -tags verif?)", (o + e)[-4000:])
    return out


def hexint(s):
    return -int(s[1:], 16) if s.startswith("-") else int(s, 16)


def parse_args(args, op=None):
    f = args.split(" ")
    au_of = lambda hs: "1" if hs not in ("-", "0") and not hs.startswith("-") else "-"
    if op == "addr":      # <api> <mech> <address class> <hs>: the dial address, fault-free, right credentials
        api, mech, addr, hs = f
        return dict(path="t" if api in ("t", "tr") else "d", mech=mech, hs=hs, au=au_of(hs), cred="right", fstep="-", fkind="none",
                    credidx="0", api=api, addr=addr)
    if op == "conc":      # <path> <mech> <hs> <pattern>: overlapping set-ups over one Mechanism value
        path, mech, hs, pattern = f
        return dict(path=path, mech=mech, hs=hs, au=au_of(hs), cred="mixed", fstep="-", fkind="none", credidx="0", pattern=pattern)
    if len(f) == 7:       # op rawread: a raw response (prefix, payload bytes, ending) at step fstep of a v0 exchange
        path, mech, cred, fstep, prefix, npay, end = f
        prefix, npay = hexint(prefix), hexint(npay)
        return dict(path=path, mech=mech, hs="0", au="-", cred=cred, fstep=fstep, fkind="rawresp", credidx="0",
                    prefix=prefix, npay=npay, end=end, complete=0 <= prefix <= npay)
    path, mech, hs, au, cred, fstep, fkind, credidx = f
    a = dict(path=path, mech=mech, hs=hs, au=au, cred=cred, fstep=fstep, fkind=fkind, credidx=credidx)
    if fkind.startswith("err:"):      # err:<code hex>:<null|empty|text|->
        _, code, mode = fkind.split(":")
        a.update(fkind="errcode", code=hexint(code), msg=mode)
    return a


ALLOC_SLACK = 1 << 20      # Transport path: TotalAlloc of the whole round trip <= 1 MiB + 4 x bytes put on the wire


def parse_meas(m):
    """'alloc=N recv=M' -> (N, M)"""
    try:
        d = dict(x.split("=") for x in (m or "").split())
        return int(d.get("alloc", 0)), int(d.get("recv", 0))
    except ValueError:
        return 0, 0


def parse_result(res):
    """'J=a,b E=0 C=1' -> dict; PANIC/HANG/MECHERR/... -> dict(special=...)"""
    if not res.startswith("J="):
        return dict(special=res.strip() or "NORESULT")
    f = dict(x.split("=", 1) for x in res.split(" "))
    toks = [] if f["J"] == "." else f["J"].split(",")
    return dict(special=None, toks=toks, E=f["E"] == "1", C=f["C"] == "1", K=f.get("K"))


def expected_hs(a):
    """min(max advertised, 1), absent = 0; None = the Dialer gives up (negative max)"""
    mx = 0 if a["hs"] == "-" else (-(int(a["hs"][1:], 16)) if a["hs"].startswith("-") else int(a["hs"], 16))
    if mx < 0:
        return None if a["path"] == "d" else 0
    return min(mx, 1)


def failing_step_expected(a, feats):
    """Does the script contain a step that the property calls a failure?"""
    if a["cred"] in ("wrongpw", "nouser") and a["fkind"] != "junk":
        return True
    if a["fkind"] in FAILING_KINDS and "fault-reached" in feats:
        return True
    if a["fkind"] == "junk" and "fault-reached" in feats and a["mech"] != "plain":
        return True
    if a["fkind"] == "errcode":
        # refusal is the error CODE alone, whatever the error_message (null, empty, text)
        return a["code"] != 0 and "fault-reached" in feats
    if a["fkind"] == "rawresp":
        # anything but a complete response is a failing step; a complete one carries junk: PLAIN
        # ignores it, SCRAM rejects it
        return not (a["complete"] and a["mech"] == "plain")
    if a["cred"] in ("wrongpw", "nouser") and a["fkind"] == "junk" and "fault-reached" not in feats:
        return True
    return False


def violations_of(c):
    """The property evaluated on the implementation's own output for one case.
    Returns a list of (what, key)."""
    a = parse_args(c["args"], c.get("op"))
    feats = c["feats"].split(",")
    if c.get("op") == "conc":
        # every connection must be what the single-connection rules say of its own script
        creds = {"r": "right", "w": "wrongpw", "n": "nouser"}
        parts = c["go"].split(" / ")
        if len(parts) != len(a["pattern"]):
            return [("no result: " + c["go"][:80], None)]
        out = []
        for i, (ch, g) in enumerate(zip(a["pattern"], parts)):
            sub = dict(op="run", args=f"{a['path']} {a['mech']} {a['hs']} {a['au']} {creds[ch]} - none 0", go=g, feats=c["feats"], meas="")
            for what, key in violations_of(sub):
                out.append((f"{len(parts)} overlapping authentications sharing one {a['mech']} Mechanism value (credentials {a['pattern']}), connection {i} ({creds[ch]}): {what}",
                            "group:conc-" + creds[ch]))
        return out
    r = parse_result(c["go"])
    out = []
    if c.get("op") == "addr":
        refused = a["addr"] == "svc"
        if r["special"]:
            if r["special"] == "NOCONN E=1" and refused and a["api"] == "tr":
                return []     # grabConnOrConnect refuses the address before dialling
            return [("no result: " + r["special"], None)]
        f = dict(x.split("=", 1) for x in c["go"].split(" "))
        for label, toks in (("", r["toks"]), (" (second connection, to the leader)", [] if f.get("X", "-") in ("-", "") else f["X"].split(","))):
            seen = False
            for t in toks:
                if t == "V":
                    seen = True
                elif not (t.rstrip("!") == "raw" or t.rstrip("!").split(".")[0] in AUTH_KEYS) and not seen:
                    out.append((f"dial address class '{a['addr']}' via {a['api']}: request {t} written{label} although the broker never accepted an authentication", "group:addr-unauthenticated"))
                    break
        if not r["E"] and "V" not in r["toks"]:
            out.append((f"dial address class '{a['addr']}' via {a['api']}: a connection was handed out without the verdict", "group:addr-unauthenticated"))
        if refused:
            if r["E"] and [t for t in r["toks"] if t != "12.0"]:
                out.append((f"a refused dial address wrote {','.join(r['toks'])}", None))
            return out
    if r["special"] == "OOM":
        if a["path"] == "d" and a["fkind"] == "rawresp":
            return []     # Conn path allocates the announced length (observation, outside C20's scope)
        return [("the client ran out of memory (ulimit -v) while setting up the connection", None)]
    if r["special"] == "PANIC":
        return [("the client panicked while setting up the connection (no error returned, process dies)", None)]
    if r["special"] == "HANG":
        return [("connection set-up hung (watchdog)", None)]
    if r["special"] == "MECHERR":
        if a["cred"] != "prohib":
            out.append(("the SCRAM mechanism refused credentials that SASLprep allows", None))
        return out
    if r["special"]:
        return [("no result: " + r["special"], None)]
    if a["cred"] == "prohib":
        return [("the SCRAM mechanism accepted a string SASLprep prohibits", None)]
    toks = r["toks"]
    # 0. the raw response read allocates in proportion to what arrived (Transport path)
    if a["fkind"] == "rawresp" and a["path"] == "t":
        alloc, recv = parse_meas(c.get("meas"))
        if alloc > ALLOC_SLACK + 4 * recv:
            out.append((f"Transport raw SASL response read: {alloc} bytes allocated (runtime.MemStats.TotalAlloc) for a response of which "
                        f"{recv} bytes arrived (announced length {a['prefix']}); bound 1 MiB + 4 x received", "group:rawread-alloc"))
    # 0b. a raw response of which fewer bytes arrived than announced is never the broker's answer
    if a["fkind"] == "rawresp" and a["prefix"] >= 0 and not a["complete"] and r.get("K") in ("ok", "use", "mech"):
        out.append((f"raw SASL response announcing {a['prefix']} bytes of which {a['npay']} arrived (then {a['end']}) was handed to the mechanism "
                    f"as the broker's complete answer (outcome {r.get('K')}, expected an EOF / unexpected-EOF / deadline error)", "group:rawread-truncated"))
    # 1. nothing but ApiVersions / SaslHandshake / SaslAuthenticate / raw bytes before the verdict
    seen_v = False
    for t in toks:
        if t == "V":
            seen_v = True
            continue
        base = t.rstrip("!").split("?")[0]
        is_auth = base == "raw" or base.split(".")[0] in AUTH_KEYS
        if not is_auth and not seen_v:
            if a["fkind"] in ("junk", "rawresp") and a["mech"] == "plain":
                continue          # PLAIN ignores the payload of a success response (see ASSUMPTIONS)
            out.append((f"request {t} written before the broker accepted the authentication"
                        + (f" (the broker refused with error code {a['code']}, error_message {a['msg']})" if a["fkind"] == "errcode" else ""),
                        "group:errcode-before-verdict" if a["fkind"] == "errcode" else None))
            break
    # 2. a failing step: error, connection closed, nothing more written
    if failing_step_expected(a, feats):
        if not r["E"] or not r["C"] or any(t.endswith("!") for t in toks):
            out.append((f"a failing step did not end in an error with the connection closed (E={int(r['E'])} C={int(r['C'])}, journal {','.join(toks)})"
                        + (f": refusal with error code {a['code']}, error_message {a['msg']}" if a["fkind"] == "errcode" else ""),
                        "group:errcode-not-failing" if a["fkind"] == "errcode" else None))
    # 3. framing follows the negotiated handshake version
    v = expected_hs(a)
    hs_toks = [t.rstrip("!") for t in toks if t.split(".")[0] == "11"]
    if v is None:
        if hs_toks:
            out.append(("handshake sent although no version matches", None))
    elif hs_toks:
        if hs_toks[0] != f"11.{v:x}":
            out.append((f"handshake went out as {hs_toks[0]}, expected 11.{v:x}", None))
        for t in toks:
            b = t.rstrip("!")
            if "?framed-in-raw-exchange" in b:
                out.append((f"framed request {b} during the raw exchange of a v0 handshake", None))
            if b == "raw" and v != 0:
                out.append(("raw SASL bytes after a v1 handshake", None))
            if b.split(".")[0] == "24" and "?" not in b and v == 0 and not seen_v:
                out.append(("framed SaslAuthenticate after a v0 handshake", None))
    # 4. honest broker: accepted exactly when the credentials are right
    if a["fkind"] == "errcode" and a["code"] == 0 and a["cred"] == "right" and v is not None and (r["E"] or "V" not in toks):
        out.append((f"a response with error code 0 (error_message {a['msg']}) was taken for a refusal", "group:errcode-zero-refused"))
    if a["fkind"] == "none" and v is not None:
        if a["cred"] == "right" and (r["E"] or "V" not in toks):
            out.append(("right credentials but the exchange did not complete", None))
        if a["cred"] in ("wrongpw", "nouser") and (not r["E"] or "V" in toks):
            out.append(("wrong credentials but dialling succeeded", None))
    return out


# ----------------------------------------------------------------------------- reproducible-only verdicts

RERUN_CAP = 40        # at most this many failing cases are re-run one by one
RERUN_SAMPLE = 10     # more failing cases than RERUN_CAP is systemic: re-run a sample ...
RERUN_SAMPLE_OK = 8   # ... and when this many of the sample reproduce, report everything


def _norm(what, key):
    """a violation's kind: its key / group, or its text without the numbers"""
    import re
    return key or re.sub(r"-?\d+", "#", what)


def rerun_case(gobin, seed, op, args, vlimit_kb=24_000_000):
    """One case ALONE in a fresh process (sequential; nothing else of this check is running).
    Returns a case dict like the ones parsed from the enumeration's output."""
    import shlex
    cmd = f"ulimit -v {vlimit_kb}; exec {shlex.quote(gobin)} -seed {int(seed)} -case {shlex.quote(op + ' ' + args)}"
    rc, out, err, dt = L.sh(cmd, timeout=120)
    if rc != 0 or not out.strip():
        if "out of memory" in err or "cannot allocate" in err:
            go = "OOM"
        elif "panic:" in err or "fatal error:" in err:
            go = "PANIC"
        elif rc == 124:
            go = "HANG"
        else:
            go = "KILLED"
        return dict(op=op, args=args, go=go, feats="fault-reached", meas="", note=err.strip()[-400:], seed=seed)
    parts = [p.strip() for p in out.splitlines()[0].split(" | ")]
    return dict(op=op, args=args, go=parts[1] if len(parts) > 1 else "", feats=parts[2] if len(parts) > 2 else "",
                meas=parts[3] if len(parts) > 3 else "", note="", seed=seed)


def confirm_failures(ctx, gobin, items, label):
    """items: [dict(case=<case dict with op, args, seed, line, go>, sig=<hashable verdict>, judge=<fn(case dict) -> verdict or None>)],
    the failing cases of one enumeration, in order.  A failure is reported only when re-running its
    case alone reproduces the SAME verdict in one of up to two re-runs.  Returns (set of confirmed
    indexes into items, list of not-reproduced records)."""
    confirmed, flaky = set(), []
    if not items:
        return confirmed, flaky

    def attempt(it):
        outs = []
        for _ in range(2):
            c2 = rerun_case(gobin, it["case"].get("seed", ctx.seed), it["case"]["op"], it["case"]["args"])
            outs.append(c2["go"] + (" | " + c2["meas"] if c2.get("meas") else ""))
            try:
                if it["judge"](c2) == it["sig"]:
                    return True, outs
            except Exception as e:                      # an unparsable re-run is not a reproduction
                outs[-1] += " (judge: %r)" % (e,)
        return False, outs

    order = list(range(len(items)))
    if len(items) > RERUN_CAP:
        step = len(items) / float(RERUN_SAMPLE)
        sample = sorted({int(i * step) for i in range(RERUN_SAMPLE)})
        ok = 0
        for i in sample:
            good, outs = attempt(items[i])
            if good:
                ok += 1
                confirmed.add(i)
            else:
                flaky.append(dict(case=items[i]["case"]["line"], first=items[i]["case"]["go"], reruns=outs))
        if ok >= min(RERUN_SAMPLE_OK, len(sample)):
            confirmed = set(order)                      # systemic and reproducible: everything is reported
            flaky = [f for f in flaky]
        else:
            for i in order[:RERUN_CAP]:
                if i in sample:
                    continue
                good, outs = attempt(items[i])
                if good:
                    confirmed.add(i)
                else:
                    flaky.append(dict(case=items[i]["case"]["line"], first=items[i]["case"]["go"], reruns=outs))
            dropped = len(items) - len(set(order[:RERUN_CAP]) | set(sample))
            if dropped > 0:
                flaky.append(dict(case=f"{dropped} further failing cases of {label} were not re-run (cap {RERUN_CAP}) and are not reported",
                                  first="", reruns=[]))
    else:
        for i in order:
            good, outs = attempt(items[i])
            if good:
                confirmed.add(i)
            else:
                flaky.append(dict(case=items[i]["case"]["line"], first=items[i]["case"]["go"], reruns=outs))
    if flaky and hasattr(ctx, "notes"):
        ctx.notes.append(f"C18 {label}: {len(flaky)} failing case(s) of the parallel run were NOT reproduced when re-run alone and are not reported "
                         f"(first: {flaky[0]['case']} | {flaky[0]['first']} -> {flaky[0]['reruns'][:1]})")
    return confirmed, flaky


def setup():
    go_build_c18()
    L.ocaml_build("c18")


def run_harness(gobin, seed):
    rc, out, err, dt = L.sh([gobin, "-seed", str(seed)], timeout=1500)
    if rc != 0:
        raise L.Fail("correspondence", "harness cmd/c18 failed (reference server self-test, or a child died outside a case)", (out[-1500:] + err[-2500:]))
    notes = {}
    for line in err.splitlines():
        if line.startswith("NOTE "):
            _, i, rest = line.split(" ", 2)
            notes[i] = rest
    return out, notes


def correspondence(ctx):
    gobin = go_build_c18()
    model = L.ocaml_build("c18")
    cases, notes = [], {}
    for k in range(ctx.scale(1, 6)):      # thorough: more nonces, salts and random credentials
        out, ns = run_harness(gobin, ctx.seed + k)
        meas = {}
        for line in out.splitlines():
            parts = line.split(" | ")
            if len(parts) > 3:
                meas[parts[0].split(" ", 1)[0]] = parts[3].strip()
        for c in L.parse_cases(out):
            old_id = c["id"]
            c["meas"] = meas.get(old_id, "")
            c["id"] = str(len(cases) + 1)
            c["seed"] = ctx.seed + k
            if old_id in ns:
                notes[c["id"]] = ns[old_id]
            c["line"] = c["id"] + " " + c["op"] + " " + c["args"]
            cases.append(c)
    res = L.run_model(model, "\n".join(c["line"] for c in cases) + "\n")
    model_meas = {}
    for i, r in list(res.items()):      # "<compared part> ; malloc=<hex> mrecv=<hex>"
        if " ; " in r:
            res[i], tail = r.split(" ; ", 1)
            d = dict(x.split("=") for x in tail.split())
            model_meas[i] = (int(d["malloc"], 16), int(d["mrecv"], 16))
    bad = L.diff_cases(cases, res)
    failures, by_key = [], {}

    def add(layer, what, c, key=None, model=None):
        inp = dict(case=c["line"], go=c["go"], model=model, seed=c.get("seed"), meas=c.get("meas"), note=notes.get(c["id"], "")) if layer == "property" else None
        if key and key in by_key:
            by_key[key]["n"] += 1
            return
        f = dict(layer=layer, what=what, key=None if (key or "").startswith("group:") else key, input=inp,
                 detail=json.dumps(dict(case=c["line"], go=c["go"], model=model, note=notes.get(c["id"], "")[:600])))
        if key:
            by_key[key] = dict(f=f, n=1)
        failures.append(f)

    # the property evaluated on the implementation's own output (this also catches what the
    # faithful model reproduces); model / implementation disagreements that are not already
    # explained as violations.  Every failing case is first re-run alone (confirm_failures):
    # only a verdict that reproduces is reported.
    def verdict_for(model_out):
        def judge(c2):
            v = violations_of(c2)
            if v:
                return ("prop", tuple(sorted(_norm(w, k) for w, k in v)))
            if model_out is not None and c2["go"] != model_out:
                return ("diff", c2["go"])
            return None
        return judge

    items = []
    for c in cases:
        judge = verdict_for(res.get(c["id"]))
        sig = judge(c)
        if sig is not None:
            items.append(dict(case=c, sig=sig, judge=judge))
    confirmed, flaky = confirm_failures(ctx, gobin, items, "enumeration")
    flagged = set()
    ndiff = 0
    for i, it in enumerate(items):
        if i not in confirmed:
            continue
        c = it["case"]
        if it["sig"][0] == "prop":
            for what, key in violations_of(c):
                flagged.add(c["id"])
                add("property", what, c, key=key, model=res.get(c["id"]))
        else:
            ndiff += 1
            if ndiff <= 50:
                add("correspondence", "model and implementation journal differ but the implementation's output satisfies the property", c, model=res.get(c["id"]))
    for k, v in by_key.items():
        if v["n"] > 1:
            v["f"]["what"] += f" ({v['n']} scripts; first shown)"
    failures = failures[:25]

    nontrivial = set()
    hist = {}
    n_product = n_side = 0
    for c in cases:
        fs = c["feats"].split(",")
        for f in fs:
            if f.split("=")[0] in ("path", "mech", "hs", "cred", "fault", "fstep", "credcase", "err", "prefix", "end", "payload", "code", "msg", "api", "addr", "conc", "pattern") or "=" not in f:
                hist[f] = hist.get(f, 0) + 1
        if "product" in fs:
            n_product += 1
        else:
            n_side += 1
        if not ("fault=none" in fs and "cred=right" in fs and not any(f.startswith(("credcase=", "conc=")) for f in fs)
                and not any(f.startswith("addr=") and f != "addr=num" for f in fs)):
            nontrivial.add(hashlib.sha1((c["op"] + " " + c["args"]).encode()).hexdigest())
    samples = [c["line"] + " | " + c["go"] + " | " + c["feats"] + " | " + c.get("meas", "")
               for c in cases[:2] + cases[400:402] + cases[len(cases) // 2:len(cases) // 2 + 2] + cases[-2:]]
    # the raw response read: measured allocation per path
    raw = [c for c in cases if c["op"] == "rawread"]
    t_max = dict(alloc=0)
    conn_obs = {}
    for c in raw:
        a = parse_args(c["args"], "rawread")
        alloc, recv = parse_meas(c.get("meas"))
        if a["path"] == "t":
            if alloc >= t_max["alloc"]:
                t_max = dict(alloc=alloc, recv=recv, case=c["line"])
        else:
            k = "announced=%d" % a["prefix"]
            o = conn_obs.setdefault(k, dict(max_alloc=0, oom=0))
            o["max_alloc"] = max(o["max_alloc"], alloc)
            if c["go"].startswith("OOM"):
                o["oom"] += 1
    model_bound_ok = all(m[0] <= 10 * m[1] + 2560 for i, m in model_meas.items()
                         if parse_args(cases[int(i) - 1]["args"], cases[int(i) - 1]["op"])["path"] == "t")
    # the Transport the deprecated constructor kafka.NewWriter builds from WriterConfig.Dialer must carry
    # the dialer's SASL mechanism whatever its TLS setting (checks/writer_common.py newwriter_transport_cases)
    hosted_eval = hosted_dn = 0
    try:
        import importlib
        hw = importlib.import_module("checks.writer_common").newwriter_transport_cases(ctx)
        failures += hw.get("failures", [])
        hosted_eval, hosted_dn = hw.get("evaluations", 0), hw.get("distinct_nontrivial", 0)
        hist.update(hw.get("hist", {}))
    except (ModuleNotFoundError, AttributeError):
        pass
    return dict(evaluations=len(cases) + hosted_eval, distinct_nontrivial=len(nontrivial) + hosted_dn, hist=hist,
                rule="EXHAUSTIVE product (tag 'product'): {Dialer.DialContext then ReadPartitions, Transport.RoundTrip(metadata)} x {PLAIN, SCRAM-SHA-256, SCRAM-SHA-512} "
                     "x {handshake v0 (raw bytes), v1 (framed)} x {right credentials, wrong password, unknown user} x {no fault, or a fault at each step "
                     "(ApiVersions, SaslHandshake, each authentication message) of each kind expressible at that step: error 33, error 58, frame cut off + close, "
                     "empty body, wrong correlation id, close (framed steps); cut off + close, negative length, close (raw steps); junk SASL payload (authentication steps)}. "
                     "Side tables (tag 'side'): every advertised (SaslHandshake max, SaslAuthenticate max) in {absent,-1,0,1,3} x {absent,0,1,2}; a credential table "
                     "(=/, escapes, literal =2C, spaces, UTF-8, 12 SASLprep cases as user name and as password incl. 2 prohibited, 24 random strings from the PRNG seeded "
                     "by VERIF_SEED) x mechanisms x versions x {right, wrong password} x paths. Each case: fresh in-memory connection, real client, journal of the fake "
                     "broker before/after its verdict, result of Dial/RoundTrip, whether the client had closed the connection on return; compared with the extracted model's "
                     "trace for the same script, and the property's predicates are evaluated on the implementation's own output. "
                     "Dial address (op 'addr', tag 'side'): address class in {host:9092, host, host:service-name, [::1]:9092, host:0, host:65536, empty} x "
                     "{Dialer.DialContext, Dial, LookupPartition, DialLeader (second connection to the leader), Transport, Transport with a BrokerResolver} x mechanisms x handshake v0/v1, "
                     "fault-free: nothing but authentication traffic before the verdict on every connection, a connection handed out only after the verdict. "
                     "Concurrency (op 'conc', tag 'side'): 2-4 authentications overlapping in time over ONE Mechanism value (a Dialer from several goroutines; one Transport asked for several "
                     "clusters), the fake holding each first answer until all first messages have arrived, credential patterns rr, rw, wr, rrr, rwr, rrrr, rnwr x mechanisms x versions x paths; "
                     "every connection is judged by the single-connection rules of its own script and compared with the single-connection model. "
                     "Refusals (tag 'side', fault=errcode): error code in {0, 58, 33, 34, 35, 1, -1, 128, 255, 32767, -32768} x error_message in {null, empty string, text} in the "
                     "SaslAuthenticate response of every authentication step (handshake v1; responses encoded by hand because protocol.WriteResponse cannot emit an empty non-null "
                     "string), and every code in the ApiVersions / SaslHandshake responses (no message field; handshake v0 and v1), x mechanisms x paths; the model decides on the code alone. "
                     "Raw response read (op 'rawread', tag 'side'): over a v0 handshake, at each raw step (PLAIN step 2, SCRAM-SHA-256 steps 2 and 3), the broker answers with a "
                     "length prefix in {0, 1, n, n+1, 2^16, 2^24, 2^30, 2^31-1, -1, -2^31} followed by n in 0..3 payload bytes, then closes or stays silent until the "
                     "connection's read deadline (armed by the harness, 120 ms), through Dialer.DialContext (Conn path) and Transport.RoundTrip (protocol/saslauthenticate "
                     "RawExchange); children run under ulimit -v 24 GB with runtime.MemStats.TotalAlloc read around the call; compared with the model: journal, error, closed, "
                     "outcome class K (ok / mech / eof / ueof / proto / timeout); predicate: Transport allocation <= 1 MiB + 4 x bytes received. Non-trivial: anything but right "
                     "credentials 'alice' without fault; distinct by hash of the case arguments.",
                samples=samples, failures=failures,
                extra=dict(flaky_not_reproduced=flaky,
                           failing_cases_before_rerun=len(items), failing_cases_confirmed=len(confirmed),
                           raw_read_cases=len(raw),
                           raw_read_transport_max_alloc=t_max,
                           raw_read_transport_bound="runtime.MemStats.TotalAlloc around Transport.RoundTrip <= 1 MiB + 4 x bytes of the raw response put on the wire",
                           raw_read_model_bound_holds_on_cases=model_bound_ok,
                           raw_read_conn_observation=dict(
                               text="Conn path (conn.go saslAuthenticate raw branch, readNewBytes) allocates the ANNOUNCED length before the payload arrives; "
                                    "outside C20's scope ('through the Transport/Client stack'), recorded, not flagged; max TotalAlloc around Dialer.DialContext per announced length:",
                               by_announced=conn_obs),
                           exhaustive=True,
                           exhaustive_scope=f"the {n_product} cases tagged 'product' enumerate the finite product completely; the {n_side} 'side' cases sample unbounded spaces (credential strings, advertised versions)",
                           traces_validated_against_impl=len(cases) - len(bad),
                           product_cases=n_product, side_cases=n_side),
                notes=["observation (replay: build/bin/c18 -case 'addr d plain svc 1', result J=. E=1 C=0): Dialer.connect returns 'could not determine host/port for SASL authentication' "
                       "for a dial address whose port is not a number WITHOUT closing the socket it has just opened (dialer.go: the early return after splitHostPortNumber precedes any "
                       "conn.Close()); nothing was written on it; the Transport closes its connection in the same situation. Modelled as is (PRefused has no EClose); outside C18's list of failing steps, not flagged",
                       "observation outside C18's fault list (replay: build/bin/c18 -case 'd plain 1 1 right 2 silent 0'): no deadline is armed on the connection "
                       "during SASL set-up. Dialer path: a broker that stops answering after the TCP connect (at the handshake or any authentication step, raw or "
                       "framed) blocks DialContext beyond Dialer.Timeout and beyond the context's deadline (the harness watchdog fires at 9 s with both set to 6 s). "
                       "Transport path: RoundTrip returns 'context deadline exceeded' but the connecting goroutine stays blocked on the read with the connection "
                       "open (connGroup.connect clears the deadline with pc.SetDeadline(time.Time{}) before authenticateSASL)"])


def search(ctx, violations):
    """A layer broke without a concrete input: rerun the enumeration with other nonces /
    random credentials and report the first script whose own output violates the property."""
    ctx.seed += 1000
    try:
        c = correspondence(ctx)
    except L.Fail:
        return None
    for f in c["failures"]:
        if f.get("input"):
            return f["input"]
    return None


def replay(ctx, payload):
    inp = payload.get("input")
    if not inp:
        print("replay: no concrete input recorded; broken layer:", payload.get("broken"))
        print(payload.get("detail", "")[:3000])
        return 1
    print("replay case:", inp["case"])
    print("go result at the time:", inp.get("go"), " model:", inp.get("model"))
    gobin = go_build_c18()
    args = inp["case"].split(" ", 2)[2]
    rc, out, err, _ = L.sh([gobin, "-seed", str(inp.get("seed") or ctx.seed), "-case", args], timeout=60)
    if rc != 0:
        print("go now: the process died, rc=%d" % rc)
        print(err[-1500:])
        go_now = "PANIC" if "panic:" in err else "CRASH"
    else:
        print(out.strip())
        go_now = L.parse_cases(out.splitlines()[0])[0]["go"]
    model = L.ocaml_build("c18")
    print("model now:", L.run_model(model, inp["case"] + "\n"))
    meas = ""
    if rc == 0 and len(out.splitlines()[0].split(" | ")) > 3:
        meas = out.splitlines()[0].split(" | ")[3]
    c = dict(op=inp["case"].split(" ", 2)[1], args=args, go=go_now, feats="fault-reached", meas=meas)
    v = violations_of(c)
    for what, key in v:
        print("VIOLATES:", what, "" if not key else "[" + key + "]")
    return 1 if v else 0


# ----------------------------------------------------------------------------- exposed to C17

def raw_sasl_cut_cases(ctx):
    """C17's clause on the raw (SaslHandshake v0) SASL exchange: the genuine authentication
    response of the reference server, cut at EVERY byte position of its frame (4-byte prefix +
    payload), then the connection is closed or stays silent until the read deadline; PLAIN step 2
    (empty payload, and a payload padded to 8 bytes), SCRAM-SHA-256 steps 2 and 3, SCRAM-SHA-512
    step 3; Dialer.DialContext (Conn path) and Transport.RoundTrip (protocol/saslauthenticate
    RawExchange).  Predicate on the implementation's own output: the call returns an error, the
    mechanism is handed no challenge from the cut response (the harness wraps the sasl.Mechanism
    and counts Next calls), the library has closed the connection when it returns, nothing is
    written afterwards.  Cuts at or after the prefix are also compared with the extracted model
    (Model/Sasl.v raw_read: announced = payload length, received = cut - 4)."""
    gobin = go_build_c18()
    model = L.ocaml_build("c18")
    stride = ctx.scale(6, 1)
    rc, out, err, dt = L.sh([gobin, "-seed", str(ctx.seed), "-subset", "rawcut", "-cutstride", str(stride)], timeout=1500)
    if rc != 0:
        raise L.Fail("correspondence", "harness cmd/c18 -subset rawcut failed", (out[-1500:] + err[-2500:]))
    notes = {}
    for line in err.splitlines():
        if line.startswith("NOTE "):
            _, i, rest = line.split(" ", 2)
            notes[i] = rest
    def cut_case(cid, op, args, go, feats, meas_s, note):
        meas = dict(x.split("=") for x in meas_s.split()) if meas_s else {}
        path, mech, fstep, k, end, pad = args.split(" ")
        return dict(id=cid, op=op, args=args, line=f"{cid} {op} {args}", go=go, feats=feats, path=path, mech=mech,
                    fstep=int(fstep, 16), k=int(k, 16), end=end, pad=int(pad, 16), frame=int(meas.get("frame", 0)),
                    alloc=int(meas.get("alloc", 0)), note=note, seed=ctx.seed, was_cut=meas.get("cut") == "true")

    def cut_bad(c):
        """the predicate on the implementation's own output: list of what is wrong"""
        r = parse_result(c["go"])
        bad = []
        if r["special"]:
            if r["special"] == "OOM" and c["path"] == "d":
                return []
            return ["the client ended in " + r["special"]]
        f = dict(x.split("=", 1) for x in c["go"].split(" "))
        if not r["E"] or f.get("K") in ("ok", "use"):
            bad.append("no error was returned (the cut response was taken for the broker's complete answer)")
        if int(f.get("N", "0")) != c["fstep"] - 2:
            bad.append(f"the mechanism was handed {f.get('N')} challenges, {c['fstep'] - 2} had arrived completely: it was given the truncated message")
        if r["E"] and not r["C"]:
            bad.append("the connection was not closed by the library when it returned the error")
        if any(t.endswith("!") for t in r["toks"]):
            bad.append("requests were written after the cut: " + ",".join(t for t in r["toks"] if t.endswith("!")))
        return bad

    cases, not_cut = [], 0
    for line in out.splitlines():
        parts = [p.strip() for p in line.split(" | ")]
        if len(parts) < 4:
            continue
        cid, op, args = parts[0].split(" ", 2)
        c = cut_case(cid, op, args, parts[1], parts[2], parts[3], notes.get(cid, ""))
        if not c["was_cut"] and not parse_result(c["go"])["special"]:
            not_cut += 1
            continue
        cases.append(c)
    # the model on the cuts at or after the prefix
    mlines, mids = [], {}
    for c in cases:
        if c["k"] >= 4:
            mlines.append(f"{c['id']} rawread {c['path']} {c['mech']} right {c['fstep']:x} {c['frame'] - 4:x} {c['k'] - 4:x} {c['end']}")
    mres = L.run_model(model, "\n".join(mlines) + "\n") if mlines else {}
    failures, hist, seen = [], {}, set()
    n_model = 0

    def add(layer, what, c, model_out=None):
        inp = dict(case=c["line"], go=c["go"], model=model_out, seed=ctx.seed, frame=c["frame"],
                   replay="build/bin/c18 -seed %d -case '%s %s'" % (ctx.seed, c["op"], c["args"]), note=c["note"][:400]) if layer == "property" else None
        failures.append(dict(layer=layer, what=what, input=inp,
                             detail=json.dumps(dict(case=c["line"], go=c["go"], model=model_out, frame=c["frame"], note=c["note"][:400]))))

    def verdict_for(orig):
        m = mres.get(orig["id"], "").split(" ; ")[0] if orig["k"] >= 4 else None

        def judge(c2):
            if "line" not in c2:        # a re-run: rebuild the case from the harness's output
                c2 = cut_case(orig["id"], c2["op"], c2["args"], c2["go"], c2["feats"], c2.get("meas", ""), c2.get("note", ""))
            bad = cut_bad(c2)
            if bad:
                return ("prop", tuple(sorted(_norm(b, None) for b in bad)))
            g = " ".join(x for x in c2["go"].split(" ") if not x.startswith("N="))
            if m is not None and m != g:
                return ("diff", g)
            return None
        return judge

    items = []
    for c in cases:
        for f in c["feats"].split(","):
            if f.split("=")[0] in ("path", "mech", "fstep", "end", "pad", "cut"):
                hist["sasl-raw:" + f] = hist.get("sasl-raw:" + f, 0) + 1
        seen.add(c["args"])
        if c["k"] >= 4:
            n_model += 1
        judge = verdict_for(c)
        sig = judge(c)
        if sig is not None:
            items.append(dict(case=c, sig=sig, judge=judge))
    confirmed, flaky = confirm_failures(ctx, gobin, items, "raw SASL cuts")
    for i, it in enumerate(items):
        if i not in confirmed:
            continue
        c = it["case"]
        where = f"raw SASL response ({c['mech']} step {c['fstep']}, {'Conn' if c['path'] == 'd' else 'Transport'} path) cut after {c['k']} of {c['frame']} bytes then {c['end']}"
        if it["sig"][0] == "prop":
            add("property", where + ": " + "; ".join(cut_bad(c)), c, mres.get(c["id"]))
        else:
            add("correspondence", where + ": model and implementation differ although the implementation's output satisfies the property", c,
                mres.get(c["id"], "").split(" ; ")[0])
    # group: one failure per (path, mech, step, what-kind) is enough for the report
    grouped, keys = [], {}
    for f in failures:
        d = json.loads(f["detail"])
        a = d["case"].split(" ")
        key = (f["layer"], a[2], a[3], a[4], f["what"].split(": ", 1)[1][:40])
        if key in keys:
            keys[key]["n"] += 1
        else:
            keys[key] = dict(f=f, n=1)
            grouped.append(f)
    for v in keys.values():
        if v["n"] > 1:
            v["f"]["what"] += f" ({v['n']} cut positions / endings; first shown)"
    return dict(evaluations=len(cases), distinct_nontrivial=len(seen), hist=hist,
                rule="raw SASL (handshake v0) authentication response of the reference PLAIN / SCRAM servers cut at every byte position of its frame, then close (every position) "
                     f"or silence until the 120 ms read deadline (positions 0..5 and every {stride}th), Conn path and Transport path, real client in child processes; "
                     "every case is a fault (non-trivial); distinct by case arguments",
                samples=[c["line"] + " | " + c["go"] + " | frame=%d" % c["frame"] for c in cases[:1] + cases[len(cases) // 2:len(cases) // 2 + 1] + cases[-1:]],
                failures=grouped[:12],
                notes=[f"raw SASL cuts: {len(cases)} cuts run, {n_model} compared with the model (cuts inside the 4-byte prefix are judged by the predicate only), "
                       f"{not_cut} enumerated positions were at or past the end of the frame and dropped"],
                extra=dict(raw_sasl_cut_evaluations=len(cases), raw_sasl_cut_model_compared=n_model,
                           raw_sasl_cut_flaky_not_reproduced=flaky))


def raw_sasl_alloc_cases(ctx):
    """C20's clause on the one response the Transport reads outside protocol.ReadResponse: the raw
    (SaslHandshake v0) SASL authentication response, a 4-byte length from the wire followed by
    that many bytes.  Announced lengths {exact, one more, 10^4 .. 2^31-1, negative} x payloads
    actually sent x {close, silence}; the child process measures runtime.MemStats.TotalAlloc
    around the round trip.  Predicate on the implementation's own output (Transport path): no
    panic, no out-of-memory death, allocation <= 1 MiB + 4 x bytes received."""
    gobin = go_build_c18()
    rc, out, err, dt = L.sh([gobin, "-seed", str(ctx.seed), "-subset", "rawread"], timeout=900)
    if rc != 0:
        raise L.Fail("correspondence", "harness cmd/c18 -subset rawread failed", (out[-1500:] + err[-2500:]))
    failures, hist, n, nontrivial = [], {}, 0, set()
    worst = dict(alloc=0)

    def alloc_what(a, go, meas_s):
        alloc, recv = parse_meas(meas_s)
        if go.startswith("OOM"):
            return "the client ran out of memory (ulimit -v) reading a raw SASL response"
        if go.startswith("PANIC"):
            return "the client panicked reading a raw SASL response"
        if go.startswith(("KILLED", "UNSETTLED", "HANG")):
            return "no result: " + go.split(" ")[0]
        if alloc > ALLOC_SLACK + 4 * recv:
            return (f"Transport raw SASL response read: {alloc} bytes allocated (runtime.MemStats.TotalAlloc) for a response of which "
                    f"{recv} bytes arrived (announced length {a['prefix']}); bound 1 MiB + 4 x received")
        return None

    items = []
    for line in out.splitlines():
        parts = [p.strip() for p in line.split(" | ")]
        if len(parts) < 4:
            continue
        cid, op, args = parts[0].split(" ", 2)
        a = parse_args(args) if op == "rawread" else None
        if not a or a.get("path") != "t":
            continue
        n += 1
        nontrivial.add(args)
        alloc, recv = parse_meas(parts[3])
        k = "announced=%s" % ("negative" if a["prefix"] < 0 else "<=64KiB" if a["prefix"] <= 65536 else "<=16MiB" if a["prefix"] <= (1 << 24) else ">16MiB")
        hist["sasl-raw-alloc:" + k] = hist.get("sasl-raw-alloc:" + k, 0) + 1
        if alloc >= worst["alloc"]:
            worst = dict(alloc=alloc, recv=recv, case=parts[0])
        go = parts[1]
        what = alloc_what(a, go, parts[3])
        if what:
            judge = (lambda a_: lambda c2: (lambda w: _norm(w, None) if w else None)(alloc_what(a_, c2["go"], c2.get("meas", ""))))(a)
            items.append(dict(case=dict(op=op, args=args, seed=ctx.seed, line=parts[0], go=go, meas=parts[3], what=what),
                              sig=_norm(what, None), judge=judge))
    confirmed, flaky = confirm_failures(ctx, gobin, items, "raw SASL allocation")
    for i, it in enumerate(items):
        c = it["case"]
        if i in confirmed and len(failures) < 3:
            failures.append(dict(layer="property", what=c["what"], key=None,
                                 input=dict(case=c["line"], go=c["go"], meas=c["meas"], seed=ctx.seed,
                                            replay="build/bin/c18 -seed %d -case '%s %s'" % (ctx.seed, c["op"], c["args"])),
                                 detail=json.dumps(dict(case=c["line"], go=c["go"], meas=c["meas"]))))
    return dict(evaluations=n, distinct_nontrivial=len(nontrivial), hist=hist, failures=failures, worst=worst,
                extra=dict(raw_sasl_alloc_flaky_not_reproduced=flaky),
                samples=[worst.get("case", "") + " | alloc=%d recv=%d" % (worst.get("alloc", 0), worst.get("recv", 0))])


def sasl_framing_cases(ctx):
    """C04's clause on the authentication exchange: every request the library emits is a
    well-formed Kafka frame whose header carries a version no higher than the broker advertised,
    and the authentication bytes go out as a bare size-prefixed blob exactly after a v0
    SaslHandshake (as a framed SaslAuthenticate request after a v1 handshake).  All fault-free
    runs of the product and of the version grid (advertised MaxVersion of SaslHandshake /
    SaslAuthenticate in {absent, -1, 0, 1, 2, 3}), Dialer and Transport paths; the fake broker's
    journal of what arrived (api key . version, or raw) is judged by rule 3 of violations_of and
    compared with the extracted model."""
    gobin = go_build_c18()
    model = L.ocaml_build("c18")
    rc, out, err, dt = L.sh([gobin, "-seed", str(ctx.seed), "-subset", "nofault"], timeout=900)
    if rc != 0:
        raise L.Fail("correspondence", "harness cmd/c18 -subset nofault failed", (out[-1500:] + err[-2500:]))
    cases = L.parse_cases(out)
    for c in cases:
        c["line"] = c["id"] + " " + c["op"] + " " + c["args"]
    res = L.run_model(model, "\n".join(c["line"] for c in cases) + "\n")
    failures, hist, nontrivial = [], {}, set()

    def framing_bad(c):
        return [w for (w, key) in violations_of(c) if ("handshake" in w or "raw" in w or "framed" in w or w.startswith("no result"))]

    def verdict_for(model_out):
        m = model_out.split(" ; ", 1)[0] if model_out is not None else None

        def judge(c2):
            bad = framing_bad(c2)
            if bad:
                return ("prop", _norm(bad[0], None))
            if m is not None and m != c2["go"]:
                return ("diff", c2["go"])
            return None
        return judge

    items = []
    for c in cases:
        a = parse_args(c["args"], c["op"])
        k = "sasl-framing:path=%s,hs=%s,au=%s" % (a["path"], a["hs"], a["au"])
        hist[k] = hist.get(k, 0) + 1
        nontrivial.add(c["args"])
        c["seed"] = ctx.seed
        judge = verdict_for(res.get(c["id"]))
        sig = judge(c)
        if sig is not None:
            items.append(dict(case=c, sig=sig, judge=judge))
    confirmed, flaky = confirm_failures(ctx, gobin, items, "SASL framing")
    nprop = nd = 0
    for i, it in enumerate(items):
        if i not in confirmed:
            continue
        c = it["case"]
        if it["sig"][0] == "prop" and nprop < 4:
            nprop += 1
            failures.append(dict(layer="property", key=None, what="C04 SASL exchange framing: " + framing_bad(c)[0],
                                 input=dict(case=c["line"], go=c["go"], model=res.get(c["id"]), seed=ctx.seed,
                                            replay="build/bin/c18 -seed %d -case '%s'" % (ctx.seed, c["args"])),
                                 detail=json.dumps(dict(case=c["line"], go=c["go"], model=res.get(c["id"])))))
    for i, it in enumerate(items):
        if i in confirmed and it["sig"][0] == "diff" and nprop == 0 and nd < 2:
            nd += 1
            c = it["case"]
            failures.append(dict(layer="correspondence", what="SASL exchange (fault-free run): journal of the real client differs from the model",
                                 input=None, detail=json.dumps(dict(case=c["line"], go=c["go"], model=res.get(c["id"])))))
    return dict(evaluations=len(cases), distinct_nontrivial=len(nontrivial), hist=hist, failures=failures,
                extra=dict(sasl_framing_flaky_not_reproduced=flaky),
                samples=[c["line"] + " | " + c["go"] for c in cases[:1] + cases[-2:]])
