"""C05 — record batches: what is produced is exactly what a consumer decodes (DESIGN.md section 7, C05)."""
import json, os
import checklib as L

TRUSTED_BASE = [
    "Coq 8.16.1 kernel (coqc; coqchk in the thorough tier); vm_compute only in non-vacuity Examples (incl. the former F4 witness as a regression instance) and two constant facts (2^64 < 128^10, size of varint(-1)); no native_compute",
    "hand-written model coq/Model/Records.v of write.go/recordbatch.go (legacy writers), protocol/record*.go (protocol writers and reader), message_reader.go+batch.go (Conn reader), tied by the byte-exact differential run of harness/cmd/c05 (real code, build tag verif, hooks /repo/verif_export_c05.go) against the OCaml extraction (ExtrOcamlBasic only)",
    "coq/Spec/RecordFormat.v: Kafka message formats 0/1/2 transcribed by hand from the Kafka documentation and KIP-31/32 (fidelity to Apache Kafka is trusted); the harness' independent Go codec (harness/cmd/c05/refcodec.go) mirrors it and is cross-checked against it on every case",
    "compression: a parameter (any comp/decomp with decomp c (comp c b) = b) in the theorems; in the differential the real codecs' behaviour is shipped with each case as (plain, compressed) pairs; gzip/snappy/lz4/zstd themselves are oracles",
    "protocol writers' WriteAt back-patching of placeholders is modelled by the final field values; sizeOfUnsignedVarInt's (bits.Len64(x|1)+6)/7 is modelled as the shift-loop count (both checked byte-exactly on every run, not proved equal)",
    "Go stdlib hash/crc32 is modelled by the bitwise reflected CRC of coq/Lib/Crc.v (compared on every case, not verified); time.Time by int64 nanoseconds (the zero time.Time, replaced by time.Now() in Conn, is outside the model)",
    "coq/Model/Pages.v: protocol/buffer.go's pages, buffers and refs as an atomic-step transition system (each refc update / pool Get/Put one step; sync.Pool may forget pages); the harness translates what the real pageBuffer did (through /repo/protocol/verif_export_c05.go) into these steps and compares refcounts and the bytes read through every ref; real interleavings finer than one step (the window between the atomic decrement to 0 and pagePool.Put) are exercised only by the concurrent stress op; pageBuffer.Write's splitting (pg) pageBuffer.WriteAt's back-patching (pgr, when the hook file /repo/protocol/verif_export_c05b.go is present: ranges within a page, ending/starting on a boundary, straddling, spanning three pages, also under open refs; and always through the frame sweep) and pageBuffer.ReadFrom's refill loop (pgr: the real ReadFrom through the hook, readers with arbitrary chunkings, zero-length reads, (n>0, err) returns and failing readers, against the extracted pb_read_from with a digest of page ids, offsets, lengths, content hash and refcounts after every operation) are both driven directly",
    "the writers are pure functions in the model (the produced bytes are a value); the code's pooled scratch buffers and compressors on the produce side (bufferPool of write.go/recordbatch.go, codec writer pools, protocol page buffers) are tied only dynamically: concurrent-producer rounds (2-4 real Conns over slow in-memory peers that park a producer in the middle of flushing its batch while the others compress and write, batches below and above the 4 KiB write buffer, every codec; goroutines calling RecordSet.WriteTo concurrently) under GOMAXPROCS 1, 2, 8, every output decoded by the reference decoder, compared with that producer's input and byte-exact with the model; only the executed interleavings are covered",
    "ocaml/kvio.ml.in + ocaml/c05_driver.ml (hex interchange) and harness/kvfmt",
]
ASSUMPTIONS = [
    "keys, values, header parts and record counts below 2^31; uncompressed records and the batch below 2^31 bytes (Kafka's int32 size fields); timestamps within 2^62 ms",
    "codec ids 0..4 (an attribute codec 5..7 makes the protocol writer emit uncompressed data under a compressed attribute; not covered)",
    "Conn reader exercised through the hook VerifReadMessageSet (Batch without a Conn: the `offset < conn.offset` skip of Batch.ReadMessage is not exercised)",
    "fetch responses: items complete (no MaxBytes truncation; that is C17/C02), timestamp type CreateTime",
]


# ----------------------------------------------------------------------------- parsing
def hx(s):
    return -int(s[1:], 16) if s.startswith("-") else int(s, 16)


def go_ms(ns):
    return ns // 10**6 if ns >= 0 else -((-ns) // 10**6)


def parse_recs(s):
    if s == "." or s == "":
        return []
    out = []
    for r in s.split(","):
        off, t, k, v, h = r.split(":")
        out.append([hx(off), hx(t), k, v, h])
    return out


def nilify(x):
    return "-" if x == "." else x


def conn_view(r):
    off, t, k, v, h = r
    if h != ".":
        h = ";".join(p.split("=")[0] + "=" + nilify(p.split("=")[1]) for p in h.split(";"))
    return [off, t if t > 0 else 0, nilify(k), nilify(v), h]


def writer_expected(op, a):
    """The records an independent consumer must decode from what the writer produced."""
    ver, x = a[0], a[1]
    if op == "wv":              # first field = negotiated Produce version: format 2 iff >= 3
        ver = "2" if hx(a[0]) >= 3 else "1"
    recs = parse_recs(a[-1])
    if op == "wp":
        codec = hx(x) & 7
    else:
        codec = hx(x)
    exp = []
    for i, (off, ns, k, v, h) in enumerate(recs):
        o = off if (op in ("wl", "wc") and ver == "1" and codec == 0) else i
        exp.append([o, go_ms(ns), k, v, h if ver == "2" else "."])
    return exp


def writer_predicate(c):
    """None when the implementation's own output satisfies the property, else (key, what)."""
    a = c["args"].split(" ")
    g = c["go"]
    if g.startswith("ERR norecord"):
        return None if (a[0] == "2" and a[-1] == "." and c["op"] != "wv") else (None, "writer refused a non-empty record list")
    if not g.startswith("OK "):
        return (None, "writer failed: " + g[:80])
    d = g.split(" D ", 1)[1] if " D " in g else "REJECT:nodecode"
    if d.startswith("REJECT"):
        return (None, "the independent decoder rejects the produced bytes: " + d[:60])
    got = parse_recs(d)
    exp = writer_expected(c["op"], a)
    if got == exp:
        return None
    if len(got) == len(exp) and all(x[0] == y[0] and x[2:] == y[2:] for x, y in zip(got, exp)):
        return (None, "a record's decoded millisecond timestamp differs from timestamp(record time)")
    return (None, "decoded records differ from the records given to the writer")


def reader_parts(g):
    """'P <recs>!<c> M <recs>!<c> E <recs>' -> (precs, pend, mrecs, mend, erecs)"""
    try:
        p, rest = g[2:].split(" M ", 1)
        m, e = rest.split(" E ", 1)
        pr, pe = p.rsplit("!", 1)
        mr, me = m.rsplit("!", 1)
        return parse_recs(pr), pe, parse_recs(mr), me, parse_recs(e)
    except Exception:
        return None


def reader_predicate(c):
    parts = reader_parts(c["go"])
    feats = set(c["feats"].split(","))
    if parts is None:
        return (None, "reader crashed: " + c["go"][:80])
    pr, pe, mr, me, er = parts
    if pr != er:
        if "v1holes" in feats:
            return (None, "Client.Fetch path gives a compacted magic-1 wrapper's inner messages other absolute offsets than "
                    "Kafka's rule (wrapper offset - last inner offset + inner offset) and the Conn path")
        if "crcbad" in feats:
            return (None, "Client.Fetch path surfaced records of (or after) a batch whose checksum does not match, or lost earlier ones")
        if "control" in feats:
            return (None, "Client.Fetch path did not hide exactly the control batches")
        return (None, "Client.Fetch path decodes a valid batch sequence to other records/offsets than the reference")
    if not ({"crcbad", "control", "min>first"} & feats):
        if [conn_view(r) for r in er] != [conn_view(r) for r in mr] or me != "eof":
            return (None, "Conn path (messageSetReader) decodes a valid batch sequence to other records/offsets than the reference / the Fetch path")
    return None


def pages_predicate(c):
    g = c["go"]
    if g.startswith("SHORTREAD"):
        return (None, "pageBuffer.ReadFrom returned before the reader's end (bytes lost) or with the wrong error class")
    if g.startswith("UNSTABLE"):
        return (None, "bytes seen through a live pageRef changed while it was open")
    if g.startswith("corrupt"):
        return (None, "concurrent decodes recycling pooled pages: a ref read other bytes than were written: " + g[:40])
    if g.startswith(("GENBUG", "PANIC")):
        return (None, "page harness failed: " + g[:80])
    return None


def frame_predicate(c):
    g = c["go"]
    if g == "ok":
        return None
    if g.startswith("BAD"):
        return (None, "a Produce request / Fetch response frame whose record batch header crosses a 64 KiB page boundary is not what the reference decoder expects")
    return (None, "frame sweep failed: " + g[:60])


def predicate(c):
    if c["op"] == "wa":
        return None             # the acknowledgement clause is C01's (produce_version_cases); here only the model diff
    if c["op"] == "wf":
        return frame_predicate(c)
    if c["op"] in ("pg", "pgc", "pgr"):
        return pages_predicate(c)
    return reader_predicate(c) if c["op"] == "rd" else writer_predicate(c)


def setup():
    L.go_build("c05")
    L.ocaml_build("c05")


def run_model_bigstack(exe, cases_text, timeout=3000):
    """Like L.run_model, with an unlimited stack: the extracted list functions are not tail
    recursive and the page-boundary suite has byte strings of 200 KB."""
    rc, out, err, dt = L.sh(["bash", "-c", 'ulimit -s unlimited 2>/dev/null || ulimit -s 1000000; exec "$0"', exe],
                            input=cases_text, timeout=timeout)
    if rc != 0:
        raise L.Fail("correspondence", f"model driver {os.path.basename(exe)} crashed rc={rc}", err[-2000:])
    res = {}
    for line in out.splitlines():
        i, _, r = line.partition(" ")
        res[i] = r
    return res


def run_cases(ctx, n, big):
    gobin = L.go_build("c05")
    model = L.ocaml_build("c05")
    rc, out, err, dt = L.sh([gobin, "-seed", str(ctx.seed), "-n", str(n), "-big", str(big),
                             "-pg", str(ctx.scale(40, 150)), "-bigrd", str(ctx.scale(1, 2)), "-pgr", str(ctx.scale(30, 150)), "-cc", str(ctx.scale(4, 12)), "-ww", str(ctx.scale(1, 2)), "-fs", str(ctx.scale(1, 2)), "-vi", str(ctx.scale(1, 2)), "-av", str(ctx.scale(1, 2))], timeout=3000)
    if rc != 0:
        raise L.Fail("correspondence", "harness cmd/c05 crashed", (out[-1500:] + err[-2500:]))
    cases = L.parse_cases(out)
    for c in cases:
        c["line"] = c["id"] + " " + c["op"] + " " + c["args"]
    res = run_model_bigstack(model, "\n".join(c["line"] for c in cases) + "\n", timeout=3000)
    return cases, res


def correspondence(ctx):
    n, big = ctx.scale(1500, 8000), ctx.scale(1, 12)
    cases, res = run_cases(ctx, n, big)
    bad = L.diff_cases(cases, res)
    failures, seen = [], set()

    def add(layer, key, what, c, model=None):
        k = key or (layer + ":" + what)
        if k in seen:
            return
        seen.add(k)
        inp = None
        if layer == "property":
            inp = dict(case=c["line"][:4000000], go=c["go"][:4000000], model=model, feats=c["feats"], n=n, big=big)
        failures.append(dict(layer=layer, key=key, what=what, input=inp,
                             detail=json.dumps(dict(case=c["line"][:1500], go=c["go"][:700], model=str(model)[:700], feats=c["feats"]))))

    # 1. the property's predicates on the implementation's own outputs
    for c in cases:
        v = predicate(c)
        if v is not None:
            add("property", v[0], v[1], c, res.get(c["id"]))
    # 2. model vs implementation
    for c in bad:
        v = predicate(c)
        if v is not None:
            continue            # already reported as a property violation with this input
        m = str(c.get("model"))
        if m.startswith("NOORACLE"):
            what = "model's pre-compression bytes differ from what the code handed to the codec (but the produced set decodes to the right records)"
        elif c["op"] in ("pg", "pgc", "pgr"):
            what = "page model and pageBuffer differ (refcounts or bytes read through a ref) although every ref stayed stable"
        elif c["op"] == "rd":
            what = "reader model and code differ on a case where the code's own output satisfies the property"
        else:
            what = "writer model and code differ byte-wise but the produced set decodes to the right records"
        add("correspondence", None, c["op"] + ": " + what, c, m)
    ev, dn, hist = L.coverage_counts(cases, trivial_feats=("",))
    # Conn path on broker-truncated batches (checks/c11.py truncated_record_cases; defect F35)
    try:
        import importlib
        tc = importlib.import_module("checks.c11").truncated_record_cases(ctx)
        failures += tc.get("failures", [])
        ev += tc.get("evaluations", 0)
        dn += tc.get("distinct_nontrivial", 0)
        hist.update(tc.get("hist", {}))
    except (ModuleNotFoundError, AttributeError):
        pass
    return dict(evaluations=ev, distinct_nontrivial=dn, hist=hist,
                rule="cases from one PRNG (VERIF_SEED): writers wp (protocol.RecordSet.WriteTo v1/v2), wl (legacy writeBuffer via hook), "
                     "wc (Conn.WriteCompressedMessages over an in-memory pipe, produce v2/v7) x codecs none/gzip/snappy/lz4/zstd on record lists "
                     "(0..60 records, null/empty/non-empty keys and values up to 2 KB, values > 64 KiB with -big, 0..3 headers, whole-ms / sub-ms / "
                     "decreasing / > 2^31 ms apart times), compared byte-exact with the extracted model and decoded by the harness' independent codec; "
                     "concurrent producers: rounds of 2..4 Conns (WriteCompressedMessages, produce v2/v7, every codec, incompressible values below/above 4 KiB) whose scripted peers pause after 8/100/4096/4097 bytes of the produce request "
                     "and then read in small pieces (nested: each producer parked mid-flush while the next ones run; free: all at once), and 3..10 goroutines encoding RecordSet.WriteTo v1/v2 at the same time, under GOMAXPROCS 1, 2, 8, emitted as wc/wp cases; "
                     "negotiated API versions: a wire-level fake broker behind kafka.Transport advertises Produce max = v / Fetch max = v; wv: Client.Produce and kafka.Writer at EVERY Produce version v0..v8 (records with headers for v>=3, header-less below), the request's record set "
                     "through the reference decoder and byte-exact with proto_produce(v) (format 2 iff v >= 3); rd/clientfetch: Client.Fetch at EVERY Fetch version v0..v11, the response laid out by hand from the protocol guide "
                     "(throttle from v1, error_code/session_id from v7, last_stable_offset and aborted_transactions from v4, log_start_offset from v5, preferred_read_replica from v11); "
                     "varint boundaries (wp, ww, wl, wc, format 2): record counts 63/64/65, 127/128/129, 8191/8192/8193, timestamp deltas at +-(2^(7k-1)-1, 0, +1) for k=1..5, key/value/header-key/header-value lengths 63/64/65 and 8191/8192/8193, header counts 63/64/65, "
                     "each through the strict reference decoder (every record occupies exactly its announced length) and byte-exact with the model; "
                     "ww: the kafka.Writer path (one Writer batch per case through a RoundTripper that encodes the typed request with protocol.WriteRequest, produce v2..v8): every ordered pair of nil/empty/non-empty key and value patterns and longer random mixtures, "
                     "what reaches the wire compared null-vs-empty exactly with what was given and byte-exact with the model; frame sweep (wf + in-frame wp): Produce requests v3..v8 and Fetch responses v4..v11 with three partitions whose second record set starts at 65536k-a "
                     "for every a in -3..70 (each back-patched header field straddling, ending on and starting on a page boundary); "
                     "readers rd: reference-encoded sequences of 1..4 items (v0, v1, v1 wrappers per codec, v2 per codec, control, transactional, "
                     "offset gaps, compacted wrappers, corrupted CRCs, min inside the first item) through RecordSet.ReadFrom and messageSetReader, "
                     "plus in EVERY run the page-boundary suite: keyed v0/v1 messages, v0/v1 wrappers (every codec, many small or few page-spanning inner messages, "
                     "several wrappers per response with a small one first) and v2 batches (every codec) whose key+value bytes total 65536+{-17,-16,-15,-1,0,1,15,16,17}, 70000, 100000, 200000, "
                     "compared with the model, with each other and with the reference; pg: operation sequences on the real pageBuffer/pageRef (writes across 64 KiB pages, refs, "
                     "buffer unref before ref close, pooled pages reused while older refs are open, double Close) translated to the steps of Model/Pages.v, refcounts and ref contents "
                     "compared after the sequence and ref stability checked after every operation; pgr: the same with pageBuffer.ReadFrom interleaved (readers delivering in arbitrary chunkings, chunk ends at / one before / one after a page boundary, "
                     "zero-length reads, (n>0, EOF/err) returns, failing readers, appends to partly filled tail pages) and the full page state compared with the model after EVERY operation; pgc: concurrent goroutines recycling pages with content checks; a case is non-trivial when it has any feature tag; distinct by hash of op+args",
                samples=[c["line"][:240] + " | " + c["go"][:120] for c in cases[:2] + cases[len(cases)//2:len(cases)//2+2] + cases[-2:]],
                failures=failures,
                notes=["Conn path (messageSetReader) verifies no checksum and hands control-batch records to the consumer; the property asks both only of Client.Fetch, so these are not counted as violations",
                       "legacy v2 writer stores maxTimestamp = timestamp of the LAST record, not the maximum (observable with decreasing times); not part of the property text"])


def _model_cached():
    """The extracted model binary, rebuilt only when one of its sources is newer (the
    extraction and OCaml compilation take longer than the frame sweep itself)."""
    exe = os.path.join(L.BIN, "c05_model")
    srcs = [os.path.join(L.COQ, "Extract", "C05.v"), os.path.join(L.OCAML, "c05_driver.ml"), os.path.join(L.OCAML, "kvio.ml.in"),
            os.path.join(L.COQ, "Model", "Records.v"), os.path.join(L.COQ, "Model", "Pages.v"), os.path.join(L.COQ, "Spec", "RecordFormat.v")]
    srcs += [os.path.join(L.COQ, "Lib", f) for f in ("Bits.v", "Bytes.v", "Varint.v", "Crc.v")]
    try:
        t = os.path.getmtime(exe)
        if all(os.path.getmtime(f) <= t for f in srcs):
            return exe
    except OSError:
        pass
    return L.ocaml_build("c05")


def frame_sweep_cases(ctx):
    """The frame sweep alone, for checks/c04.py: Produce requests / Fetch responses written by
    protocol.WriteRequest / WriteResponse whose second record batch header lands on every
    alignment around a 64 KiB page boundary (back-patched set size, batch length, CRC,
    lastOffsetDelta, timestamps, count straddling / ending on / starting on the boundary).
    Judged exactly as in C05's correspondence: frame_predicate / writer_predicate on the
    implementation's own output, and the byte comparison with the extracted writer model.
    Returns dict(evaluations, distinct_nontrivial, hist, failures, samples)."""
    prefix = "C04 frame back-patching across a page boundary: "
    gobin = L.go_build("c05")
    model = _model_cached()
    level = str(ctx.scale(1, 2))
    rc, out, err, dt = L.sh([gobin, "-seed", str(ctx.seed), "-n", "0", "-big", "0", "-pg", "0", "-bigrd", "0", "-pgr", "0",
                             "-cc", "0", "-ww", "0", "-vi", "0", "-av", "0", "-fs", level], timeout=600)
    if rc != 0:
        raise L.Fail("correspondence", "harness cmd/c05 crashed (frame sweep)", (out[-1500:] + err[-2500:]))
    cases = [c for c in L.parse_cases(out) if "framesweep" in c["feats"].split(",")]
    for c in cases:
        c["line"] = c["id"] + " " + c["op"] + " " + c["args"]
    res = run_model_bigstack(model, "\n".join(c["line"] for c in cases) + "\n", timeout=600)
    failures, seen = [], set()

    def add(layer, what, c, m):
        if (layer, what) in seen:
            return
        seen.add((layer, what))
        inp = dict(case=c["line"][:4000000], go=c["go"][:4000000], model=m, feats=c["feats"], frame_sweep=level) if layer == "property" else None
        failures.append(dict(layer=layer, key=None, what=prefix + what, input=inp,
                             detail=json.dumps(dict(case=c["line"][:1500], go=c["go"][:700], model=str(m)[:700], feats=c["feats"]))))

    for c in cases:
        v = predicate(c)
        if v is not None:
            add("property", v[1], c, res.get(c["id"]))
    for c in L.diff_cases(cases, res):
        if predicate(c) is None:
            add("correspondence", "the frame's record set differs byte-wise from the writer model although it decodes to the right records", c, c.get("model"))
    if not cases:
        failures.append(dict(layer="correspondence", key=None, what=prefix + "the harness produced no frame-sweep case", input=None, detail=out[-500:]))
    ev, dn, hist = L.coverage_counts(cases, trivial_feats=("",))
    return dict(evaluations=ev, distinct_nontrivial=dn, hist=hist, failures=failures,
                samples=[c["line"][:200] + " | " + c["go"][:100] for c in cases[:2] + cases[-2:]])


def produce_version_cases(ctx):
    """The `wv` sweep alone, for checks/c01.py (writer_common): kafka.Writer and Client.Produce at
    EVERY Produce API version v0..v8 through the real kafka.Transport against the wire-level fake
    broker of harness/cmd/c05 (ApiVersions advertises Produce max = v; produce responses laid out
    by hand per version).  Judged by C01's clause: a batch the broker applied and acknowledged
    (error code 0) is reported as success, exactly one produce request per batch reached the
    broker (no re-send without a lost acknowledgement), each message once in the broker's log.
    Returns dict(evaluations, distinct_nontrivial, hist, failures, samples)."""
    gobin = L.go_build("c05")
    level = str(ctx.scale(1, 2))
    rc, out, err, dt = L.sh([gobin, "-seed", str(ctx.seed), "-n", "0", "-big", "0", "-pg", "0", "-bigrd", "0", "-pgr", "0",
                             "-cc", "0", "-ww", "0", "-vi", "0", "-fs", "0", "-av", level, "-only", "wa"], timeout=600)
    if rc != 0:
        raise L.Fail("correspondence", "harness cmd/c05 crashed (produce version sweep)", (out[-1500:] + err[-2500:]))
    cases = [c for c in L.parse_cases(out) if c["op"] == "wa"]
    failures, seen = [], set()
    for c in cases:
        c["line"] = c["id"] + " " + c["op"] + " " + c["args"]
        a = c["args"].split(" ")
        v = hx(a[0])
        path = "kafka.Writer.WriteMessages" if a[1] == "w" else "Client.Produce"
        g = dict(x.split("=", 1) for x in c["go"].split(" ") if "=" in x)
        problems = []
        if g.get("res") != "nil":
            problems.append(path + " reported a failure although the broker applied the batch and answered error code 0")
        if g.get("reqs") != "1":
            problems.append("the batch was sent %s times (hex) without a lost acknowledgement" % g.get("reqs", "?"))
        if g.get("log") != "once":
            problems.append("the messages are not exactly once in the broker's log (%s)" % g.get("log", "?"))
        for what in problems:
            text = "C01 acknowledged produce at API version %d: %s" % (v, what)
            if text in seen:
                continue
            seen.add(text)
            failures.append(dict(layer="property", key=None, what=text,
                                 input=dict(case=c["line"], go=c["go"], feats=c["feats"], produce_versions=level),
                                 detail=json.dumps(dict(case=c["line"], go=c["go"], feats=c["feats"]))))
    if not cases:
        failures.append(dict(layer="correspondence", key=None, what="C01 acknowledged produce at API version v: the harness produced no case",
                             input=None, detail=(out[-300:] + err[-300:])))
    ev, dn, hist = L.coverage_counts(cases, trivial_feats=("",))
    return dict(evaluations=ev, distinct_nontrivial=dn, hist=hist, failures=failures,
                samples=[c["line"] + " | " + c["go"] for c in cases[:2] + cases[-2:]])


def search(ctx, violations):
    ctx.seed += 1000
    ctx.tier = "thorough"
    ctx.thorough = True
    try:
        c = correspondence(ctx)
    except L.Fail:
        return None
    for f in c["failures"]:
        if f.get("input"):
            return f["input"]
    return None


def replay(ctx, payload):
    inp = payload.get("input")
    if not inp:
        print("replay: no concrete input recorded; broken layer:", payload.get("broken"))
        print(payload.get("detail", "")[:3000])
        return 1
    head = inp["case"].split(" ", 1)[1]
    print("replay case:", inp["case"][:400], "...")
    if inp.get("produce_versions"):
        pv = produce_version_cases(ctx)
        print("produce version sweep now:", pv["evaluations"], "cases,", len(pv["failures"]), "failures")
        for f in pv["failures"][:5]:
            print("  ", f["layer"], f["what"])
        return 1 if pv["failures"] else 0
    if inp.get("frame_sweep"):
        fs = frame_sweep_cases(ctx)
        print("frame sweep now:", fs["evaluations"], "cases,", len(fs["failures"]), "failures")
        for f in fs["failures"][:5]:
            print("  ", f["layer"], f["what"])
        return 1 if fs["failures"] else 0
    cases, res = run_cases(ctx, inp.get("n", 1500), inp.get("big", 1))
    for c in cases:
        if c["line"].split(" ", 1)[1] == head:
            print("go now   :", c["go"][:600])
            print("model now:", str(res.get(c["id"]))[:600])
            v = predicate(c)
            print("property predicate on the implementation's output:", "VIOLATED: " + v[1] if v else "holds")
            return 1 if v else 0
    print("case not regenerated (non-deterministic wrapper timestamp?); recorded go result:", inp.get("go", "")[:400])
    return 1
