package muxfake

import (
	"bufio"
	"bytes"
	"context"
	"encoding/binary"
	"fmt"
	"net"
	"strconv"
	"strings"
	"sync"
	"time"

	"github.com/segmentio/kafka-go/protocol"
	"github.com/segmentio/kafka-go/protocol/apiversions"
	"github.com/segmentio/kafka-go/protocol/fetch"
	"github.com/segmentio/kafka-go/protocol/findcoordinator"
	"github.com/segmentio/kafka-go/protocol/listgroups"
	"github.com/segmentio/kafka-go/protocol/listoffsets"
	"github.com/segmentio/kafka-go/protocol/metadata"
	"github.com/segmentio/kafka-go/protocol/offsetfetch"
	"github.com/segmentio/kafka-go/protocol/produce"
)

// Cut modes of an Action.
const (
	CutNone   = 0
	CutBefore = 1 // close the connection instead of answering
	CutMid    = 2 // write the first half of the answer frame, then close
	CutAfter  = 3 // write the whole answer frame, then close
	CutAt     = 4 // write the first CutK bytes of the answer frame, then close (C17: a response cut at any byte)
	CutSilent = 5 // write the first CutK bytes, then go silent with the connection left open

	// CutK sentinels
	CutKLast = -1 // all but the last byte
	CutKMid  = -2 // in the middle of the body (after the 8 header bytes)
)

// Action is the scripted treatment of one request, looked up by the request's tag.
type Action struct {
	Delay    time.Duration // wait before answering
	Hold     int           // answer only after Hold other answers were written on the same conn (bounded by HoldMax)
	Drop     bool          // never answer
	ErrCode  int16         // answer with this Kafka error code
	Dup      bool          // write the answer frame twice
	Manual   bool          // answer only after OpenManual() (bounded by 3 s)
	DripAt   int           // > 0: write the first DripAt bytes of the frame, wait DripHold, then write the rest
	DripHold time.Duration
	Once     bool // the action applies to the FIRST request with this tag only (the script entry is then removed)
	Late     int  // answer LATE: only once Late later requests have arrived on the same conn (or the conn died, or LateMax passed)
	Cut      int  // CutNone / CutBefore / CutMid / CutAfter / CutAt / CutSilent
	CutK     int  // for CutAt / CutSilent: number of bytes written (or CutKLast / CutKMid)
}

// Req is a journal entry for a request decoded by the broker.
type Req struct {
	Conn int
	Corr int32
	Key  int16
	Ver  int16
	Tag  string
	Seq  int
}

// Ans is a journal entry for an answer frame the broker wrote in full.
type Ans struct {
	Conn int
	Corr int32
	Tag  string
	Seq  int
}

// Payload functions: the answer to a request is derived from what was asked.
func OffsetForTag(n int64) int64    { return n*7 + 3 }
func CommittedForTag(n int64) int64 { return n*5 + 1 }
func HostFor(name string) string    { return "h-" + name }
func PartitionIDFor(topic string) int32 {
	n, _ := numOf(topic)
	return int32(n & 0x7fff)
}

// numOf parses the number of a name of the form <letter><hex>.
func numOf(name string) (int64, bool) {
	if len(name) < 2 {
		return 0, false
	}
	n, err := strconv.ParseInt(name[1:], 16, 64)
	if err != nil {
		return 0, false
	}
	return n, true
}

// LegacyTopic is the topic of legacy kafka.Conn values (VerifMuxConn); ListOffsets
// requests for it are tagged by their timestamp, others by their topic name.
const LegacyTopic = "t"

// ApiTable is the ApiVersions answer of the broker.
var ApiTable = []apiversions.ApiKeyResponse{
	{ApiKey: 0, MinVersion: 0, MaxVersion: 7},  // produce
	{ApiKey: 1, MinVersion: 0, MaxVersion: 4},  // fetch: the legacy Conn negotiates v2
	{ApiKey: 2, MinVersion: 0, MaxVersion: 5},  // listoffsets
	{ApiKey: 3, MinVersion: 0, MaxVersion: 8},  // metadata
	{ApiKey: 8, MinVersion: 0, MaxVersion: 7},  // offsetcommit
	{ApiKey: 9, MinVersion: 0, MaxVersion: 5},  // offsetfetch
	{ApiKey: 10, MinVersion: 0, MaxVersion: 2}, // findcoordinator
	{ApiKey: 11, MinVersion: 0, MaxVersion: 5}, // joingroup
	{ApiKey: 12, MinVersion: 0, MaxVersion: 3}, // heartbeat
	{ApiKey: 13, MinVersion: 0, MaxVersion: 3}, // leavegroup
	{ApiKey: 14, MinVersion: 0, MaxVersion: 3}, // syncgroup
	{ApiKey: 15, MinVersion: 0, MaxVersion: 3}, // describegroups
	{ApiKey: 16, MinVersion: 0, MaxVersion: 3}, // listgroups
	{ApiKey: 17, MinVersion: 0, MaxVersion: 1}, // saslhandshake
	{ApiKey: 18, MinVersion: 0, MaxVersion: 2}, // apiversions
	{ApiKey: 19, MinVersion: 0, MaxVersion: 4}, // createtopics
	{ApiKey: 20, MinVersion: 0, MaxVersion: 3}, // deletetopics
	{ApiKey: 22, MinVersion: 0, MaxVersion: 1}, // initproducerid
	{ApiKey: 36, MinVersion: 0, MaxVersion: 1}, // saslauthenticate
}

type bconn struct {
	idx      int
	broker   int // cluster mode: the broker id this connection was dialled to (0 = bootstrap address)
	client   *End
	server   *End
	wmu      sync.Mutex // serialises answer frames
	mu       sync.Mutex
	answered int
	arrived  int  // requests decoded on this conn
	dead     bool // the reader saw EOF / an error: the client closed the connection
	notify   chan struct{}
}

// Broker is a scripted in-memory Kafka broker.
type Broker struct {
	HoldMax time.Duration // bound of Action.Hold waits (default 15ms)
	LateMax time.Duration // bound of Action.Late waits (default 600ms)

	mu     sync.Mutex
	conns  []*bconn
	reqs   []Req
	anss   []Ans
	seq    int
	script map[string]Action
	cuts   map[string][2]int // tag -> (bytes written, frame length) of CutAt / CutSilent answers
	topics []string

	// cluster mode (op trsplit): nBrokers brokers "b1".."bN" (all served by this fake, told apart by the
	// dialled address), a split topic with nParts partitions, partition p led by broker 1 + p % nBrokers
	nBrokers   int
	splitTopic string
	nParts     int
	qas        []QA // every (question, answer) pair this broker produced for the split topic / list groups

	produced []string             // values of the records received in produce requests
	pending  []pendingReq         // every decoded request (for AnswerAgain)
	fetches  map[string]FetchBody // scripted legacy fetch answers by request tag
	manual   chan struct{}

	// records mode (op trpage): fetch answers with real record batches, per topic
	records map[string][]RecSpec
	tails   map[string]int // records mode: length of the truncated last batch appended to the record set

	gateCh   chan struct{}
	gateN    int
	gateOpen bool

	done chan struct{}
	once sync.Once
}

// NewBroker returns a broker whose cluster-wide Metadata answer lists topics
// (one partition 0 each, led by broker 1 = this fake).
func NewBroker(topics ...string) *Broker {
	return &Broker{
		HoldMax:  15 * time.Millisecond,
		topics:   append([]string(nil), topics...),
		script:   map[string]Action{},
		gateOpen: true,
		manual:   make(chan struct{}),
		done:     make(chan struct{}),
	}
}

// SetScript installs the actions by request tag; untagged requests are
// answered at once.
func (b *Broker) SetScript(s map[string]Action) {
	b.mu.Lock()
	b.script = s
	b.mu.Unlock()
}

// SetGate makes the broker hold every scripted answer until n scripted
// requests have arrived (or until timeout has passed).
func (b *Broker) SetGate(n int, timeout time.Duration) {
	b.mu.Lock()
	ch := make(chan struct{})
	b.gateCh, b.gateN, b.gateOpen = ch, n, n <= 0
	if b.gateOpen {
		close(ch)
	}
	b.mu.Unlock()
	if n > 0 {
		time.AfterFunc(timeout, func() { b.openGate(ch) })
	}
}

func (b *Broker) openGate(ch chan struct{}) {
	b.mu.Lock()
	if b.gateCh == ch && !b.gateOpen {
		b.gateOpen = true
		close(ch)
	}
	b.mu.Unlock()
}

// Mark returns the current journal lengths.
func (b *Broker) Mark() (nreq, nans int) {
	b.mu.Lock()
	defer b.mu.Unlock()
	return len(b.reqs), len(b.anss)
}

// Journal returns copies of the request and answer journals from the marks on.
func (b *Broker) Journal(nreq, nans int) ([]Req, []Ans) {
	b.mu.Lock()
	defer b.mu.Unlock()
	return append([]Req(nil), b.reqs[nreq:]...), append([]Ans(nil), b.anss[nans:]...)
}

// NumConns is the number of connections dialed so far.
// CutOf reports how many bytes of the answer to tag were written and the frame's length.
func (b *Broker) CutOf(tag string) (k, n int, ok bool) {
	b.mu.Lock()
	defer b.mu.Unlock()
	v, ok := b.cuts[tag]
	return v[0], v[1], ok
}

func (b *Broker) NumConns() int {
	b.mu.Lock()
	defer b.mu.Unlock()
	return len(b.conns)
}

// ClientEnd returns the client end of the i-th dialed connection.
func (b *Broker) ClientEnd(i int) *End {
	b.mu.Lock()
	defer b.mu.Unlock()
	return b.conns[i].client
}

// ServerEnd returns the broker end of the i-th dialed connection (raw writes).
func (b *Broker) ServerEnd(i int) *End {
	b.mu.Lock()
	defer b.mu.Unlock()
	return b.conns[i].server
}

// Close closes the broker side of every connection.
func (b *Broker) Close() {
	b.once.Do(func() { close(b.done) })
	b.mu.Lock()
	conns := append([]*bconn(nil), b.conns...)
	b.mu.Unlock()
	for _, c := range conns {
		c.server.Close()
	}
}

// Dial hands out a new connection; usable as kafka.Dialer.DialFunc and
// kafka.Transport.Dial.  Connections are numbered in dial order.
func (b *Broker) Dial(ctx context.Context, network, address string) (net.Conn, error) {
	cl := b.DialEnd()
	if strings.HasPrefix(address, "b") {
		if i := strings.IndexByte(address, ':'); i > 1 {
			if id, err := strconv.Atoi(address[1:i]); err == nil {
				b.mu.Lock()
				for _, c := range b.conns {
					if c.client == cl {
						c.broker = id
					}
				}
				b.mu.Unlock()
			}
		}
	}
	return cl, nil
}

type pendingReq struct {
	conn int
	tag  string
	ver  int16
	corr int32
	msg  protocol.Message
}

// RecSpec describes one record of a scripted fetch answer: the value is ValueLen copies of the
// topic's last byte; KeyMode 0 = nil key, 1 = empty non-nil key, 2 = key of KeyLen copies of that byte.
type RecSpec struct {
	KeyMode  int
	KeyLen   int
	ValueLen int
}

// SetRecords makes Fetch requests for the given topics answer with record batches (v2).
func (b *Broker) SetRecords(m map[string][]RecSpec) {
	b.mu.Lock()
	b.records = m
	b.mu.Unlock()
}

// AnswerAgain answers the most recent journaled request with the given tag on connection conn
// (one whose scripted answer was dropped) with action act, synchronously; it returns the
// number of bytes written and the frame length for CutAt / CutSilent actions.
func (b *Broker) AnswerAgain(conn int, tag string, act Action) (k, n int) {
	b.mu.Lock()
	var c *bconn
	if conn >= 0 && conn < len(b.conns) {
		c = b.conns[conn]
	}
	var q *pendingReq
	for i := len(b.pending) - 1; i >= 0; i-- {
		if b.pending[i].conn == conn && b.pending[i].tag == tag {
			q = &b.pending[i]
			break
		}
	}
	b.mu.Unlock()
	if c == nil || q == nil {
		return 0, 0
	}
	b.answer(c, q.ver, q.corr, q.msg, tag, act, nil, 0, 0)
	k, n, _ = b.CutOf(tag)
	return k, n
}

// SetFetch scripts the answers to legacy (v2) fetch requests by tag.
func (b *Broker) SetFetch(m map[string]FetchBody) {
	b.mu.Lock()
	b.fetches = m
	b.mu.Unlock()
}

// OpenManual releases every answer whose action has Manual set.
func (b *Broker) OpenManual() {
	b.mu.Lock()
	select {
	case <-b.manual:
	default:
		close(b.manual)
	}
	b.mu.Unlock()
}

// SetTails makes the records-mode fetch answer for a topic end with a fragment of n bytes after
// its complete batches (the usual MaxBytes truncation of the last batch).  The fragment starts
// with [int32 4+(n-8)][int32 correlation id of the NEXT request on that connection] when n >= 8:
// read as a frame header it announces exactly the rest of the fragment.
func (b *Broker) SetTails(m map[string]int) {
	b.mu.Lock()
	b.tails = m
	b.mu.Unlock()
}

// appendTail splices n fragment bytes into the record set that ends the frame.
func appendTail(frame []byte, corr int32, topic string, n int) []byte {
	tail := make([]byte, n)
	if n >= 8 {
		binary.BigEndian.PutUint32(tail[0:], uint32(4+n-8))
		binary.BigEndian.PutUint32(tail[4:], uint32(corr+1))
	} else {
		for i := range tail {
			tail[i] = byte(0xA0 + i)
		}
	}
	// fetch v4, one topic, one partition: [size][corr][throttle][topics=1][topic string][partitions=1]
	// [partition][error int16][hwm][last stable offset][aborted transactions][record set size]...
	p := 48 + len(topic)
	if p+4 <= len(frame) && int(binary.BigEndian.Uint32(frame[p:])) == len(frame)-p-4 {
		out := append(append([]byte(nil), frame...), tail...)
		binary.BigEndian.PutUint32(out[p:], uint32(len(frame)-p-4+n))
		binary.BigEndian.PutUint32(out[0:], uint32(len(out)-4))
		return out
	}
	return frame
}

// Produced returns the values of all records received in produce requests so far.
func (b *Broker) Produced() []string {
	b.mu.Lock()
	defer b.mu.Unlock()
	return append([]string(nil), b.produced...)
}

func (b *Broker) recordsAnswer(msg protocol.Message) protocol.Message {
	if pr, ok := msg.(*produce.Request); ok {
		r := &produce.Response{}
		for _, t := range pr.Topics {
			rt := produce.ResponseTopic{Topic: t.Topic}
			for _, pp := range t.Partitions {
				rt.Partitions = append(rt.Partitions, produce.ResponsePartition{Partition: pp.Partition, BaseOffset: 0, LogAppendTime: -1})
			}
			r.Topics = append(r.Topics, rt)
		}
		return r
	}
	m, ok := msg.(*fetch.Request)
	if !ok || len(m.Topics) == 0 {
		return nil
	}
	b.mu.Lock()
	specs, ok := b.records[m.Topics[0].Topic]
	b.mu.Unlock()
	if !ok {
		return nil
	}
	topic := m.Topics[0].Topic
	letter := topic[len(topic)-1]
	now := time.Unix(1700000000, 0)
	recs := make([]protocol.Record, len(specs))
	for i, sp := range specs {
		r := protocol.Record{Offset: int64(i), Time: now, Value: protocol.NewBytes(bytes.Repeat([]byte{letter}, sp.ValueLen))}
		switch sp.KeyMode {
		case 1:
			r.Key = protocol.NewBytes([]byte{})
		case 2:
			r.Key = protocol.NewBytes(bytes.Repeat([]byte{letter}, sp.KeyLen))
		}
		recs[i] = r
	}
	return &fetch.Response{Topics: []fetch.ResponseTopic{{Topic: topic, Partitions: []fetch.ResponsePartition{{
		Partition: m.Topics[0].Partitions[0].Partition, HighWatermark: int64(len(specs)), LastStableOffset: int64(len(specs)),
		RecordSet: protocol.RecordSet{Version: 2, Records: protocol.NewRecordReader(recs...)},
	}}}}}
}

// QA is one question the fake answered in cluster mode and the answer it gave.
//
//	ListOffsets on the split topic: K1 = partition, K2 = timestamp asked, Val = offset answered
//	ListGroups:                     K1 = broker asked, K2 = group number, Val = broker that owns the group
type QA struct{ K1, K2, Val int64 }

// SplitOffset is the answer to "offset of partition p at timestamp ts" on the split topic.
func SplitOffset(p int32, ts int64) int64 {
	switch ts {
	case -2:
		return 1000*int64(p) + 1
	case -1:
		return 1000*int64(p) + 999
	}
	return 1000*int64(p) + 100 + ts%800
}

// SetCluster switches the fake to cluster mode.
func (b *Broker) SetCluster(nBrokers int, splitTopic string, nParts int) {
	b.mu.Lock()
	b.nBrokers, b.splitTopic, b.nParts = nBrokers, splitTopic, nParts
	b.mu.Unlock()
}

// QAs returns the (question, answer) pairs produced so far.
func (b *Broker) QAs() []QA {
	b.mu.Lock()
	defer b.mu.Unlock()
	return append([]QA(nil), b.qas...)
}

// BrokerOfConn is the broker id connection i was dialled to.
func (b *Broker) BrokerOfConn(i int) int {
	b.mu.Lock()
	defer b.mu.Unlock()
	if i < 0 || i >= len(b.conns) {
		return -1
	}
	return b.conns[i].broker
}

// clusterAnswer builds the answers that depend on the cluster layout; nil = use Frame.
func (b *Broker) clusterAnswer(c *bconn, msg protocol.Message) protocol.Message {
	b.mu.Lock()
	defer b.mu.Unlock()
	if b.nBrokers == 0 {
		return nil
	}
	switch m := msg.(type) {
	case *metadata.Request:
		r := &metadata.Response{ClusterID: "fake", ControllerID: 1}
		for id := 1; id <= b.nBrokers; id++ {
			r.Brokers = append(r.Brokers, metadata.ResponseBroker{NodeID: int32(id), Host: "b" + strconv.Itoa(id), Port: 9092})
		}
		for _, t := range b.topics {
			r.Topics = append(r.Topics, metadata.ResponseTopic{Name: t, Partitions: []metadata.ResponsePartition{{
				PartitionIndex: 0, LeaderID: 1, ReplicaNodes: []int32{1}, IsrNodes: []int32{1}}}})
		}
		st := metadata.ResponseTopic{Name: b.splitTopic}
		for p := 0; p < b.nParts; p++ {
			l := int32(1 + p%b.nBrokers)
			st.Partitions = append(st.Partitions, metadata.ResponsePartition{PartitionIndex: int32(p), LeaderID: l, ReplicaNodes: []int32{l}, IsrNodes: []int32{l}})
		}
		r.Topics = append(r.Topics, st)
		return r
	case *listoffsets.Request:
		if len(m.Topics) == 0 || m.Topics[0].Topic != b.splitTopic {
			return nil
		}
		r := &listoffsets.Response{}
		for _, t := range m.Topics {
			rt := listoffsets.ResponseTopic{Topic: t.Topic}
			for _, p := range t.Partitions {
				ts := p.Timestamp
				echo := ts
				if ts < 0 {
					echo = -1 // like a real broker: the special timestamps are not echoed
				}
				off := SplitOffset(p.Partition, ts)
				b.qas = append(b.qas, QA{int64(p.Partition), ts, off})
				rt.Partitions = append(rt.Partitions, listoffsets.ResponsePartition{Partition: p.Partition, Timestamp: echo, Offset: off, LeaderEpoch: -1})
			}
			r.Topics = append(r.Topics, rt)
		}
		return r
	case *listgroups.Request:
		r := &listgroups.Response{}
		for k := 0; k < 2; k++ {
			r.Groups = append(r.Groups, listgroups.ResponseGroup{GroupID: fmt.Sprintf("grp-%d-%d", c.broker, k), ProtocolType: "consumer"})
			b.qas = append(b.qas, QA{int64(c.broker), int64(k), int64(c.broker)})
		}
		return r
	}
	return nil
}

// DialEnd is Dial returning the concrete type.
func (b *Broker) DialEnd() *End {
	cl, sv := Pipe()
	c := &bconn{client: cl, server: sv, notify: make(chan struct{})}
	b.mu.Lock()
	c.idx = len(b.conns)
	b.conns = append(b.conns, c)
	b.mu.Unlock()
	select {
	case <-b.done:
		sv.Close()
	default:
		go b.serve(c)
	}
	return cl
}

func (b *Broker) serve(c *bconn) {
	r := bufio.NewReader(c.server)
	for {
		ver, corr, _, msg, err := protocol.ReadRequest(r)
		if err != nil {
			c.mu.Lock()
			c.dead = true
			close(c.notify)
			c.notify = make(chan struct{})
			c.mu.Unlock()
			c.server.Close()
			return
		}
		tag := TagOf(msg)

		b.mu.Lock()
		b.seq++
		b.reqs = append(b.reqs, Req{Conn: c.idx, Corr: corr, Key: int16(msg.ApiKey()), Ver: ver, Tag: tag, Seq: b.seq})
		b.pending = append(b.pending, pendingReq{c.idx, tag, ver, corr, msg})
		act, scripted := b.script[tag]
		if scripted && act.Once {
			delete(b.script, tag)
		}
		if pr, ok := msg.(*produce.Request); ok {
			// the log: every record value the broker received in a produce request (the
			// request is applied when it is received, DESIGN.md 2.3)
			for _, t := range pr.Topics {
				for _, pp := range t.Partitions {
					if pp.RecordSet.Records == nil {
						continue
					}
					for {
						rec, err := pp.RecordSet.Records.ReadRecord()
						if err != nil {
							break
						}
						v, _ := protocol.ReadAll(rec.Value)
						b.produced = append(b.produced, string(v))
					}
				}
			}
		}
		var gate chan struct{}
		if scripted && b.gateCh != nil {
			gate = b.gateCh
			if !b.gateOpen {
				b.gateN--
				if b.gateN <= 0 {
					b.gateOpen = true
					close(gate)
				}
			}
		}
		b.mu.Unlock()

		c.mu.Lock()
		target := c.answered + act.Hold
		c.arrived++
		lateTarget := c.arrived + act.Late
		close(c.notify)
		c.notify = make(chan struct{})
		c.mu.Unlock()

		go b.answer(c, ver, corr, msg, tag, act, gate, target, lateTarget)
	}
}

func (b *Broker) answer(c *bconn, ver int16, corr int32, msg protocol.Message, tag string, act Action, gate chan struct{}, target int, lateTarget int) {
	if gate != nil {
		select {
		case <-gate:
		case <-b.done:
			return
		}
	}
	if act.Hold > 0 {
		limit := time.NewTimer(b.HoldMax)
	wait:
		for {
			c.mu.Lock()
			ok, ch := c.answered >= target, c.notify
			c.mu.Unlock()
			if ok {
				break
			}
			select {
			case <-ch:
			case <-limit.C:
				break wait
			case <-b.done:
				limit.Stop()
				return
			}
		}
		limit.Stop()
	}
	if act.Manual {
		t := time.NewTimer(3 * time.Second)
		select {
		case <-b.manual:
		case <-t.C:
		case <-b.done:
			t.Stop()
			return
		}
		t.Stop()
	}
	if act.Late > 0 {
		max := b.LateMax
		if max == 0 {
			max = 600 * time.Millisecond
		}
		limit := time.NewTimer(max)
	late:
		for {
			c.mu.Lock()
			ok, ch := c.arrived >= lateTarget || c.dead, c.notify
			c.mu.Unlock()
			if ok {
				break
			}
			select {
			case <-ch:
			case <-limit.C:
				break late
			case <-b.done:
				limit.Stop()
				return
			}
		}
		limit.Stop()
	}
	if act.Delay > 0 {
		t := time.NewTimer(act.Delay)
		select {
		case <-t.C:
		case <-b.done:
			t.Stop()
			return
		}
	}
	if act.Drop {
		return
	}
	if act.Cut == CutBefore {
		c.server.Close()
		return
	}
	var frame []byte
	var err error
	res := b.clusterAnswer(c, msg)
	if res == nil {
		res = b.recordsAnswer(msg)
	}
	var rawFetch []byte
	if fm, ok := msg.(*fetch.Request); ok && ver == 2 && len(fm.Topics) == 1 && len(fm.Topics[0].Partitions) == 1 {
		b.mu.Lock()
		fb, ok := b.fetches[tag]
		b.mu.Unlock()
		if ok {
			rawFetch = FetchFrameV2(corr, fm.Topics[0].Topic, fm.Topics[0].Partitions[0].Partition, fm.Topics[0].Partitions[0].PartitionMaxBytes, fb)
		}
	}
	if rawFetch != nil {
		frame = rawFetch
	} else if res != nil {
		var buf bytes.Buffer
		if err = protocol.WriteResponse(&buf, ver, corr, res); err == nil {
			frame = buf.Bytes()
			if fm, ok := msg.(*fetch.Request); ok && len(fm.Topics) > 0 {
				b.mu.Lock()
				n := b.tails[fm.Topics[0].Topic]
				b.mu.Unlock()
				if n > 0 && ver == 4 {
					frame = appendTail(frame, corr, fm.Topics[0].Topic, n)
				}
			}
		}
	} else {
		frame, err = Frame(ver, corr, msg, act.ErrCode, b.topics)
	}
	if err != nil {
		// a request the fake cannot answer: treat like a drop
		return
	}

	c.wmu.Lock()
	defer c.wmu.Unlock()

	if act.Cut == CutMid {
		c.server.Write(frame[:len(frame)/2])
		c.server.Close()
		return
	}
	if act.Cut == CutAt || act.Cut == CutSilent {
		k := act.CutK
		switch {
		case k == CutKLast:
			k = len(frame) - 1
		case k == CutKMid:
			k = 8 + (len(frame)-8)/2
		}
		if k > len(frame)-1 {
			k = len(frame) - 1
		}
		if k < 0 {
			k = 0
		}
		c.server.Write(frame[:k])
		b.mu.Lock()
		if b.cuts == nil {
			b.cuts = map[string][2]int{}
		}
		b.cuts[tag] = [2]int{k, len(frame)}
		b.mu.Unlock()
		if act.Cut == CutAt {
			c.server.Close()
		}
		return
	}
	if act.DripAt > 0 && act.DripAt < len(frame) {
		c.server.Write(frame[:act.DripAt])
		t := time.NewTimer(act.DripHold)
		select {
		case <-t.C:
		case <-b.done:
			t.Stop()
			return
		}
		if _, err := c.server.Write(frame[act.DripAt:]); err == nil {
			b.mu.Lock()
			b.seq++
			b.anss = append(b.anss, Ans{Conn: c.idx, Corr: corr, Tag: tag, Seq: b.seq})
			b.mu.Unlock()
		}
		c.mu.Lock()
		c.answered++
		close(c.notify)
		c.notify = make(chan struct{})
		c.mu.Unlock()
		return
	}
	copies := 1
	if act.Dup {
		copies = 2
	}
	for i := 0; i < copies; i++ {
		if _, err := c.server.Write(frame); err != nil {
			break
		}
		b.mu.Lock()
		b.seq++
		b.anss = append(b.anss, Ans{Conn: c.idx, Corr: corr, Tag: tag, Seq: b.seq})
		b.mu.Unlock()
	}
	c.mu.Lock()
	c.answered++
	close(c.notify)
	c.notify = make(chan struct{})
	c.mu.Unlock()
	if act.Cut == CutAfter {
		c.server.Close()
	}
}

// ListOffsetsTag is the tag of a ListOffsets request for (topic, timestamp).
func ListOffsetsTag(topic string, ts int64) string {
	if topic == LegacyTopic {
		return "lo:" + strconv.FormatInt(ts, 16)
	}
	if n, ok := numOf(topic); ok {
		return "lo:" + strconv.FormatInt(n, 16)
	}
	return "lo:" + topic
}

func listOffsetsNum(topic string, ts int64) int64 {
	if topic == LegacyTopic {
		return ts
	}
	n, _ := numOf(topic)
	return n
}

// TagOf extracts the short tag identifying what a request asks for.
func TagOf(msg protocol.Message) string {
	switch m := msg.(type) {
	case *apiversions.Request:
		return "av"
	case *metadata.Request:
		if m.TopicNames == nil {
			return "md:*"
		}
		return "md:" + strings.Join(m.TopicNames, "+")
	case *listoffsets.Request:
		if len(m.Topics) > 0 && len(m.Topics[0].Partitions) > 0 {
			if strings.HasPrefix(m.Topics[0].Topic, "split") {
				return "ls:" + strconv.FormatInt(int64(m.Topics[0].Partitions[0].Partition), 16) + ":" + strconv.FormatInt(m.Topics[0].Partitions[0].Timestamp, 16)
			}
			return ListOffsetsTag(m.Topics[0].Topic, m.Topics[0].Partitions[0].Timestamp)
		}
		return "lo:"
	case *findcoordinator.Request:
		return "fc:" + m.Key
	case *produce.Request:
		return "pr"
	case *listgroups.Request:
		return "lg"
	case *offsetfetch.Request:
		return "of:" + m.GroupID
	case *fetch.Request:
		if len(m.Topics) > 0 && len(m.Topics[0].Partitions) > 0 {
			return "fe:" + strconv.FormatInt(int64(m.Topics[0].Partitions[0].PartitionMaxBytes), 16)
		}
		return "fe:"
	}
	return fmt.Sprintf("api%d", msg.ApiKey())
}

// Frame encodes the complete answer frame ([size][correlation id][body]) to a
// request, in the version the request carries.
func Frame(ver int16, corr int32, msg protocol.Message, errCode int16, clusterTopics []string) ([]byte, error) {
	var res protocol.Message
	switch m := msg.(type) {
	case *apiversions.Request:
		res = &apiversions.Response{ErrorCode: errCode, ApiKeys: ApiTable}

	case *metadata.Request:
		r := &metadata.Response{
			ClusterID:    "fake",
			ControllerID: 1,
			Brokers:      []metadata.ResponseBroker{{NodeID: 1, Host: "fake", Port: 9092}},
		}
		if m.TopicNames == nil {
			for _, t := range clusterTopics {
				r.Topics = append(r.Topics, metadata.ResponseTopic{
					Name: t,
					Partitions: []metadata.ResponsePartition{{
						PartitionIndex: 0, LeaderID: 1, ReplicaNodes: []int32{1}, IsrNodes: []int32{1},
					}},
				})
			}
		} else {
			for i, t := range m.TopicNames {
				id := int32(100 + i)
				r.Brokers = append(r.Brokers, metadata.ResponseBroker{NodeID: id, Host: HostFor(t), Port: 9092})
				r.Topics = append(r.Topics, metadata.ResponseTopic{
					Name: t,
					Partitions: []metadata.ResponsePartition{{
						PartitionIndex: PartitionIDFor(t), LeaderID: id, ReplicaNodes: []int32{id}, IsrNodes: []int32{id},
					}},
				})
			}
		}
		res = r

	case *listoffsets.Request:
		r := &listoffsets.Response{}
		for _, t := range m.Topics {
			rt := listoffsets.ResponseTopic{Topic: t.Topic}
			for _, p := range t.Partitions {
				rp := listoffsets.ResponsePartition{
					Partition: p.Partition,
					ErrorCode: errCode,
					Timestamp: p.Timestamp,
					Offset:    OffsetForTag(listOffsetsNum(t.Topic, p.Timestamp)),
				}
				if errCode != 0 {
					rp.Offset = -1
				}
				rt.Partitions = append(rt.Partitions, rp)
			}
			r.Topics = append(r.Topics, rt)
		}
		res = r

	case *findcoordinator.Request:
		res = &findcoordinator.Response{ErrorCode: errCode, NodeID: 1, Host: HostFor(m.Key), Port: 9092}

	case *offsetfetch.Request:
		n, _ := numOf(m.GroupID)
		r := &offsetfetch.Response{}
		for _, t := range m.Topics {
			rt := offsetfetch.ResponseTopic{Name: t.Name}
			for _, p := range t.PartitionIndexes {
				rt.Partitions = append(rt.Partitions, offsetfetch.ResponsePartition{
					PartitionIndex:  p,
					CommittedOffset: CommittedForTag(n),
					ErrorCode:       errCode,
				})
			}
			r.Topics = append(r.Topics, rt)
		}
		res = r

	case *fetch.Request:
		// hand-written fetch v2 answer: one topic, one partition, empty
		// message set, high watermark = requested offset, throttle time =
		// the partition's max bytes (the tag of the request).
		if ver != 2 || len(m.Topics) != 1 || len(m.Topics[0].Partitions) != 1 {
			return nil, fmt.Errorf("muxfake: fetch v%d not supported", ver)
		}
		t, p := m.Topics[0], m.Topics[0].Partitions[0]
		var b bytes.Buffer
		put := func(v interface{}) { binary.Write(&b, binary.BigEndian, v) }
		put(int32(0)) // size placeholder
		put(corr)
		put(p.PartitionMaxBytes) // throttle time ms
		put(int32(1))
		put(int16(len(t.Topic)))
		b.WriteString(t.Topic)
		put(int32(1))
		put(p.Partition)
		put(errCode)
		put(p.FetchOffset) // high watermark
		put(int32(0))      // message set size
		out := b.Bytes()
		binary.BigEndian.PutUint32(out, uint32(len(out)-4))
		return out, nil

	default:
		return nil, fmt.Errorf("muxfake: no answer for api key %d", msg.ApiKey())
	}

	var b bytes.Buffer
	if err := protocol.WriteResponse(&b, ver, corr, res); err != nil {
		return nil, err
	}
	return b.Bytes(), nil
}
