package muxfake

import (
	"bytes"
	"encoding/binary"
	"time"

	"github.com/segmentio/kafka-go/compress"
	"github.com/segmentio/kafka-go/protocol"
)

// Msg is one message of a scripted fetch answer.
type Msg struct {
	Key   []byte
	Value []byte
}

// BatchSpec is one batch of a message set: Version 1 (message set v1, compressed = wrapper
// message) or 2 (record batch), Codec 0 none / 1 gzip / 2 snappy, messages with consecutive
// offsets starting at Base.
type BatchSpec struct {
	Version int8
	Codec   int
	Base    int64
	Msgs    []Msg
}

// BuildMessageSet renders the batches with the encoder of /repo/protocol (RecordSet.WriteTo) and
// concatenates them.
func BuildMessageSet(specs []BatchSpec) ([]byte, error) {
	var out bytes.Buffer
	now := time.Unix(1700000000, 0)
	for _, sp := range specs {
		recs := make([]protocol.Record, len(sp.Msgs))
		for i, m := range sp.Msgs {
			recs[i] = protocol.Record{Offset: sp.Base + int64(i), Time: now, Value: protocol.NewBytes(m.Value)}
			if m.Key != nil {
				recs[i].Key = protocol.NewBytes(m.Key)
			}
		}
		rs := protocol.RecordSet{Version: sp.Version, Records: protocol.NewRecordReader(recs...)}
		switch sp.Codec {
		case 1:
			rs.Attributes = protocol.Attributes(compress.Gzip)
		case 2:
			rs.Attributes = protocol.Attributes(compress.Snappy)
		case 3:
			rs.Attributes = protocol.Attributes(compress.Lz4)
		case 4:
			rs.Attributes = protocol.Attributes(compress.Zstd)
		}
		var b bytes.Buffer
		if _, err := rs.WriteTo(&b); err != nil {
			return nil, err
		}
		enc := b.Bytes()[4:] // drop the int32 size prefix of the record set
		// the encoder of /repo/protocol is the produce side: it writes base offset 0 / relative
		// offsets; a broker assigns the log offsets (not covered by the CRCs)
		n := int64(len(sp.Msgs))
		switch {
		case sp.Version == 2:
			binary.BigEndian.PutUint64(enc[0:], uint64(sp.Base))
		case sp.Codec != 0: // v1 wrapper message: offset of the last inner message, inner offsets relative
			binary.BigEndian.PutUint64(enc[0:], uint64(sp.Base+n-1))
		default:
			for p, i := 0, int64(0); p+12 <= len(enc); i++ {
				binary.BigEndian.PutUint64(enc[p:], uint64(sp.Base+i))
				p += 12 + int(binary.BigEndian.Uint32(enc[p+8:]))
			}
		}
		out.Write(enc)
	}
	return out.Bytes(), nil
}

// FetchBody is a scripted answer to a legacy (v2) fetch request.
type FetchBody struct {
	HWM     int64
	MsgSet  []byte
	ErrCode int16 // partition error code
}

// FetchFrameV2 renders a complete fetch v2 response frame: one topic, one partition.
func FetchFrameV2(corr int32, topic string, partition int32, throttle int32, fb FetchBody) []byte {
	var b bytes.Buffer
	put := func(v interface{}) { binary.Write(&b, binary.BigEndian, v) }
	put(int32(0))
	put(corr)
	put(throttle)
	put(int32(1))
	put(int16(len(topic)))
	b.WriteString(topic)
	put(int32(1))
	put(partition)
	put(fb.ErrCode)
	put(fb.HWM)
	put(int32(len(fb.MsgSet)))
	b.Write(fb.MsgSet)
	out := b.Bytes()
	binary.BigEndian.PutUint32(out, uint32(len(out)-4))
	return out
}
