// Package muxfake provides an in-memory, deadline-capable full-duplex net.Conn
// pair and a scripted wire-level Kafka broker on top of it.  It is used by the
// C06 driver (response/request pairing on kafka.Conn and kafka.Transport).
package muxfake

import (
	"io"
	"net"
	"os"
	"sync"
	"sync/atomic"
	"time"
)

// half is one direction of the pipe: a byte queue with one reader.
type half struct {
	mu       sync.Mutex
	buf      []byte
	wclosed  bool // the writing side closed: EOF once drained
	rclosed  bool // the reading side closed: reads fail, writes fail
	deadline time.Time
	notify   chan struct{} // closed and replaced on every state change
}

func newHalf() *half { return &half{notify: make(chan struct{})} }

func (h *half) broadcastLocked() {
	close(h.notify)
	h.notify = make(chan struct{})
}

func (h *half) read(p []byte) (int, error) {
	for {
		h.mu.Lock()
		if h.rclosed {
			h.mu.Unlock()
			return 0, net.ErrClosed
		}
		// An expired deadline fails the read even when data is buffered,
		// like a real socket.
		if !h.deadline.IsZero() && !time.Now().Before(h.deadline) {
			h.mu.Unlock()
			return 0, os.ErrDeadlineExceeded
		}
		if len(p) == 0 {
			h.mu.Unlock()
			return 0, nil
		}
		if len(h.buf) > 0 {
			n := copy(p, h.buf)
			h.buf = h.buf[n:]
			if len(h.buf) == 0 {
				h.buf = nil
			}
			h.mu.Unlock()
			return n, nil
		}
		if h.wclosed {
			h.mu.Unlock()
			return 0, io.EOF
		}
		ch := h.notify
		dl := h.deadline
		h.mu.Unlock()

		if dl.IsZero() {
			<-ch
		} else {
			t := time.NewTimer(time.Until(dl))
			select {
			case <-ch:
			case <-t.C:
			}
			t.Stop()
		}
	}
}

func (h *half) write(p []byte) (int, error) {
	h.mu.Lock()
	defer h.mu.Unlock()
	if h.wclosed || h.rclosed {
		return 0, io.ErrClosedPipe
	}
	h.buf = append(h.buf, p...)
	h.broadcastLocked()
	return len(p), nil
}

func (h *half) setDeadline(t time.Time) {
	h.mu.Lock()
	h.deadline = t
	h.broadcastLocked()
	h.mu.Unlock()
}

func (h *half) closeRead() {
	h.mu.Lock()
	h.rclosed = true
	h.buf = nil
	h.broadcastLocked()
	h.mu.Unlock()
}

func (h *half) closeWrite() {
	h.mu.Lock()
	h.wclosed = true
	h.broadcastLocked()
	h.mu.Unlock()
}

func (h *half) buffered() int {
	h.mu.Lock()
	n := len(h.buf)
	h.mu.Unlock()
	return n
}

type addr string

func (a addr) Network() string { return "tcp" }
func (a addr) String() string  { return string(a) }

// End is one end of an in-memory connection.  Writes never block.
type End struct {
	rd, wr *half
	closed int32
	local  addr
	remote addr

	wmu       sync.Mutex
	wdeadline time.Time

	// OnSetReadDeadline, when set, is called on every SetReadDeadline and
	// SetDeadline (the C06 driver counts waitResponse iterations with it).
	// Set it before the End is shared between goroutines.
	OnSetReadDeadline func()
}

// Pipe returns the two ends of a fresh in-memory connection.
func Pipe() (client, server *End) {
	a, b := newHalf(), newHalf()
	client = &End{rd: a, wr: b, local: "client:1", remote: "fake:9092"}
	server = &End{rd: b, wr: a, local: "fake:9092", remote: "client:1"}
	return
}

func (e *End) Read(p []byte) (int, error) { return e.rd.read(p) }

func (e *End) Write(p []byte) (int, error) {
	if atomic.LoadInt32(&e.closed) != 0 {
		return 0, io.ErrClosedPipe
	}
	e.wmu.Lock()
	dl := e.wdeadline
	e.wmu.Unlock()
	if !dl.IsZero() && !time.Now().Before(dl) {
		return 0, os.ErrDeadlineExceeded
	}
	return e.wr.write(p)
}

// Close closes this end: the peer reads EOF after draining what was written,
// local reads and writes fail.
func (e *End) Close() error {
	if !atomic.CompareAndSwapInt32(&e.closed, 0, 1) {
		return nil
	}
	e.rd.closeRead()
	e.wr.closeWrite()
	return nil
}

// Closed reports whether Close was called on this end.
func (e *End) Closed() bool { return atomic.LoadInt32(&e.closed) != 0 }

// Unread is the number of bytes written by the peer and not yet read here.
func (e *End) Unread() int { return e.rd.buffered() }

func (e *End) LocalAddr() net.Addr  { return e.local }
func (e *End) RemoteAddr() net.Addr { return e.remote }

func (e *End) SetDeadline(t time.Time) error {
	e.SetWriteDeadline(t)
	return e.SetReadDeadline(t)
}

func (e *End) SetReadDeadline(t time.Time) error {
	if f := e.OnSetReadDeadline; f != nil {
		f()
	}
	e.rd.setDeadline(t)
	return nil
}

func (e *End) SetWriteDeadline(t time.Time) error {
	e.wmu.Lock()
	e.wdeadline = t
	e.wmu.Unlock()
	return nil
}

var _ net.Conn = (*End)(nil)
