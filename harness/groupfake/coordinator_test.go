package groupfake

import (
	"context"
	"errors"
	"io"
	"net"
	"runtime"
	"testing"
	"time"

	"github.com/segmentio/kafka-go/protocol"
	"github.com/segmentio/kafka-go/protocol/fetch"
	"github.com/segmentio/kafka-go/protocol/findcoordinator"
	"github.com/segmentio/kafka-go/protocol/heartbeat"
	"github.com/segmentio/kafka-go/protocol/joingroup"
	"github.com/segmentio/kafka-go/protocol/leavegroup"
	"github.com/segmentio/kafka-go/protocol/listoffsets"
	"github.com/segmentio/kafka-go/protocol/metadata"
	"github.com/segmentio/kafka-go/protocol/offsetcommit"
	"github.com/segmentio/kafka-go/protocol/offsetfetch"
	"github.com/segmentio/kafka-go/protocol/syncgroup"
)

// Deterministic tests of the coordinator state machine with a raw protocol client.

type rawClient struct {
	t    *testing.T
	b    *Broker
	c    net.Conn
	id   string
	corr int32
}

func dialRaw(t *testing.T, b *Broker, id string) *rawClient {
	t.Helper()
	c, err := b.Dial(context.Background(), "tcp", b.Addr())
	if err != nil {
		t.Fatalf("dial: %v", err)
	}
	t.Cleanup(func() { c.Close() })
	return &rawClient{t: t, b: b, c: c, id: id}
}

func (rc *rawClient) try(ver int16, req protocol.Message) (protocol.Message, error) {
	rc.corr++
	rc.c.SetDeadline(time.Now().Add(long))
	return protocol.RoundTrip(rc.c, ver, rc.corr, rc.id, req)
}

func (rc *rawClient) do(ver int16, req protocol.Message) protocol.Message {
	rc.t.Helper()
	res, err := rc.try(ver, req)
	if err != nil {
		dump(rc.t, rc.b)
		rc.t.Fatalf("%s: %T: %v", rc.id, req, err)
	}
	return res
}

func (rc *rawClient) join(member string, sessionMs, rebalanceMs int32) *joingroup.Response {
	rc.t.Helper()
	return rc.do(1, &joingroup.Request{GroupID: "g", SessionTimeoutMS: sessionMs, RebalanceTimeoutMS: rebalanceMs, MemberID: member,
		ProtocolType: "consumer", Protocols: []joingroup.RequestProtocol{{Name: "range", Metadata: []byte("meta-" + rc.id)}}}).(*joingroup.Response)
}

func assignmentBytes(topic string, partitions ...int32) []byte {
	w := &wbuf{}
	w.i16(1)
	w.i32(1)
	w.str(topic)
	w.i32(int32(len(partitions)))
	for _, p := range partitions {
		w.i32(p)
	}
	w.bytes(nil)
	return w.b
}

func (rc *rawClient) sync(member string, gen int32, as ...syncgroup.RequestAssignment) *syncgroup.Response {
	rc.t.Helper()
	return rc.do(0, &syncgroup.Request{GroupID: "g", GenerationID: gen, MemberID: member, Assignments: as}).(*syncgroup.Response)
}

func (rc *rawClient) heartbeat(member string, gen int32) int16 {
	rc.t.Helper()
	return rc.do(0, &heartbeat.Request{GroupID: "g", GenerationID: gen, MemberID: member}).(*heartbeat.Response).ErrorCode
}

func (rc *rawClient) commit(member string, gen int32, topic string, partition int32, offset int64) int16 {
	rc.t.Helper()
	res := rc.do(2, &offsetcommit.Request{GroupID: "g", GenerationID: gen, MemberID: member, RetentionTimeMs: -1,
		Topics: []offsetcommit.RequestTopic{{Name: topic, Partitions: []offsetcommit.RequestPartition{{PartitionIndex: partition, CommittedOffset: offset}}}}}).(*offsetcommit.Response)
	return res.Topics[0].Partitions[0].ErrorCode
}

func lastEvent(b *Broker, kind string) Event {
	h := b.History()
	for i := len(h) - 1; i >= 0; i-- {
		if h[i].Kind == kind {
			return h[i]
		}
	}
	return Event{Seq: -1}
}

func TestCoordinatorStateMachine(t *testing.T) {
	g0 := runtime.NumGoroutine()
	b := New(Config{Topics: map[string]int{"t": 2, "u": 1}})
	defer b.Close()
	a, bb := dialRaw(t, b, "A"), dialRaw(t, b, "B")

	// unknown member id
	if r := a.join("nobody", 1000, 500); r.ErrorCode != ErrUnknownMemberID {
		t.Fatalf("join with an unknown id: %d", r.ErrorCode)
	}
	// A alone
	ja := a.join("", 1000, 500)
	if ja.ErrorCode != 0 || ja.MemberID != "A-1" || ja.LeaderID != "A-1" || ja.GenerationID != 1 || ja.ProtocolName != "range" ||
		len(ja.Members) != 1 || string(ja.Members[0].Metadata) != "meta-A" {
		t.Fatalf("join A: %+v", ja)
	}
	if b.State() != StateCompletingRebalance {
		t.Fatalf("state %s", b.State())
	}
	if c := a.heartbeat("A-1", 1); c != 0 {
		t.Fatalf("heartbeat while completing: %d", c)
	}
	if c := a.commit("A-1", 1, "t", 0, 1); c != ErrRebalanceInProgress {
		t.Fatalf("commit while completing: %d", c)
	}
	if s := a.sync("A-1", 2); s.ErrorCode != ErrIllegalGeneration {
		t.Fatalf("sync wrong generation: %d", s.ErrorCode)
	}
	sa := a.sync("A-1", 1, syncgroup.RequestAssignment{MemberID: "A-1", Assignment: assignmentBytes("t", 1, 0)})
	if sa.ErrorCode != 0 || len(sa.Assignments) == 0 || b.State() != StateStable {
		t.Fatalf("sync A: %+v state %s", sa, b.State())
	}
	if e := lastEvent(b, "sync"); len(e.TPs) != 2 || e.TPs[0] != (TPO{"t", 0, -1}) || e.TPs[1] != (TPO{"t", 1, -1}) || e.Gen != 1 {
		t.Fatalf("sync event %+v", e)
	}
	// a second sync in Stable gets the stored assignment
	if s := a.sync("A-1", 1); s.ErrorCode != 0 || string(s.Assignments) != string(sa.Assignments) {
		t.Fatalf("sync in stable: %+v", s)
	}

	// offsets
	if c := a.commit("A-1", 1, "t", 0, 7); c != 0 {
		t.Fatalf("commit: %d", c)
	}
	if c := a.commit("A-1", 1, "t", 0, 3); c != 0 { // no monotonicity check
		t.Fatalf("commit: %d", c)
	}
	if o, ok := b.Committed("t", 0); !ok || o != 3 {
		t.Fatalf("committed %d %v", o, ok)
	}
	if c := a.commit("A-1", 0, "t", 0, 9); c != ErrIllegalGeneration {
		t.Fatalf("commit old generation: %d", c)
	}
	if c := a.commit("zombie", 1, "t", 0, 9); c != ErrUnknownMemberID {
		t.Fatalf("commit unknown member: %d", c)
	}
	if c := a.commit("A-1", 1, "t", 5, 9); c != ErrUnknownTopicOrPartition {
		t.Fatalf("commit unknown partition: %d", c)
	}
	if c := a.commit("", -1, "u", 0, 11); c != 0 { // simple consumer
		t.Fatalf("simple commit: %d", c)
	}
	if o, _ := b.Committed("t", 0); o != 3 {
		t.Fatalf("a rejected commit was stored: %d", o)
	}
	of := a.do(1, &offsetfetch.Request{GroupID: "g", Topics: []offsetfetch.RequestTopic{{Name: "t", PartitionIndexes: []int32{0, 1}}, {Name: "u"}}}).(*offsetfetch.Response)
	if len(of.Topics) != 2 || len(of.Topics[0].Partitions) != 2 || of.Topics[0].Partitions[0].CommittedOffset != 3 ||
		of.Topics[0].Partitions[1].CommittedOffset != -1 || len(of.Topics[1].Partitions) != 0 {
		t.Fatalf("offset fetch: %+v", of)
	}
	if e := lastEvent(b, "ofetch"); len(e.TPs) != 2 || e.TPs[0].Offset != 3 || e.TPs[1].Offset != -1 || e.Member != "" {
		t.Fatalf("ofetch event %+v", e)
	}

	// B joins: held until A rejoins
	type jr struct {
		r   *joingroup.Response
		err error
	}
	jb := make(chan jr, 1)
	go func() {
		m, err := bb.try(1, &joingroup.Request{GroupID: "g", SessionTimeoutMS: 1000, RebalanceTimeoutMS: 3000, ProtocolType: "consumer",
			Protocols: []joingroup.RequestProtocol{{Name: "roundrobin", Metadata: []byte("rr-B")}, {Name: "range", Metadata: []byte("meta-B")}}})
		r, _ := m.(*joingroup.Response)
		jb <- jr{r, err}
	}()
	waitFor(t, b, "preparing", func() bool { return b.State() == StatePreparingRebalance && len(b.Members()) == 2 })
	select {
	case r := <-jb:
		t.Fatalf("B's join was not held: %+v %v", r.r, r.err)
	case <-time.After(50 * time.Millisecond):
	}
	if c := a.heartbeat("A-1", 1); c != ErrRebalanceInProgress {
		t.Fatalf("heartbeat while preparing: %d", c)
	}
	if e := lastEvent(b, "hb"); e.Code != ErrRebalanceInProgress || e.Member != "A-1" || e.Client != "A" {
		t.Fatalf("hb event %+v", e)
	}
	if c := a.commit("A-1", 1, "t", 1, 4); c != 0 { // commits are accepted while preparing
		t.Fatalf("commit while preparing: %d", c)
	}
	if s := a.sync("A-1", 1); s.ErrorCode != ErrRebalanceInProgress {
		t.Fatalf("sync while preparing: %d", s.ErrorCode)
	}
	ja = a.join("A-1", 1000, 500)
	rb := <-jb
	if rb.err != nil || rb.r.ErrorCode != 0 {
		t.Fatalf("join B: %+v %v", rb.r, rb.err)
	}
	if ja.GenerationID != 2 || ja.LeaderID != "A-1" || len(ja.Members) != 2 || ja.ProtocolName != "range" ||
		rb.r.GenerationID != 2 || rb.r.MemberID != "B-2" || rb.r.LeaderID != "A-1" || len(rb.r.Members) != 0 {
		t.Fatalf("generation 2: A %+v B %+v", ja, rb.r)
	}
	if string(ja.Members[1].Metadata) != "meta-B" {
		t.Fatalf("metadata of B for the selected protocol: %q", ja.Members[1].Metadata)
	}
	// the follower's sync is held until the leader's
	sb := make(chan *syncgroup.Response, 1)
	go func() {
		m, _ := bb.try(0, &syncgroup.Request{GroupID: "g", GenerationID: 2, MemberID: "B-2"})
		r, _ := m.(*syncgroup.Response)
		sb <- r
	}()
	select {
	case r := <-sb:
		t.Fatalf("B's sync was not held: %+v", r)
	case <-time.After(50 * time.Millisecond):
	}
	sa = a.sync("A-1", 2, syncgroup.RequestAssignment{MemberID: "A-1", Assignment: assignmentBytes("t", 0)},
		syncgroup.RequestAssignment{MemberID: "B-2", Assignment: assignmentBytes("t", 1)})
	rsb := <-sb
	if sa.ErrorCode != 0 || rsb == nil || rsb.ErrorCode != 0 || string(rsb.Assignments) != string(assignmentBytes("t", 1)) {
		t.Fatalf("sync generation 2: %+v %+v", sa, rsb)
	}
	if got := b.Assignment("B-2"); len(got) != 1 || got[0] != (TPO{"t", 1, -1}) {
		t.Fatalf("assignment of B: %v", got)
	}

	// forced rebalance; only B rejoins: A is evicted when the rebalance timeout (max 3000, 500 -> 3s) expires.
	// Make it short: B rejoins with a 300ms timeout first... the timeout is the one armed at prepare time, so
	// instead let A leave explicitly and check the other path below.
	if r := a.do(0, &leavegroup.Request{GroupID: "g", MemberID: "A-1"}).(*leavegroup.Response); r.ErrorCode != 0 {
		t.Fatalf("leave: %d", r.ErrorCode)
	}
	if r := a.do(0, &leavegroup.Request{GroupID: "g", MemberID: "A-1"}).(*leavegroup.Response); r.ErrorCode != ErrUnknownMemberID {
		t.Fatalf("second leave: %d", r.ErrorCode)
	}
	if b.State() != StatePreparingRebalance {
		t.Fatalf("state after leave: %s", b.State())
	}
	rjb := bb.join("B-2", 1000, 300)
	if rjb.ErrorCode != 0 || rjb.GenerationID != 3 || rjb.LeaderID != "B-2" || len(rjb.Members) != 1 {
		t.Fatalf("B alone: %+v", rjb)
	}
	// the leader never syncs: it is removed after the rebalance timeout (300ms) and the group becomes empty
	waitFor(t, b, "sync timeout", func() bool { return b.State() == StateEmpty })
	if e := lastEvent(b, "evict"); e.Member != "B-2" || e.Note != "sync-timeout" {
		t.Fatalf("evict event %+v", e)
	}
	if b.Generation() != 3 {
		t.Fatalf("generation %d", b.Generation())
	}
	if o, _ := b.Committed("t", 1); o != 4 {
		t.Fatalf("committed offsets lost: %d", o)
	}

	// rebalance timeout: C and D form a group, a rebalance is forced, only C rejoins
	c, d := dialRaw(t, b, "C"), dialRaw(t, b, "D")
	rjc := c.join("", 1000, 300)
	jd := make(chan *joingroup.Response, 1)
	go func() { jd <- d.join("", 1000, 300) }()
	waitFor(t, b, "D joining", func() bool { return len(b.Members()) == 2 })
	rjc = c.join(rjc.MemberID, 1000, 300)
	rjd := <-jd
	if rjc.GenerationID != 5 || rjd.GenerationID != 5 || rjc.LeaderID != rjc.MemberID {
		t.Fatalf("C %+v D %+v", rjc, rjd)
	}
	c.sync(rjc.MemberID, 5, syncgroup.RequestAssignment{MemberID: rjc.MemberID, Assignment: assignmentBytes("t", 0, 1)})
	d.sync(rjd.MemberID, 5)
	b.ForceRebalance("forced")
	b.ForceRebalance("forced again") // no-op
	t0 := time.Now()
	rjc = c.join(rjc.MemberID, 1000, 300) // held until D is given up
	if rjc.ErrorCode != 0 || rjc.GenerationID != 6 || len(rjc.Members) != 1 || time.Since(t0) < 200*time.Millisecond {
		t.Fatalf("C after the rebalance timeout: %+v after %v", rjc, time.Since(t0))
	}
	if e := lastEvent(b, "evict"); e.Member != rjd.MemberID || e.Note != "rebalance-timeout" {
		t.Fatalf("evict event %+v", e)
	}
	if c := d.heartbeat(rjd.MemberID, 5); c != ErrUnknownMemberID {
		t.Fatalf("heartbeat of the evicted member: %d", c)
	}

	// inconsistent protocols
	e := dialRaw(t, b, "E")
	if r := e.do(1, &joingroup.Request{GroupID: "g", SessionTimeoutMS: 1000, RebalanceTimeoutMS: 300, ProtocolType: "consumer",
		Protocols: []joingroup.RequestProtocol{{Name: "sticky"}}}).(*joingroup.Response); r.ErrorCode != ErrInconsistentGroupProtocol {
		t.Fatalf("join with a foreign protocol: %+v", r)
	}

	for i, ev := range b.History() {
		if ev.Seq != i {
			t.Fatalf("seq")
		}
	}
	b.Close()
	checkLeaks(t, g0)
}

func TestPlainAPIs(t *testing.T) {
	b := New(Config{Topics: map[string]int{"t": 2}})
	defer b.Close()
	a := dialRaw(t, b, "A")

	fc := a.do(0, &findcoordinator.Request{Key: "g"}).(*findcoordinator.Response)
	if fc.ErrorCode != 0 || fc.NodeID != 1 || net.JoinHostPort(fc.Host, "9092") != b.Addr() || fc.Port != 9092 {
		t.Fatalf("find coordinator: %+v", fc)
	}
	md := a.do(1, &metadata.Request{TopicNames: []string{"t", "nope"}}).(*metadata.Response)
	if len(md.Brokers) != 1 || md.Brokers[0].NodeID != 1 || len(md.Topics) != 2 || len(md.Topics[0].Partitions) != 2 ||
		md.Topics[0].Partitions[1].LeaderID != 1 || md.Topics[1].ErrorCode != ErrUnknownTopicOrPartition {
		t.Fatalf("metadata: %+v", md)
	}
	md = a.do(1, &metadata.Request{}).(*metadata.Response)
	if len(md.Topics) != 1 || md.Topics[0].Name != "t" {
		t.Fatalf("metadata (all): %+v", md)
	}
	md = a.do(1, &metadata.Request{TopicNames: []string{}}).(*metadata.Response)
	if len(md.Topics) != 0 || len(md.Brokers) != 1 {
		t.Fatalf("metadata (none): %+v", md)
	}

	b.Append("t", 1, 5)
	lo := func(p int32, ts int64) listoffsets.ResponsePartition {
		r := a.do(1, &listoffsets.Request{ReplicaID: -1, Topics: []listoffsets.RequestTopic{{Topic: "t", Partitions: []listoffsets.RequestPartition{{Partition: p, Timestamp: ts}}}}}).(*listoffsets.Response)
		return r.Topics[0].Partitions[0]
	}
	if r := lo(1, -2); r.Offset != 0 || r.ErrorCode != 0 {
		t.Fatalf("first offset: %+v", r)
	}
	if r := lo(1, -1); r.Offset != 5 || r.ErrorCode != 0 {
		t.Fatalf("last offset: %+v", r)
	}
	if r := lo(9, -1); r.ErrorCode != ErrUnknownTopicOrPartition {
		t.Fatalf("unknown partition: %+v", r)
	}

	fetchAt := func(p int32, offset int64, maxWait int32) fetch.ResponsePartition {
		r := a.do(2, &fetch.Request{ReplicaID: -1, MaxWaitTime: maxWait, MinBytes: 1,
			Topics: []fetch.RequestTopic{{Topic: "t", Partitions: []fetch.RequestPartition{{Partition: p, FetchOffset: offset, PartitionMaxBytes: 1 << 20}}}}}).(*fetch.Response)
		return r.Topics[0].Partitions[0]
	}
	// the hand-encoded message set is read back by kafka-go's own record set reader
	values := func(rp fetch.ResponsePartition) (out []string) {
		if rp.RecordSet.Records == nil {
			return nil
		}
		for {
			rec, err := rp.RecordSet.Records.ReadRecord()
			if err != nil {
				if !errors.Is(err, io.EOF) {
					t.Fatalf("read record: %v", err)
				}
				return
			}
			v, _ := protocol.ReadAll(rec.Value)
			if rec.Key != nil {
				t.Fatalf("key not nil")
			}
			if rec.Time.UnixMilli() != RecordTimestamp {
				t.Fatalf("timestamp %v", rec.Time)
			}
			out = append(out, string(v)+"@"+string(rune('0'+rec.Offset)))
		}
	}
	rp := fetchAt(1, 0, 100)
	if got := values(rp); rp.ErrorCode != 0 || rp.HighWatermark != 5 || len(got) != 3 || got[0] != "t/1/0@0" || got[2] != "t/1/2@2" {
		t.Fatalf("fetch 0: %+v %v", rp, got)
	}
	rp = fetchAt(1, 3, 100)
	if got := values(rp); len(got) != 2 || got[0] != "t/1/3@3" || got[1] != "t/1/4@4" {
		t.Fatalf("fetch 3: %+v %v", rp, got)
	}
	if rp = fetchAt(1, 6, 100); rp.ErrorCode != ErrOffsetOutOfRange {
		t.Fatalf("fetch 6: %+v", rp)
	}
	if rp = fetchAt(1, -1, 100); rp.ErrorCode != ErrOffsetOutOfRange {
		t.Fatalf("fetch -1: %+v", rp)
	}
	if rp = fetchAt(7, 0, 100); rp.ErrorCode != ErrUnknownTopicOrPartition {
		t.Fatalf("fetch unknown partition: %+v", rp)
	}
	// long poll: empty answer, then woken by an append
	if rp = fetchAt(1, 5, 20); rp.ErrorCode != 0 || rp.HighWatermark != 5 || values(rp) != nil {
		t.Fatalf("fetch at the end: %+v", rp)
	}
	go func() { time.Sleep(10 * time.Millisecond); b.Append("t", 1, 1) }()
	for i := 0; ; i++ {
		rp = fetchAt(1, 5, 100)
		if got := values(rp); len(got) == 1 && got[0] == "t/1/5@5" {
			break
		}
		if i > 100 {
			t.Fatalf("the appended record never came")
		}
	}

	// faults on the plain APIs
	b.SetFault(func(api, client, member string) Fault { return Fault{Code: 42} })
	if r := a.do(0, &findcoordinator.Request{Key: "g"}).(*findcoordinator.Response); r.ErrorCode != 42 {
		t.Fatalf("fault: %+v", r)
	}
	if r := a.do(1, &metadata.Request{TopicNames: []string{"t"}}).(*metadata.Response); r.Topics[0].ErrorCode != 42 {
		t.Fatalf("fault: %+v", r)
	}
	if r := lo(1, -1); r.ErrorCode != 42 {
		t.Fatalf("fault: %+v", r)
	}
	if r := fetchAt(1, 0, 10); r.ErrorCode != 42 {
		t.Fatalf("fault: %+v", r)
	}
	if r := a.do(1, &offsetfetch.Request{GroupID: "g", Topics: []offsetfetch.RequestTopic{{Name: "t", PartitionIndexes: []int32{0}}}}).(*offsetfetch.Response); r.Topics[0].Partitions[0].ErrorCode != 42 {
		t.Fatalf("fault: %+v", r)
	}
	if r := a.join("", 1000, 300); r.ErrorCode != 42 || len(b.Members()) != 0 {
		t.Fatalf("fault: %+v", r)
	}
	// a delay, then a drop
	b.SetFault(func(api, client, member string) Fault { return Fault{Delay: 30 * time.Millisecond, Drop: 1} })
	t0 := time.Now()
	if _, err := a.try(0, &heartbeat.Request{GroupID: "g", GenerationID: 1, MemberID: "x"}); err == nil || time.Since(t0) < 30*time.Millisecond {
		t.Fatalf("drop: %v after %v", err, time.Since(t0))
	}
	if e := lastEvent(b, "hb"); e.Drop != 1 || e.Member != "x" || e.Client != "A" {
		t.Fatalf("hb event %+v", e)
	}
	b.SetFault(nil)
}

func TestMalformedInput(t *testing.T) {
	g0 := runtime.NumGoroutine()
	b := New(Config{Topics: map[string]int{"t": 1}})
	defer b.Close()
	inputs := [][]byte{
		{0xff, 0xff, 0xff, 0xff},
		{0, 0, 0, 2, 0, 0},
		{0x7f, 0xff, 0xff, 0xff, 1, 2, 3},
		{0, 0, 0, 10, 0, 99, 0, 0, 0, 0, 0, 1, 0, 0},                             // unknown api key
		{0, 0, 0, 10, 0, 11, 0, 9, 0, 0, 0, 1, 0, 0},                             // join group v9
		{0, 0, 0, 12, 0, 11, 0, 1, 0, 0, 0, 1, 0, 1, 'x', 0x7f},                  // truncated join group
		{0, 0, 0, 16, 0, 14, 0, 0, 0, 0, 0, 1, 0, 1, 'x', 0, 1, 'g', 0x7f, 0xff}, // truncated sync group
		{0, 0, 0, 11, 0, 1, 0, 2, 0, 0, 0, 1, 0xff, 0xff, 0x7f},                  // fetch, garbage
		{0, 0, 0, 8, 0, 3, 0, 1, 0, 0, 0, 1},                                     // metadata without client id
	}
	for i, in := range inputs {
		c, err := b.Dial(context.Background(), "tcp", "whatever:1")
		if err != nil {
			t.Fatal(err)
		}
		c.SetDeadline(time.Now().Add(5 * time.Second))
		go c.Write(in)
		buf := make([]byte, 1024)
		n, err := c.Read(buf)
		t.Logf("input %d: read %d bytes, err %v", i, n, err)
		c.Close()
	}
	// still alive
	a := dialRaw(t, b, "A")
	if r := a.join("", 1000, 300); r.ErrorCode != 0 {
		t.Fatalf("join: %+v", r)
	}
	b.Close()
	checkLeaks(t, g0)
}

func TestSessionTimeoutAndKill(t *testing.T) {
	b := New(Config{Topics: map[string]int{"t": 2}, SessionTimeout: true})
	defer b.Close()
	b.Append("t", 0, 1)
	b.Append("t", 1, 1)
	ra := newReader(b, "A", "t", 0)
	defer ra.Close()
	rb := newReader(b, "B", "t", 0)
	defer rb.Close()
	waitFor(t, b, "two members", func() bool { return b.State() == StateStable && len(b.Members()) == 2 })
	memberB := b.MemberOf("B")
	b.Kill("B")
	// B's heartbeats stop: evicted after its session timeout (2s), A takes everything
	waitFor(t, b, "B evicted", func() bool {
		return b.State() == StateStable && len(b.Members()) == 1 && len(b.Assignment(b.MemberOf("A"))) == 2
	})
	if !hasEvent(b, 0, func(e Event) bool { return e.Kind == "evict" && e.Member == memberB && e.Note == "session-timeout" }) {
		dump(t, b)
		t.Fatalf("no session-timeout eviction")
	}
	// A killed client's dial through DialFor fails at once
	if _, err := b.DialFor("B")(context.Background(), "tcp", b.Addr()); err == nil {
		t.Fatalf("DialFor of a killed client succeeded")
	}
	// no request of B is applied while killed
	mark := len(b.History())
	time.Sleep(100 * time.Millisecond)
	if hasEvent(b, mark, func(e Event) bool { return e.Client == "B" }) {
		dump(t, b)
		t.Fatalf("a request of the killed client was applied")
	}
	b.Revive("B")
	waitFor(t, b, "B back", func() bool { return b.State() == StateStable && len(b.Members()) == 2 })
	seen := map[string]bool{}
	deadline := time.Now().Add(long)
	for len(seen) < 2 {
		if time.Now().After(deadline) {
			dump(t, b)
			t.Fatalf("records not delivered: %v", seen)
		}
		ctx, cancel := context.WithTimeout(context.Background(), 100*time.Millisecond)
		if m, err := ra.FetchMessage(ctx); err == nil {
			seen[string(m.Value)] = true
		}
		cancel()
		ctx, cancel = context.WithTimeout(context.Background(), 100*time.Millisecond)
		if m, err := rb.FetchMessage(ctx); err == nil {
			seen[string(m.Value)] = true
		}
		cancel()
	}
}
