package groupfake

import (
	"fmt"
	"sort"
	"time"

	"github.com/segmentio/kafka-go/protocol"
	"github.com/segmentio/kafka-go/protocol/heartbeat"
	"github.com/segmentio/kafka-go/protocol/joingroup"
	"github.com/segmentio/kafka-go/protocol/leavegroup"
	"github.com/segmentio/kafka-go/protocol/offsetcommit"
	"github.com/segmentio/kafka-go/protocol/offsetfetch"
	"github.com/segmentio/kafka-go/protocol/syncgroup"
)

// The coordinator of the ONE group.  Everything here runs with b.mu held.

type member struct {
	id               string
	client           string
	seq              int
	sessionTimeout   time.Duration
	rebalanceTimeout time.Duration
	protocols        []joingroup.RequestProtocol
	joinWait         *pending // held JoinGroup response: the member has (re)joined the rebalance in progress
	syncWait         *pending // held SyncGroup response
	synced           bool     // a SyncGroup of the current generation was received
	assignment       []byte
	lastSeen         time.Time
}

type group struct {
	state      string
	generation int32
	leader     string
	protocol   string
	members    map[string]*member
	timer      *time.Timer
	epoch      int // identifies the armed timer
}

func (b *Broker) memberIDs() []string {
	ids := make([]string, 0, len(b.g.members))
	for id := range b.g.members {
		ids = append(ids, id)
	}
	sort.Strings(ids)
	return ids
}

func (b *Broker) stopTimer() {
	b.g.epoch++
	if b.g.timer != nil {
		b.g.timer.Stop()
		b.g.timer = nil
	}
}

func (b *Broker) armTimer(d time.Duration) {
	b.stopTimer()
	epoch := b.g.epoch
	b.g.timer = time.AfterFunc(d, func() { b.onTimer(epoch) })
}

// rebalanceTimeout is the maximum of the members' rebalance timeouts.
func (b *Broker) rebalanceTimeout() time.Duration {
	var d time.Duration
	for _, m := range b.g.members {
		if m.rebalanceTimeout > d {
			d = m.rebalanceTimeout
		}
	}
	if d <= 0 {
		d = time.Second
	}
	return d
}

func (b *Broker) onTimer(epoch int) {
	b.mu.Lock()
	defer b.mu.Unlock()
	if b.closed || b.g.epoch != epoch {
		return
	}
	b.g.timer = nil
	switch b.g.state {
	case StatePreparingRebalance:
		// the rebalance timeout expired: go on without the members that did not rejoin
		b.completeJoin()
	case StateCompletingRebalance:
		// the members that did not send SyncGroup in time are removed (the leader among them:
		// the followers held since then are answered RebalanceInProgress)
		n := 0
		for _, id := range b.memberIDs() {
			if m := b.g.members[id]; !m.synced {
				b.dropMember(m, "sync-timeout")
				n++
			}
		}
		if n != 0 {
			b.afterRemoval("sync-timeout")
		}
	}
}

// prepareRebalance moves the group to PreparingRebalance.
func (b *Broker) prepareRebalance(reason string) {
	g := &b.g
	if g.state == StatePreparingRebalance {
		return
	}
	for _, id := range b.memberIDs() {
		m := g.members[id]
		if m.syncWait != nil {
			b.answerSync(m, ErrRebalanceInProgress)
		}
	}
	g.state = StatePreparingRebalance
	b.ev(Event{Kind: "rebalance", Gen: g.generation, Note: reason})
	b.armTimer(b.rebalanceTimeout())
}

// maybeCompleteJoin completes the rebalance when every known member has rejoined.
func (b *Broker) maybeCompleteJoin() {
	if b.g.state != StatePreparingRebalance || len(b.g.members) == 0 {
		return
	}
	for _, m := range b.g.members {
		if m.joinWait == nil {
			return
		}
	}
	b.completeJoin()
}

func (b *Broker) completeJoin() {
	g := &b.g
	for _, id := range b.memberIDs() {
		if m := g.members[id]; m.joinWait == nil {
			b.dropMember(m, "rebalance-timeout")
		}
	}
	if len(g.members) == 0 {
		b.becomeEmpty()
		return
	}
	ids := b.memberIDs()
	g.generation++
	g.state = StateCompletingRebalance
	if g.members[g.leader] == nil {
		g.leader = ids[0]
	}
	g.protocol = b.selectProtocol()
	now := time.Now()
	for _, id := range ids {
		m := g.members[id]
		m.assignment, m.synced, m.lastSeen = nil, false, now
		res := &joingroup.Response{
			GenerationID: g.generation,
			ProtocolName: g.protocol,
			LeaderID:     g.leader,
			MemberID:     m.id,
			Members:      []joingroup.ResponseMember{},
		}
		note := ""
		if m.id == g.leader {
			note = "leader"
			for _, oid := range ids {
				res.Members = append(res.Members, joingroup.ResponseMember{MemberID: oid, Metadata: g.members[oid].metadataFor(g.protocol)})
			}
		}
		p := m.joinWait
		m.joinWait = nil
		b.ev(Event{Kind: "join", Client: m.client, Member: m.id, Gen: g.generation, Drop: p.dropOf(), Note: note})
		p.ch <- res
	}
	// the members now have the rebalance timeout to send SyncGroup
	b.armTimer(b.rebalanceTimeout())
}

func (m *member) metadataFor(proto string) []byte {
	for _, p := range m.protocols {
		if p.Name == proto {
			return p.Metadata
		}
	}
	return []byte{}
}

func (m *member) supports(proto string) bool {
	for _, p := range m.protocols {
		if p.Name == proto {
			return true
		}
	}
	return false
}

// selectProtocol: the first protocol of the leader's list supported by every member.
func (b *Broker) selectProtocol() string {
	l := b.g.members[b.g.leader]
	if l == nil {
		return ""
	}
	for _, p := range l.protocols {
		all := true
		for _, m := range b.g.members {
			if !m.supports(p.Name) {
				all = false
				break
			}
		}
		if all {
			return p.Name
		}
	}
	return ""
}

// compatible: protos share a protocol with all the members other than except.
func (b *Broker) compatible(protos []joingroup.RequestProtocol, except string) bool {
	for _, p := range protos {
		all := true
		for id, m := range b.g.members {
			if id != except && !m.supports(p.Name) {
				all = false
				break
			}
		}
		if all {
			return true
		}
	}
	return false
}

func (b *Broker) becomeEmpty() {
	b.stopTimer()
	b.g.state = StateEmpty
	b.g.leader = ""
	b.g.protocol = ""
}

// dropMember removes a member and records the "evict" event; the caller then calls afterRemoval.
func (b *Broker) dropMember(m *member, note string) {
	b.removeMember(m)
	b.ev(Event{Kind: "evict", Member: m.id, Gen: b.g.generation, Note: note})
}

// removeMember deletes the member and answers what it had pending with UnknownMemberId.
func (b *Broker) removeMember(m *member) {
	delete(b.g.members, m.id)
	if p := m.joinWait; p != nil {
		m.joinWait = nil
		b.ev(Event{Kind: "join", Client: m.client, Member: m.id, Gen: b.g.generation, Code: ErrUnknownMemberID, Drop: p.dropOf()})
		p.ch <- &joingroup.Response{ErrorCode: ErrUnknownMemberID, GenerationID: -1, MemberID: m.id, Members: []joingroup.ResponseMember{}}
	}
	if m.syncWait != nil {
		b.answerSync(m, ErrUnknownMemberID)
	}
}

// afterRemoval: the group after one or more members were removed.
func (b *Broker) afterRemoval(reason string) {
	switch {
	case len(b.g.members) == 0:
		b.becomeEmpty()
	case b.g.state == StatePreparingRebalance:
		b.maybeCompleteJoin()
	default:
		b.prepareRebalance(reason)
	}
}

// answerSync answers the held SyncGroup of m (code 0: with its assignment).
func (b *Broker) answerSync(m *member, code int16) {
	p := m.syncWait
	m.syncWait = nil
	res := &syncgroup.Response{ErrorCode: code, Assignments: []byte{}}
	e := Event{Kind: "sync", Client: m.client, Member: m.id, Gen: p.gen, Code: int(code), Drop: p.dropOf()}
	if code == 0 {
		res.Assignments = m.assignment
		e.TPs, e.Note = assignmentTPs(m.assignment)
		m.lastSeen = time.Now()
	}
	b.ev(e)
	p.ch <- res
}

func assignmentTPs(a []byte) ([]TPO, string) {
	tps, err := decodeAssignment(a)
	if err != nil {
		return tps, "undecodable assignment: " + err.Error()
	}
	return tps, ""
}

func ms(v int32) time.Duration { return time.Duration(v) * time.Millisecond }

// ---------------------------------------------------------------- JoinGroup

func joinError(code int16, memberID string) *joingroup.Response {
	return &joingroup.Response{ErrorCode: code, GenerationID: -1, MemberID: memberID, Members: []joingroup.ResponseMember{}}
}

func (b *Broker) doJoin(c *conn, ver int16, req *joingroup.Request, f Fault) reply {
	b.mu.Lock()
	defer b.mu.Unlock()
	if b.gone(c) {
		return reply{drop: true}
	}
	g := &b.g
	fail := func(code int16) reply {
		b.ev(Event{Kind: "join", Client: c.client, Member: req.MemberID, Gen: g.generation, Code: int(code), Drop: f.Drop})
		return reply{msg: joinError(code, req.MemberID)}
	}
	if f.Drop == 1 {
		b.ev(Event{Kind: "join", Client: c.client, Member: req.MemberID, Gen: g.generation, Drop: 1})
		return reply{drop: true}
	}
	if f.Code != 0 {
		return fail(f.Code)
	}
	if len(req.Protocols) == 0 {
		return fail(ErrInconsistentGroupProtocol)
	}

	var m *member
	if req.MemberID != "" {
		if m = g.members[req.MemberID]; m == nil {
			return fail(ErrUnknownMemberID)
		}
	}
	except := ""
	if m != nil {
		except = m.id
	}
	if !b.compatible(req.Protocols, except) {
		return fail(ErrInconsistentGroupProtocol)
	}
	if m == nil {
		b.memberSeq++
		m = &member{id: fmt.Sprintf("%s-%d", c.client, b.memberSeq), client: c.client, seq: b.memberSeq}
		g.members[m.id] = m
	}
	m.client = c.client
	m.sessionTimeout = ms(req.SessionTimeoutMS)
	m.rebalanceTimeout = ms(req.RebalanceTimeoutMS)
	if ver == 0 || m.rebalanceTimeout <= 0 {
		m.rebalanceTimeout = m.sessionTimeout
	}
	m.protocols = req.Protocols
	m.lastSeen = time.Now()

	if old := m.joinWait; old != nil {
		// a second JoinGroup of the same member (retry on another connection): the first one is given up
		m.joinWait = nil
		b.ev(Event{Kind: "join", Client: m.client, Member: m.id, Gen: g.generation, Code: ErrRebalanceInProgress, Drop: old.dropOf(), Note: "superseded"})
		old.ch <- joinError(ErrRebalanceInProgress, m.id)
	}

	b.prepareRebalance("join " + m.id) // no-op when already preparing
	p := &pending{ch: make(chan protocol.Message, 1), c: c, drop: f.Drop}
	m.joinWait = p
	b.maybeCompleteJoin()
	return reply{pend: p}
}

// ---------------------------------------------------------------- SyncGroup

func (b *Broker) doSync(c *conn, req *syncgroup.Request, f Fault) reply {
	b.mu.Lock()
	defer b.mu.Unlock()
	if b.gone(c) {
		return reply{drop: true}
	}
	g := &b.g
	fail := func(code int16) reply {
		b.ev(Event{Kind: "sync", Client: c.client, Member: req.MemberID, Gen: req.GenerationID, Code: int(code), Drop: f.Drop})
		return reply{msg: &syncgroup.Response{ErrorCode: code, Assignments: []byte{}}}
	}
	if f.Drop == 1 {
		b.ev(Event{Kind: "sync", Client: c.client, Member: req.MemberID, Gen: req.GenerationID, Drop: 1})
		return reply{drop: true}
	}
	if f.Code != 0 {
		return fail(f.Code)
	}
	m := g.members[req.MemberID]
	switch {
	case m == nil:
		return fail(ErrUnknownMemberID)
	case req.GenerationID != g.generation:
		return fail(ErrIllegalGeneration)
	case g.state == StatePreparingRebalance:
		return fail(ErrRebalanceInProgress)
	}
	m.lastSeen = time.Now()
	m.synced = true

	if g.state == StateStable {
		tps, note := assignmentTPs(m.assignment)
		b.ev(Event{Kind: "sync", Client: c.client, Member: m.id, Gen: req.GenerationID, TPs: tps, Drop: f.Drop, Note: note})
		return reply{msg: &syncgroup.Response{Assignments: m.assignment}}
	}

	// CompletingRebalance
	if old := m.syncWait; old != nil {
		b.answerSync(m, ErrRebalanceInProgress) // superseded by this one
	}
	p := &pending{ch: make(chan protocol.Message, 1), c: c, drop: f.Drop, gen: req.GenerationID}
	m.syncWait = p
	if m.id == g.leader {
		for _, o := range g.members {
			o.assignment = []byte{}
		}
		for _, a := range req.Assignments {
			if o := g.members[a.MemberID]; o != nil {
				o.assignment = append([]byte{}, a.Assignment...)
			}
		}
		g.state = StateStable
		b.stopTimer()
		for _, id := range b.memberIDs() {
			if o := g.members[id]; o.syncWait != nil {
				b.answerSync(o, 0)
			}
		}
	}
	return reply{pend: p}
}

// ---------------------------------------------------------------- Heartbeat / LeaveGroup

func (b *Broker) doHeartbeat(c *conn, req *heartbeat.Request, f Fault) reply {
	b.mu.Lock()
	defer b.mu.Unlock()
	if b.gone(c) {
		return reply{drop: true}
	}
	g := &b.g
	if f.Drop == 1 {
		b.ev(Event{Kind: "hb", Client: c.client, Member: req.MemberID, Gen: req.GenerationID, Drop: 1})
		return reply{drop: true}
	}
	code := int16(0)
	m := g.members[req.MemberID]
	switch {
	case f.Code != 0:
		code = f.Code
	case m == nil:
		code = ErrUnknownMemberID
	case req.GenerationID != g.generation:
		code = ErrIllegalGeneration
	case g.state == StatePreparingRebalance:
		code = ErrRebalanceInProgress
	}
	if m != nil && f.Code == 0 {
		m.lastSeen = time.Now()
	}
	if code != 0 || f.Drop != 0 {
		b.ev(Event{Kind: "hb", Client: c.client, Member: req.MemberID, Gen: req.GenerationID, Code: int(code), Drop: f.Drop})
	}
	return reply{msg: &heartbeat.Response{ErrorCode: code}}
}

func (b *Broker) doLeave(c *conn, req *leavegroup.Request, f Fault) reply {
	b.mu.Lock()
	defer b.mu.Unlock()
	if b.gone(c) {
		return reply{drop: true}
	}
	g := &b.g
	if f.Drop == 1 {
		b.ev(Event{Kind: "leave", Client: c.client, Member: req.MemberID, Gen: g.generation, Drop: 1})
		return reply{drop: true}
	}
	code := int16(0)
	m := g.members[req.MemberID]
	switch {
	case f.Code != 0:
		code = f.Code
	case m == nil:
		code = ErrUnknownMemberID
	}
	b.ev(Event{Kind: "leave", Client: c.client, Member: req.MemberID, Gen: g.generation, Code: int(code), Drop: f.Drop})
	if code == 0 {
		b.removeMember(m)
		b.afterRemoval("leave " + m.id)
	}
	return reply{msg: &leavegroup.Response{ErrorCode: code}}
}

// ---------------------------------------------------------------- offsets

func (b *Broker) doOffsetFetch(c *conn, req *offsetfetch.Request, f Fault) reply {
	b.mu.Lock()
	defer b.mu.Unlock()
	if b.gone(c) {
		return reply{drop: true}
	}
	res := &offsetfetch.Response{Topics: []offsetfetch.ResponseTopic{}}
	e := Event{Kind: "ofetch", Client: c.client, Gen: b.g.generation, Code: int(f.Code), Drop: f.Drop}
	for _, t := range req.Topics {
		rt := offsetfetch.ResponseTopic{Name: t.Name, Partitions: []offsetfetch.ResponsePartition{}}
		for _, p := range t.PartitionIndexes {
			rp := offsetfetch.ResponsePartition{PartitionIndex: p, CommittedOffset: -1, ErrorCode: f.Code}
			if f.Code == 0 && f.Drop != 1 {
				if o, ok := b.committed[tp{t.Name, int(p)}]; ok {
					rp.CommittedOffset = o
				}
			}
			rt.Partitions = append(rt.Partitions, rp)
			e.TPs = append(e.TPs, TPO{t.Name, int(p), rp.CommittedOffset})
		}
		res.Topics = append(res.Topics, rt)
	}
	b.ev(e)
	if f.Drop == 1 {
		return reply{drop: true}
	}
	return reply{msg: res}
}

func (b *Broker) doOffsetCommit(c *conn, req *offsetcommit.Request, f Fault) reply {
	b.mu.Lock()
	defer b.mu.Unlock()
	if b.gone(c) {
		return reply{drop: true}
	}
	g := &b.g
	e := Event{Kind: "ocommit", Client: c.client, Member: req.MemberID, Gen: req.GenerationID, Drop: f.Drop}
	for _, t := range req.Topics {
		for _, p := range t.Partitions {
			e.TPs = append(e.TPs, TPO{t.Name, int(p.PartitionIndex), p.CommittedOffset})
		}
	}
	if f.Drop == 1 {
		b.ev(e)
		return reply{drop: true}
	}

	code := int16(0)
	m := g.members[req.MemberID]
	switch {
	case f.Code != 0:
		code = f.Code
	case req.MemberID == "" && req.GenerationID < 0:
		// a "simple consumer" commit, outside of the group membership
	case m == nil:
		code = ErrUnknownMemberID
	case req.GenerationID != g.generation:
		code = ErrIllegalGeneration
	case g.state == StateCompletingRebalance:
		code = ErrRebalanceInProgress
	}
	if m != nil && f.Code == 0 {
		m.lastSeen = time.Now()
	}

	res := &offsetcommit.Response{Topics: []offsetcommit.ResponseTopic{}}
	for _, t := range req.Topics {
		rt := offsetcommit.ResponseTopic{Name: t.Name, Partitions: []offsetcommit.ResponsePartition{}}
		for _, p := range t.Partitions {
			pc := code
			if code == 0 {
				if b.hwmLocked(t.Name, int(p.PartitionIndex)) < 0 {
					pc = ErrUnknownTopicOrPartition
					e.Note += fmt.Sprintf("unknown partition %s/%d;", t.Name, p.PartitionIndex)
				} else {
					b.committed[tp{t.Name, int(p.PartitionIndex)}] = p.CommittedOffset // overwrite, no monotonicity check
				}
			}
			rt.Partitions = append(rt.Partitions, offsetcommit.ResponsePartition{PartitionIndex: p.PartitionIndex, ErrorCode: pc})
		}
		res.Topics = append(res.Topics, rt)
	}
	e.Code = int(code)
	b.ev(e) // same critical section as the stores above
	return reply{msg: res}
}

// ---------------------------------------------------------------- session timeouts

func (b *Broker) sessionLoop() {
	defer b.wg.Done()
	t := time.NewTicker(sessionTick)
	defer t.Stop()
	for {
		select {
		case <-b.done:
			return
		case <-t.C:
		}
		b.mu.Lock()
		if !b.closed && len(b.g.members) != 0 {
			now := time.Now()
			n := 0
			for _, id := range b.memberIDs() {
				m := b.g.members[id]
				// a member whose JoinGroup or SyncGroup is held is alive by definition
				if m.joinWait != nil || m.syncWait != nil || m.sessionTimeout <= 0 {
					continue
				}
				if now.Sub(m.lastSeen) > m.sessionTimeout {
					b.dropMember(m, "session-timeout")
					n++
				}
			}
			if n != 0 {
				b.afterRemoval("session-timeout")
			}
		}
		b.mu.Unlock()
	}
}
