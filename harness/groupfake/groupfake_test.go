package groupfake

import (
	"context"
	"fmt"
	"runtime"
	"sort"
	"strings"
	"testing"
	"time"

	kafka "github.com/segmentio/kafka-go"
)

const long = 20 * time.Second

func newReader(b *Broker, client, topic string, commitInterval time.Duration) *kafka.Reader {
	return kafka.NewReader(kafka.ReaderConfig{
		Brokers:           []string{b.Addr()},
		GroupID:           "g",
		Topic:             topic,
		Dialer:            &kafka.Dialer{ClientID: client, DialFunc: b.Dial, Timeout: 5 * time.Second},
		HeartbeatInterval: 20 * time.Millisecond,
		SessionTimeout:    2 * time.Second,
		RebalanceTimeout:  1 * time.Second,
		JoinGroupBackoff:  10 * time.Millisecond,
		MaxWait:           40 * time.Millisecond,
		ReadBackoffMin:    5 * time.Millisecond,
		ReadBackoffMax:    20 * time.Millisecond,
		CommitInterval:    commitInterval,
		ReadLagInterval:   -1,
		MaxAttempts:       3,
	})
}

func dump(t *testing.T, b *Broker) {
	t.Helper()
	for _, e := range b.History() {
		t.Logf("%s", FormatEvent(e))
	}
}

func waitFor(t *testing.T, b *Broker, what string, cond func() bool) {
	t.Helper()
	deadline := time.Now().Add(long)
	for !cond() {
		if time.Now().After(deadline) {
			dump(t, b)
			t.Fatalf("timeout waiting for %s (state %s gen %d members %v)", what, b.State(), b.Generation(), b.Members())
		}
		time.Sleep(5 * time.Millisecond)
	}
}

func hasEvent(b *Broker, from int, pred func(Event) bool) bool {
	h := b.History()
	for _, e := range h[min(from, len(h)):] {
		if pred(e) {
			return true
		}
	}
	return false
}

func fetchMsg(t *testing.T, b *Broker, r *kafka.Reader) kafka.Message {
	t.Helper()
	ctx, cancel := context.WithTimeout(context.Background(), long)
	defer cancel()
	m, err := r.FetchMessage(ctx)
	if err != nil {
		dump(t, b)
		t.Fatalf("FetchMessage: %v", err)
	}
	if want := RecordValue(m.Topic, m.Partition, m.Offset); string(m.Value) != want || len(m.Key) != 0 {
		dump(t, b)
		t.Fatalf("record %s/%d/%d has key %q value %q", m.Topic, m.Partition, m.Offset, m.Key, m.Value)
	}
	return m
}

func commit(r *kafka.Reader, m kafka.Message) error {
	ctx, cancel := context.WithTimeout(context.Background(), long)
	defer cancel()
	return r.CommitMessages(ctx, m)
}

func checkLeaks(t *testing.T, before int) {
	t.Helper()
	deadline := time.Now().Add(5 * time.Second)
	for runtime.NumGoroutine() > before+2 && time.Now().Before(deadline) {
		time.Sleep(20 * time.Millisecond)
	}
	if n := runtime.NumGoroutine(); n > before+2 {
		buf := make([]byte, 1<<16)
		t.Errorf("goroutines: %d before, %d after\n%s", before, n, buf[:runtime.Stack(buf, true)])
	}
}

func TestOneReader(t *testing.T) {
	start := time.Now()
	g0 := runtime.NumGoroutine()
	b := New(Config{Topics: map[string]int{"t": 2}, SessionTimeout: true})
	defer b.Close()
	for p := 0; p < 2; p++ {
		if hw := b.Append("t", p, 5); hw != 5 {
			t.Fatalf("append: %d", hw)
		}
	}
	r := newReader(b, "A", "t", 0)
	closed := false
	defer func() {
		if !closed {
			r.Close()
		}
	}()

	next := map[int]int64{}
	for i := 0; i < 10; i++ {
		m := fetchMsg(t, b, r)
		if m.Offset != next[m.Partition] {
			dump(t, b)
			t.Fatalf("partition %d: got offset %d want %d", m.Partition, m.Offset, next[m.Partition])
		}
		next[m.Partition]++
		if err := commit(r, m); err != nil {
			dump(t, b)
			t.Fatalf("commit: %v", err)
		}
		if o, ok := b.Committed("t", m.Partition); !ok || o != m.Offset+1 {
			dump(t, b)
			t.Fatalf("committed %d/%v after committing offset %d", o, ok, m.Offset)
		}
	}
	for p := 0; p < 2; p++ {
		if o, ok := b.Committed("t", p); !ok || o != 5 {
			dump(t, b)
			t.Fatalf("partition %d: committed %d %v", p, o, ok)
		}
	}
	if b.State() != StateStable || len(b.Members()) != 1 || b.MemberOf("A") != b.Members()[0] {
		dump(t, b)
		t.Fatalf("state %s members %v memberOf %q", b.State(), b.Members(), b.MemberOf("A"))
	}
	if got := b.Assignment(b.MemberOf("A")); len(got) != 2 {
		t.Fatalf("assignment %v", got)
	}

	// forced rebalance: the reader rejoins with the same member id
	gen, member := b.Generation(), b.MemberOf("A")
	b.ForceRebalance("test")
	waitFor(t, b, "rejoin", func() bool { return b.Generation() > gen && b.State() == StateStable })
	if b.MemberOf("A") != member {
		dump(t, b)
		t.Fatalf("member id changed: %q -> %q", member, b.MemberOf("A"))
	}
	if hw := b.Append("t", 0, 2); hw != 7 {
		t.Fatalf("append: %d", hw)
	}
	for i := 0; i < 2; i++ {
		m := fetchMsg(t, b, r)
		if m.Partition != 0 || m.Offset != int64(5+i) {
			dump(t, b)
			t.Fatalf("after rebalance: got %d/%d", m.Partition, m.Offset)
		}
		if err := commit(r, m); err != nil {
			dump(t, b)
			t.Fatalf("commit: %v", err)
		}
	}
	if o, _ := b.Committed("t", 0); o != 7 {
		dump(t, b)
		t.Fatalf("committed %d", o)
	}

	closed = true
	if err := r.Close(); err != nil {
		t.Fatalf("close: %v", err)
	}
	if !hasEvent(b, 0, func(e Event) bool { return e.Kind == "leave" && e.Member == member && e.Code == 0 }) {
		dump(t, b)
		t.Fatalf("no leave event")
	}
	if b.State() != StateEmpty || len(b.Members()) != 0 {
		dump(t, b)
		t.Fatalf("state %s members %v", b.State(), b.Members())
	}
	// the history is sequenced, the sync events carry the assignment
	for i, e := range b.History() {
		if e.Seq != i {
			t.Fatalf("seq %d at %d", e.Seq, i)
		}
		if e.Kind == "sync" && e.Code == 0 && len(e.TPs) != 2 {
			dump(t, b)
			t.Fatalf("sync event %v", e)
		}
	}
	b.Close()
	b.Close()
	if _, err := b.Dial(context.Background(), "tcp", b.Addr()); err == nil {
		t.Fatalf("dial after close succeeded")
	}
	checkLeaks(t, g0)
	if testing.Verbose() {
		dump(t, b)
	}
	t.Logf("TestOneReader: %v, %d events", time.Since(start), len(b.History()))
}

func TestTwoReaders(t *testing.T) {
	start := time.Now()
	g0 := runtime.NumGoroutine()
	b := New(Config{Topics: map[string]int{"t": 4}})
	defer b.Close()
	for p := 0; p < 4; p++ {
		b.Append("t", p, 3)
	}
	ra := newReader(b, "A", "t", 0)
	defer ra.Close()
	waitFor(t, b, "A alone", func() bool { return b.State() == StateStable && len(b.Members()) == 1 })
	rb := newReader(b, "B", "t", 0)
	defer rb.Close()
	waitFor(t, b, "A and B", func() bool {
		return b.State() == StateStable && len(b.Members()) == 2 &&
			len(b.Assignment(b.MemberOf("A"))) == 2 && len(b.Assignment(b.MemberOf("B"))) == 2
	})
	memberA, memberB := b.MemberOf("A"), b.MemberOf("B")
	if !strings.HasPrefix(memberA, "A-") || !strings.HasPrefix(memberB, "B-") {
		t.Fatalf("member ids %q %q", memberA, memberB)
	}
	ownA := map[int]bool{}
	for _, a := range b.Assignment(memberA) {
		ownA[a.Partition] = true
	}

	// every record is delivered once (A may have started all four partitions while alone: the records it
	// fetched for partitions that moved to B are still queued, so deliveries are de-duplicated per reader only
	// for the partitions owned in the final assignment)
	type rec struct {
		reader string
		p      int
		o      int64
	}
	seen := map[rec]int{}
	type got struct {
		who string
		m   kafka.Message
		err error
	}
	ch := make(chan got, 64)
	stop := make(chan struct{})
	pump := func(who string, r *kafka.Reader) {
		for {
			ctx, cancel := context.WithTimeout(context.Background(), 200*time.Millisecond)
			m, err := r.FetchMessage(ctx)
			cancel()
			select {
			case <-stop:
				return
			default:
			}
			if err != nil {
				if ctx.Err() != nil {
					continue
				}
				ch <- got{who, m, err}
				return
			}
			if err := commit(r, m); err != nil {
				// the generation may have ended in between (rebalance): not an error of the fake
				b.Record(Event{Kind: "note", Client: who, Note: "commit error: " + err.Error()})
			}
			ch <- got{who, m, nil}
		}
	}
	go pump("A", ra)
	go pump("B", rb)
	deadline := time.After(long)
	complete := func() bool {
		for p := 0; p < 4; p++ {
			who := "B"
			if ownA[p] {
				who = "A"
			}
			for o := int64(0); o < 3; o++ {
				if seen[rec{who, p, o}] == 0 {
					return false
				}
			}
		}
		return true
	}
	for !complete() {
		select {
		case g := <-ch:
			if g.err != nil {
				dump(t, b)
				t.Fatalf("%s: FetchMessage: %v", g.who, g.err)
			}
			if want := RecordValue("t", g.m.Partition, g.m.Offset); string(g.m.Value) != want {
				t.Fatalf("value %q want %q", g.m.Value, want)
			}
			seen[rec{g.who, g.m.Partition, g.m.Offset}]++
		case <-deadline:
			dump(t, b)
			t.Fatalf("timeout: seen %v", seen)
		}
	}
	close(stop)
	time.Sleep(300 * time.Millisecond) // let the pumps finish their current call
	for len(ch) > 0 {
		g := <-ch
		if g.err == nil {
			seen[rec{g.who, g.m.Partition, g.m.Offset}]++
		}
	}
	var keys []string
	for k, n := range seen {
		keys = append(keys, fmt.Sprintf("%s:%d/%d x%d", k.reader, k.p, k.o, n))
		if n != 1 {
			dump(t, b)
			t.Fatalf("record %v delivered %d times to the same reader", k, n)
		}
	}
	sort.Strings(keys)
	t.Logf("deliveries: %v", keys)
	waitFor(t, b, "all committed", func() bool {
		for p := 0; p < 4; p++ {
			if o, _ := b.Committed("t", p); o != 3 {
				return false
			}
		}
		return true
	})

	// a fault: IllegalGeneration to A's offset commits (all the retries of one CommitMessages)
	var pa int
	for p := range ownA {
		pa = p
	}
	mark := len(b.History())
	b.SetFault(func(api, client, member string) Fault {
		if api == "ocommit" && client == "A" {
			return Fault{Code: ErrIllegalGeneration}
		}
		return Fault{}
	})
	b.Append("t", pa, 1)
	m := fetchMsg(t, b, ra)
	if m.Partition != pa || m.Offset != 3 {
		dump(t, b)
		t.Fatalf("got %d/%d want %d/3", m.Partition, m.Offset, pa)
	}
	err := commit(ra, m)
	b.SetFault(nil)
	if err == nil {
		dump(t, b)
		t.Fatalf("CommitMessages succeeded although every OffsetCommit was answered 22")
	}
	t.Logf("CommitMessages under fault: %v", err)
	if !hasEvent(b, mark, func(e Event) bool {
		return e.Kind == "ocommit" && e.Client == "A" && e.Member == memberA && e.Code == ErrIllegalGeneration &&
			len(e.TPs) == 1 && e.TPs[0] == TPO{"t", pa, 4}
	}) {
		dump(t, b)
		t.Fatalf("no ocommit event with code 22")
	}
	if o, _ := b.Committed("t", pa); o != 3 {
		dump(t, b)
		t.Fatalf("a rejected commit was stored: %d", o)
	}

	// evict A's member: rebalance, A comes back under a new member id, the group is stable again with two members
	gen := b.Generation()
	mark = len(b.History())
	b.Evict(memberA, "test-evict")
	waitFor(t, b, "rebalance after evict", func() bool {
		return b.Generation() > gen && b.State() == StateStable && len(b.Members()) == 2 && b.MemberOf("A") != "" && b.MemberOf("A") != memberA
	})
	if !hasEvent(b, mark, func(e Event) bool { return e.Kind == "evict" && e.Member == memberA && e.Note == "test-evict" }) {
		dump(t, b)
		t.Fatalf("no evict event")
	}
	if !hasEvent(b, mark, func(e Event) bool { return e.Kind == "hb" && e.Member == memberA && e.Code == ErrUnknownMemberID }) {
		dump(t, b)
		t.Fatalf("the evicted member never saw UnknownMemberId")
	}
	// records keep flowing: one more record per partition, each delivered (to whoever owns it now)
	for p := 0; p < 4; p++ {
		b.Append("t", p, 1)
	}
	want := map[string]bool{}
	for p := 0; p < 4; p++ {
		want[RecordValue("t", p, b.HighWatermark("t", p)-1)] = true
	}
	stop2 := make(chan struct{})
	ch2 := make(chan kafka.Message, 64)
	pump2 := func(r *kafka.Reader) {
		for {
			ctx, cancel := context.WithTimeout(context.Background(), 200*time.Millisecond)
			m, err := r.FetchMessage(ctx)
			cancel()
			select {
			case <-stop2:
				return
			default:
			}
			if err == nil {
				ch2 <- m
			}
		}
	}
	go pump2(ra)
	go pump2(rb)
	deadline = time.After(long)
	for len(want) != 0 {
		select {
		case m := <-ch2:
			delete(want, string(m.Value))
		case <-deadline:
			dump(t, b)
			t.Fatalf("timeout: still waiting for %v", want)
		}
	}
	close(stop2)
	time.Sleep(300 * time.Millisecond)

	// kill B: its connections die, it cannot come back until revived
	b.Kill("B")
	b.ForceRebalance("after kill")
	waitFor(t, b, "group without B", func() bool {
		return b.State() == StateStable && len(b.Members()) == 1 && b.MemberOf("B") == ""
	})
	b.Revive("B")
	waitFor(t, b, "B back", func() bool { return b.State() == StateStable && len(b.Members()) == 2 && b.MemberOf("B") != "" })

	ra.Close()
	rb.Close()
	if b.State() != StateEmpty {
		dump(t, b)
		t.Fatalf("state %s members %v", b.State(), b.Members())
	}
	b.Close()
	checkLeaks(t, g0)
	if testing.Verbose() {
		dump(t, b)
	}
	t.Logf("TestTwoReaders: %v, %d events", time.Since(start), len(b.History()))
}

func TestIntervalCommits(t *testing.T) {
	start := time.Now()
	b := New(Config{Topics: map[string]int{"t": 1}, Logf: func(f string, a ...interface{}) {
		if testing.Verbose() {
			t.Logf(f, a...)
		}
	}})
	defer b.Close()
	b.Append("t", 0, 4)
	r := newReader(b, "A", "t", 15*time.Millisecond)
	defer r.Close()
	for i := 0; i < 4; i++ {
		m := fetchMsg(t, b, r)
		if m.Offset != int64(i) {
			t.Fatalf("offset %d want %d", m.Offset, i)
		}
		if err := commit(r, m); err != nil {
			t.Fatalf("commit: %v", err)
		}
	}
	waitFor(t, b, "asynchronous commit", func() bool { o, ok := b.Committed("t", 0); return ok && o == 4 })
	if !hasEvent(b, 0, func(e Event) bool { return e.Kind == "ocommit" && e.Code == 0 }) {
		dump(t, b)
		t.Fatalf("no ocommit event")
	}
	r.Close()
	t.Logf("TestIntervalCommits: %v, %d events", time.Since(start), len(b.History()))
}

// Faults that drop the connection: before applying (1) and after applying (2).
func TestDrops(t *testing.T) {
	b := New(Config{Topics: map[string]int{"t": 1}})
	defer b.Close()
	b.Append("t", 0, 2)
	r := newReader(b, "A", "t", 0)
	defer r.Close()
	m0 := fetchMsg(t, b, r)
	// drop 2 on the first attempt: applied but not answered; the retry succeeds
	n := 0
	b.SetFault(func(api, client, member string) Fault {
		if api == "ocommit" {
			n++
			if n == 1 {
				return Fault{Drop: 2}
			}
		}
		return Fault{}
	})
	err := commit(r, m0)
	t.Logf("commit with drop 2: %v", err)
	if o, ok := b.Committed("t", 0); !ok || o != 1 {
		dump(t, b)
		t.Fatalf("committed %d %v", o, ok)
	}
	if !hasEvent(b, 0, func(e Event) bool { return e.Kind == "ocommit" && e.Drop == 2 && e.Code == 0 }) {
		dump(t, b)
		t.Fatalf("no ocommit drop=2 event")
	}
	// drop 1 always: nothing applied, CommitMessages fails
	b.SetFault(func(api, client, member string) Fault {
		if api == "ocommit" {
			return Fault{Drop: 1}
		}
		return Fault{}
	})
	// the generation may have ended because of the dropped connection: wait for the reader to deliver again
	m1 := fetchMsg(t, b, r)
	for m1.Offset != 1 {
		m1 = fetchMsg(t, b, r)
	}
	err = commit(r, m1)
	b.SetFault(nil)
	if err == nil {
		dump(t, b)
		t.Fatalf("commit succeeded although every request was dropped")
	}
	if o, _ := b.Committed("t", 0); o != 1 {
		dump(t, b)
		t.Fatalf("a dropped commit was applied: %d", o)
	}
	if !hasEvent(b, 0, func(e Event) bool { return e.Kind == "ocommit" && e.Drop == 1 }) {
		dump(t, b)
		t.Fatalf("no ocommit drop=1 event")
	}
}

func TestAssignmentCodec(t *testing.T) {
	w := &wbuf{}
	w.i16(1)
	w.i32(2)
	w.str("u")
	w.i32(1)
	w.i32(7)
	w.str("t")
	w.i32(2)
	w.i32(3)
	w.i32(1)
	w.bytes(nil)
	tps, err := decodeAssignment(w.b)
	if err != nil || fmt.Sprint(tps) != "[{t 1 -1} {t 3 -1} {u 7 -1}]" {
		t.Fatalf("%v %v", tps, err)
	}
	if _, err := decodeAssignment(w.b[:9]); err == nil {
		t.Fatalf("truncated assignment accepted")
	}
	if tps, err := decodeAssignment(nil); err != nil || tps != nil {
		t.Fatalf("%v %v", tps, err)
	}
}
