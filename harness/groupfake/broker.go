// Package groupfake is an in-memory, wire-level fake Kafka broker with a
// consumer-group coordinator state machine.  It serves the connections opened by
// kafka.Dialer.DialFunc (no network), decodes requests with kafka-go's protocol
// package and keeps ONE globally sequenced history of what happened, so that real
// kafka.Reader values (GroupID set) can be run against it and checked afterwards.
//
// Notes on what differs from a literal reading of the specification:
//   - Dial cannot know the ClientID: a Kill()ed client's dial succeeds and the
//     connection is closed when its first request arrives (nothing is applied);
//     DialFor(client) refuses at dial time.
//   - Fetch long polls for min(MaxWaitTime/2, 50ms) (the legacy Conn's read deadline
//     is only a few ms after MaxWaitTime).
//   - The Fetch v2 response is hand-encoded (message format v1); everything else
//     goes through protocol.ReadRequest / protocol.WriteResponse.
//   - Members that do not send SyncGroup within the rebalance timeout after the
//     JoinGroup responses are removed ("evict", Note "sync-timeout"), only while
//     the group is CompletingRebalance: this bounds the held SyncGroups of the
//     followers when the leader died.
//   - JoinGroup with protocols incompatible with the other members is answered
//     InconsistentGroupProtocol (23).
package groupfake

import (
	"bytes"
	"context"
	"encoding/binary"
	"errors"
	"fmt"
	"io"
	"net"
	"sort"
	"sync"
	"time"

	"github.com/segmentio/kafka-go/protocol"
	"github.com/segmentio/kafka-go/protocol/apiversions"
	"github.com/segmentio/kafka-go/protocol/fetch"
	"github.com/segmentio/kafka-go/protocol/findcoordinator"
	"github.com/segmentio/kafka-go/protocol/heartbeat"
	"github.com/segmentio/kafka-go/protocol/joingroup"
	"github.com/segmentio/kafka-go/protocol/leavegroup"
	"github.com/segmentio/kafka-go/protocol/listoffsets"
	"github.com/segmentio/kafka-go/protocol/metadata"
	"github.com/segmentio/kafka-go/protocol/offsetcommit"
	"github.com/segmentio/kafka-go/protocol/offsetfetch"
	"github.com/segmentio/kafka-go/protocol/syncgroup"
)

// TPO is a topic, a partition and an offset.
type TPO struct {
	Topic     string
	Partition int
	Offset    int64
}

// Event is one entry of the globally sequenced history (appended under ONE mutex;
// Seq = index).
type Event struct {
	Seq    int
	Kind   string // see the package documentation / kinds below
	Client string // Dialer.ClientID of the connection; "" for broker-internal events
	Member string // group member id ("" when none yet)
	Gen    int32  // generation id carried by the request / assigned by the response
	TPs    []TPO  // sorted by (topic, partition)
	Code   int    // Kafka error code answered (0 = ok)
	Drop   int    // 0 = response sent; 1 = dropped BEFORE applying; 2 = applied, connection dropped instead of the response
	ID     int    // application call id (for "ccall"/"cret"/"deliver"), else 0
	Note   string
}

// Kinds written by the broker:
//
//	"join"      JoinGroup answered (Member = id in the response, Gen = new generation, Code; Note = "leader" when leader)
//	"sync"      SyncGroup answered (Member, Gen, Code; TPs = partitions assigned to this member, Offset = -1)
//	"hb"        Heartbeat answered with a NON-zero code or dropped
//	"leave"     LeaveGroup answered
//	"ofetch"    OffsetFetch answered (TPs = every requested partition with the offset answered, -1 = none)
//	"ocommit"   OffsetCommit answered (Member, Gen from the request; TPs = requested offsets; Code = group-level code)
//	"evict"     broker removed Member (Note: "session-timeout", "rebalance-timeout", "sync-timeout" or the Evict() note)
//	"rebalance" group moved to PreparingRebalance (Note = reason)
//	"append"    records appended (TPs: Offset = new high watermark)
//
// Kinds written by the application through Record(): "deliver", "ccall", "cret", "note".

// Fault is what a FaultFunc asks the broker to do with one request.
type Fault struct {
	Code  int16         // != 0: answer this error code instead of processing (no state change)
	Drop  int           // 1: drop connection before applying; 2: apply, then drop the connection instead of answering
	Delay time.Duration // sleep before processing (outside the lock)
}

// FaultFunc decides the fault of one request.  api is one of "join", "sync",
// "heartbeat", "leave", "ofetch", "ocommit", "findcoordinator", "metadata", "fetch",
// "listoffsets".
type FaultFunc func(api string, client string, member string) Fault

// Config configures a Broker.
type Config struct {
	Topics         map[string]int                           // topic -> number of partitions (ids 0..n-1)
	SessionTimeout bool                                     // evict members whose heartbeats stop for their session timeout (wall clock)
	Logf           func(format string, args ...interface{}) // optional debug log
}

// Kafka error codes used by the fake.
const (
	ErrOffsetOutOfRange          = 1
	ErrUnknownTopicOrPartition   = 3
	ErrIllegalGeneration         = 22
	ErrInconsistentGroupProtocol = 23
	ErrUnknownMemberID           = 25
	ErrRebalanceInProgress       = 27
)

// Group states.
const (
	StateEmpty               = "Empty"
	StatePreparingRebalance  = "PreparingRebalance"
	StateCompletingRebalance = "CompletingRebalance"
	StateStable              = "Stable"
)

const (
	fakeHost = "groupfake"
	fakePort = 9092
	nodeID   = 1

	maxFrame      = 16 << 20
	writeTimeout  = 10 * time.Second
	maxHold       = 2 * time.Minute // safety bound of a held join/sync
	maxFetchWait  = 50 * time.Millisecond
	maxFetchBatch = 3
	sessionTick   = 5 * time.Millisecond

	// RecordTimestamp is the timestamp (ms since the epoch) of every record.
	RecordTimestamp int64 = 1600000000000
)

// ApiVersions is the table advertised by the broker: exactly the versions that the
// legacy kafka.Conn of kafka-go ends up using when the maxima are these.
var ApiVersions = []apiversions.ApiKeyResponse{
	{ApiKey: int16(protocol.Fetch), MinVersion: 2, MaxVersion: 2},
	{ApiKey: int16(protocol.ListOffsets), MinVersion: 1, MaxVersion: 1},
	{ApiKey: int16(protocol.Metadata), MinVersion: 0, MaxVersion: 1},
	{ApiKey: int16(protocol.OffsetCommit), MinVersion: 2, MaxVersion: 2},
	{ApiKey: int16(protocol.OffsetFetch), MinVersion: 1, MaxVersion: 1},
	{ApiKey: int16(protocol.FindCoordinator), MinVersion: 0, MaxVersion: 0},
	{ApiKey: int16(protocol.JoinGroup), MinVersion: 0, MaxVersion: 1},
	{ApiKey: int16(protocol.Heartbeat), MinVersion: 0, MaxVersion: 0},
	{ApiKey: int16(protocol.LeaveGroup), MinVersion: 0, MaxVersion: 0},
	{ApiKey: int16(protocol.SyncGroup), MinVersion: 0, MaxVersion: 0},
	{ApiKey: int16(protocol.ApiVersions), MinVersion: 0, MaxVersion: 0},
}

type tp struct {
	topic     string
	partition int
}

// Broker is the fake broker + group coordinator.
type Broker struct {
	cfg  Config
	done chan struct{}
	wg   sync.WaitGroup

	faultMu sync.Mutex
	fault   FaultFunc

	mu        sync.Mutex // guards everything below: group state, log, history
	closed    bool
	conns     map[*conn]struct{}
	connSeq   int
	killed    map[string]bool
	history   []Event
	hwm       map[string][]int64
	appendCh  chan struct{} // closed (and replaced) by every Append
	committed map[tp]int64
	g         group
	memberSeq int
}

// New creates a broker.
func New(cfg Config) *Broker {
	b := &Broker{
		cfg:       cfg,
		done:      make(chan struct{}),
		conns:     map[*conn]struct{}{},
		killed:    map[string]bool{},
		hwm:       map[string][]int64{},
		appendCh:  make(chan struct{}),
		committed: map[tp]int64{},
	}
	for t, n := range cfg.Topics {
		if n < 0 {
			n = 0
		}
		b.hwm[t] = make([]int64, n)
	}
	b.g.state = StateEmpty
	b.g.members = map[string]*member{}
	if cfg.SessionTimeout {
		b.wg.Add(1)
		go b.sessionLoop()
	}
	return b
}

func (b *Broker) logf(format string, args ...interface{}) {
	if b.cfg.Logf != nil {
		b.cfg.Logf(format, args...)
	}
}

// Addr is the address to put in ReaderConfig.Brokers; Metadata and FindCoordinator
// advertise this host and port.
func (b *Broker) Addr() string { return fmt.Sprintf("%s:%d", fakeHost, fakePort) }

// Dial is for kafka.Dialer.DialFunc.  Every address is accepted.  The ClientID is
// not known at dial time (it is learnt from the first request), so for a Kill()ed
// client the dial succeeds and the connection is closed as soon as its first
// request shows who it is; use DialFor to have the dial itself fail.
func (b *Broker) Dial(ctx context.Context, network, address string) (net.Conn, error) {
	return b.dial(ctx, network, address, "", false)
}

// DialFor returns a DialFunc bound to one ClientID: dials fail immediately while
// that client is Kill()ed (an addition to the specified API).
func (b *Broker) DialFor(client string) func(ctx context.Context, network, address string) (net.Conn, error) {
	return func(ctx context.Context, network, address string) (net.Conn, error) {
		return b.dial(ctx, network, address, client, true)
	}
}

func (b *Broker) dial(ctx context.Context, network, address, client string, known bool) (net.Conn, error) {
	if err := ctx.Err(); err != nil {
		return nil, err
	}
	if address == "" {
		address = b.Addr()
	}
	b.mu.Lock()
	if b.closed {
		b.mu.Unlock()
		return nil, &net.OpError{Op: "dial", Net: network, Addr: pipeAddr(address), Err: errors.New("groupfake: broker closed")}
	}
	if known && b.killed[client] {
		b.mu.Unlock()
		return nil, &net.OpError{Op: "dial", Net: network, Addr: pipeAddr(address), Err: errors.New("groupfake: connection refused (client killed)")}
	}
	cli, srv := net.Pipe()
	b.connSeq++
	c := &conn{b: b, nc: srv, id: b.connSeq, addr: address, client: client, clientKnown: known, deadCh: make(chan struct{})}
	b.conns[c] = struct{}{}
	b.wg.Add(1)
	b.mu.Unlock()
	go c.serve()
	return &clientConn{Conn: cli, local: pipeAddr(fmt.Sprintf("client:%d", 10000+c.id)), remote: pipeAddr(address)}, nil
}

// Close closes every connection and stops timers and goroutines; idempotent.
func (b *Broker) Close() {
	b.mu.Lock()
	if b.closed {
		b.mu.Unlock()
		return
	}
	b.closed = true
	close(b.done)
	b.stopTimer()
	for c := range b.conns {
		c.killLocked()
	}
	b.mu.Unlock()
	// every goroutine selects on b.done or fails on its closed connection
	ch := make(chan struct{})
	go func() { b.wg.Wait(); close(ch) }()
	select {
	case <-ch:
	case <-time.After(5 * time.Second):
		b.logf("groupfake: Close: goroutines still running after 5s")
	}
}

// Append appends n records and returns the new high watermark; pending fetches wake up.
func (b *Broker) Append(topic string, partition int, n int) int64 {
	b.mu.Lock()
	defer b.mu.Unlock()
	ps, ok := b.hwm[topic]
	if !ok || partition < 0 || partition >= len(ps) {
		return -1
	}
	if n <= 0 {
		return ps[partition]
	}
	ps[partition] += int64(n)
	b.ev(Event{Kind: "append", Gen: b.g.generation, TPs: []TPO{{topic, partition, ps[partition]}}})
	close(b.appendCh)
	b.appendCh = make(chan struct{})
	return ps[partition]
}

// HighWatermark is the offset of the next record to be appended (-1: unknown partition).
func (b *Broker) HighWatermark(topic string, partition int) int64 {
	b.mu.Lock()
	defer b.mu.Unlock()
	return b.hwmLocked(topic, partition)
}

func (b *Broker) hwmLocked(topic string, partition int) int64 {
	ps, ok := b.hwm[topic]
	if !ok || partition < 0 || partition >= len(ps) {
		return -1
	}
	return ps[partition]
}

// SetFault installs the fault function (nil = no faults).  It is called with the
// broker lock NOT held, exactly once per request, in arrival order per connection.
func (b *Broker) SetFault(f FaultFunc) {
	b.faultMu.Lock()
	b.fault = f
	b.faultMu.Unlock()
}

func (b *Broker) getFault() FaultFunc {
	b.faultMu.Lock()
	defer b.faultMu.Unlock()
	return b.fault
}

// ForceRebalance moves a Stable (or CompletingRebalance) group to PreparingRebalance.
func (b *Broker) ForceRebalance(note string) {
	b.mu.Lock()
	defer b.mu.Unlock()
	if b.closed {
		return
	}
	if b.g.state == StateStable || b.g.state == StateCompletingRebalance {
		b.prepareRebalance(note)
	}
}

// Evict removes a member (its later requests get UnknownMemberId) and starts a
// rebalance if members remain.
func (b *Broker) Evict(memberID string, note string) {
	b.mu.Lock()
	defer b.mu.Unlock()
	if b.closed {
		return
	}
	m := b.g.members[memberID]
	if m == nil {
		return
	}
	b.dropMember(m, note)
	b.afterRemoval("evict " + memberID)
}

// Kill drops every open connection of this ClientID and refuses its future
// connections (simulated crash / partition).  Once Kill has returned no request of
// that client is applied any more (until Revive).
func (b *Broker) Kill(client string) {
	b.mu.Lock()
	defer b.mu.Unlock()
	b.killed[client] = true
	for c := range b.conns {
		if c.clientKnown && c.client == client {
			c.killLocked()
		}
	}
}

// Revive undoes the refusal of Kill.
func (b *Broker) Revive(client string) {
	b.mu.Lock()
	defer b.mu.Unlock()
	delete(b.killed, client)
}

// Members returns the current member ids, sorted.
func (b *Broker) Members() []string {
	b.mu.Lock()
	defer b.mu.Unlock()
	return b.memberIDs()
}

// MemberOf returns the current (most recently created) member id of that client.
func (b *Broker) MemberOf(client string) string {
	b.mu.Lock()
	defer b.mu.Unlock()
	var best *member
	for _, m := range b.g.members {
		if m.client == client && (best == nil || m.seq > best.seq) {
			best = m
		}
	}
	if best == nil {
		return ""
	}
	return best.id
}

// Generation is the current generation id of the group.
func (b *Broker) Generation() int32 {
	b.mu.Lock()
	defer b.mu.Unlock()
	return b.g.generation
}

// State is "Empty", "PreparingRebalance", "CompletingRebalance" or "Stable".
func (b *Broker) State() string {
	b.mu.Lock()
	defer b.mu.Unlock()
	return b.g.state
}

// Assignment returns the partitions currently assigned to a member (an addition
// to the specified API); nil when unknown or not yet synced.
func (b *Broker) Assignment(memberID string) []TPO {
	b.mu.Lock()
	defer b.mu.Unlock()
	m := b.g.members[memberID]
	if m == nil || b.g.state != StateStable {
		return nil
	}
	tps, _ := decodeAssignment(m.assignment)
	return tps
}

// Committed returns the committed offset of a partition.
func (b *Broker) Committed(topic string, partition int) (int64, bool) {
	b.mu.Lock()
	defer b.mu.Unlock()
	o, ok := b.committed[tp{topic, partition}]
	return o, ok
}

// Record appends an application-side event to the SAME sequence and returns its Seq.
func (b *Broker) Record(ev Event) int {
	b.mu.Lock()
	defer b.mu.Unlock()
	return b.ev(ev)
}

// History returns a copy of the history.
func (b *Broker) History() []Event {
	b.mu.Lock()
	defer b.mu.Unlock()
	out := make([]Event, len(b.history))
	for i, e := range b.history {
		e.TPs = append([]TPO(nil), e.TPs...)
		out[i] = e
	}
	return out
}

// ev appends to the history (b.mu held).
func (b *Broker) ev(e Event) int {
	e.Seq = len(b.history)
	if len(e.TPs) > 1 {
		sortTPs(e.TPs)
	}
	b.history = append(b.history, e)
	if b.cfg.Logf != nil {
		b.cfg.Logf("groupfake: %s", FormatEvent(e))
	}
	return e.Seq
}

// FormatEvent renders an event on one line.
func FormatEvent(e Event) string {
	var buf bytes.Buffer
	fmt.Fprintf(&buf, "#%d %s", e.Seq, e.Kind)
	if e.Client != "" {
		fmt.Fprintf(&buf, " client=%s", e.Client)
	}
	if e.Member != "" {
		fmt.Fprintf(&buf, " member=%s", e.Member)
	}
	fmt.Fprintf(&buf, " gen=%d", e.Gen)
	if len(e.TPs) != 0 {
		buf.WriteString(" [")
		for i, t := range e.TPs {
			if i != 0 {
				buf.WriteByte(' ')
			}
			fmt.Fprintf(&buf, "%s/%d@%d", t.Topic, t.Partition, t.Offset)
		}
		buf.WriteByte(']')
	}
	if e.Code != 0 {
		fmt.Fprintf(&buf, " code=%d", e.Code)
	}
	if e.Drop != 0 {
		fmt.Fprintf(&buf, " drop=%d", e.Drop)
	}
	if e.ID != 0 {
		fmt.Fprintf(&buf, " id=%d", e.ID)
	}
	if e.Note != "" {
		fmt.Fprintf(&buf, " (%s)", e.Note)
	}
	return buf.String()
}

func sortTPs(tps []TPO) {
	sort.SliceStable(tps, func(i, j int) bool {
		if tps[i].Topic != tps[j].Topic {
			return tps[i].Topic < tps[j].Topic
		}
		return tps[i].Partition < tps[j].Partition
	})
}

// ---------------------------------------------------------------- connections

type pipeAddr string

func (a pipeAddr) Network() string { return "tcp" }
func (a pipeAddr) String() string  { return string(a) }

// clientConn is the client end of the pipe, with host:port addresses (kafka.Conn
// splits RemoteAddr into host and port).
type clientConn struct {
	net.Conn
	local, remote pipeAddr
}

func (c *clientConn) LocalAddr() net.Addr  { return c.local }
func (c *clientConn) RemoteAddr() net.Addr { return c.remote }

type conn struct {
	b           *Broker
	nc          net.Conn // server end
	id          int
	addr        string // the address that was dialled
	client      string // guarded by b.mu until clientKnown
	clientKnown bool
	dead        bool // guarded by b.mu: closed by the broker (Kill, Close, drop)
	deadCh      chan struct{}
}

// killLocked closes the connection from the broker side (b.mu held).
func (c *conn) killLocked() {
	if !c.dead {
		c.dead = true
		close(c.deadCh)
	}
	c.nc.Close()
}

func (c *conn) serve() {
	b := c.b
	defer b.wg.Done()
	defer func() {
		b.mu.Lock()
		c.killLocked()
		delete(b.conns, c)
		b.mu.Unlock()
	}()
	for {
		var lenb [4]byte
		if _, err := io.ReadFull(c.nc, lenb[:]); err != nil {
			return // the client closed, or the broker closed the connection
		}
		size := int(int32(binary.BigEndian.Uint32(lenb[:])))
		if size < 8 || size > maxFrame {
			b.logf("groupfake: conn %d: bad frame size %d", c.id, size)
			return
		}
		frame := make([]byte, 4+size)
		copy(frame, lenb[:])
		if _, err := io.ReadFull(c.nc, frame[4:]); err != nil {
			return
		}
		key := int16(binary.BigEndian.Uint16(frame[4:6]))
		ver, corr, client, msg, err := decodeRequest(frame)
		if err != nil {
			b.logf("groupfake: conn %d: undecodable request key=%d: %v", c.id, key, err)
			return
		}
		b.mu.Lock()
		if !c.clientKnown {
			c.client, c.clientKnown = client, true
		}
		refused := b.killed[c.client] || c.dead || b.closed
		b.mu.Unlock()
		if refused {
			return
		}
		if !versionOK(key, ver) {
			b.logf("groupfake: conn %d: %v v%d is outside the advertised range", c.id, protocol.ApiKey(key), ver)
			return
		}
		if !c.handle(ver, corr, msg) {
			return
		}
	}
}

func versionOK(key, ver int16) bool {
	for _, a := range ApiVersions {
		if a.ApiKey == key {
			return ver >= a.MinVersion && ver <= a.MaxVersion
		}
	}
	return false
}

func decodeRequest(frame []byte) (ver int16, corr int32, client string, msg protocol.Message, err error) {
	defer func() {
		if r := recover(); r != nil {
			err = fmt.Errorf("panic while decoding: %v", r)
		}
	}()
	ver, corr, client, msg, err = protocol.ReadRequest(bytes.NewReader(frame))
	if err == nil && msg == nil {
		err = errors.New("no message")
	}
	return
}

// reply is what processing a request produced.
type reply struct {
	msg  protocol.Message // encoded with protocol.WriteResponse
	raw  []byte           // or: a hand-encoded response body (after the correlation id)
	pend *pending         // or: the response is held
	drop bool             // close the connection instead of answering
}

// pending is a held JoinGroup / SyncGroup response.
type pending struct {
	ch   chan protocol.Message // capacity 1
	c    *conn
	drop int   // Fault.Drop of the request (0 or 2)
	gen  int32 // generation carried by the request (sync)
}

// dropOf tells what the event of a held response must say (b.mu held).
func (p *pending) dropOf() int {
	if p.drop == 2 || p.c.dead {
		return 2
	}
	return 0
}

func apiOf(msg protocol.Message) (api, member string) {
	switch r := msg.(type) {
	case *joingroup.Request:
		return "join", r.MemberID
	case *syncgroup.Request:
		return "sync", r.MemberID
	case *heartbeat.Request:
		return "heartbeat", r.MemberID
	case *leavegroup.Request:
		return "leave", r.MemberID
	case *offsetfetch.Request:
		return "ofetch", ""
	case *offsetcommit.Request:
		return "ocommit", r.MemberID
	case *findcoordinator.Request:
		return "findcoordinator", ""
	case *metadata.Request:
		return "metadata", ""
	case *fetch.Request:
		return "fetch", ""
	case *listoffsets.Request:
		return "listoffsets", ""
	}
	return "", ""
}

// sleep waits d, or less when the broker or the connection goes away.
func (c *conn) sleep(d time.Duration) bool {
	if d <= 0 {
		return true
	}
	t := time.NewTimer(d)
	defer t.Stop()
	select {
	case <-t.C:
		return true
	case <-c.b.done:
		return false
	case <-c.deadCh:
		return false
	}
}

// handle processes one request; false = close the connection.
func (c *conn) handle(ver int16, corr int32, msg protocol.Message) bool {
	b := c.b
	var f Fault
	api, member := apiOf(msg)
	if api != "" {
		if ff := b.getFault(); ff != nil {
			f = ff(api, c.client, member)
		}
	}
	if b.cfg.Logf != nil && api != "fetch" && api != "heartbeat" {
		b.cfg.Logf("groupfake: conn %d (%s -> %s) %T v%d member=%q fault=%+v", c.id, c.client, c.addr, msg, ver, member, f)
	}
	if f.Delay > 0 && !c.sleep(f.Delay) {
		return false
	}
	if f.Drop != 1 && f.Drop != 2 {
		f.Drop = 0
	}

	var r reply
	switch req := msg.(type) {
	case *apiversions.Request:
		r.msg = &apiversions.Response{ApiKeys: ApiVersions}
	case *metadata.Request:
		r = b.doMetadata(c, req, f)
	case *findcoordinator.Request:
		r = b.doFindCoordinator(c, req, f)
	case *joingroup.Request:
		r = b.doJoin(c, ver, req, f)
	case *syncgroup.Request:
		r = b.doSync(c, req, f)
	case *heartbeat.Request:
		r = b.doHeartbeat(c, req, f)
	case *leavegroup.Request:
		r = b.doLeave(c, req, f)
	case *offsetfetch.Request:
		r = b.doOffsetFetch(c, req, f)
	case *offsetcommit.Request:
		r = b.doOffsetCommit(c, req, f)
	case *listoffsets.Request:
		r = b.doListOffsets(c, req, f)
	case *fetch.Request:
		r = b.doFetch(c, req, f)
	default:
		b.logf("groupfake: conn %d: unexpected request %T", c.id, msg)
		return false
	}

	if r.pend != nil {
		t := time.NewTimer(maxHold)
		defer t.Stop()
		select {
		case m := <-r.pend.ch:
			r.msg = m
		case <-b.done:
			return false
		case <-c.deadCh:
			return false
		case <-t.C:
			b.logf("groupfake: conn %d: held response never completed", c.id)
			return false
		}
		if r.pend.drop == 2 {
			r.drop = true
		}
	}
	if r.drop || f.Drop != 0 {
		return false
	}

	var buf bytes.Buffer
	if r.raw != nil {
		var h [8]byte
		binary.BigEndian.PutUint32(h[:4], uint32(4+len(r.raw)))
		binary.BigEndian.PutUint32(h[4:], uint32(corr))
		buf.Write(h[:])
		buf.Write(r.raw)
	} else {
		if r.msg == nil {
			return false
		}
		if err := protocol.WriteResponse(&buf, ver, corr, r.msg); err != nil {
			b.logf("groupfake: conn %d: encode %T v%d: %v", c.id, r.msg, ver, err)
			return false
		}
	}
	c.nc.SetWriteDeadline(time.Now().Add(writeTimeout))
	if _, err := c.nc.Write(buf.Bytes()); err != nil {
		return false // the client went away (closed pipe) or does not read
	}
	return true
}

// gone tells whether a request must not be applied any more (b.mu held).
func (b *Broker) gone(c *conn) bool {
	return b.closed || c.dead || (c.clientKnown && b.killed[c.client])
}

// ---------------------------------------------------------------- plain APIs

func (b *Broker) topicNames() []string {
	names := make([]string, 0, len(b.hwm))
	for t := range b.hwm {
		names = append(names, t)
	}
	sort.Strings(names)
	return names
}

func (b *Broker) doMetadata(c *conn, req *metadata.Request, f Fault) reply {
	b.mu.Lock()
	defer b.mu.Unlock()
	if b.gone(c) || f.Drop == 1 {
		return reply{drop: true}
	}
	res := &metadata.Response{
		Brokers:      []metadata.ResponseBroker{{NodeID: nodeID, Host: fakeHost, Port: fakePort}},
		ControllerID: nodeID,
		Topics:       []metadata.ResponseTopic{},
	}
	names := req.TopicNames
	if names == nil { // null = all topics; empty = none
		names = b.topicNames()
	}
	for _, name := range names {
		t := metadata.ResponseTopic{Name: name, Partitions: []metadata.ResponsePartition{}}
		ps, ok := b.hwm[name]
		switch {
		case f.Code != 0:
			t.ErrorCode = f.Code
		case !ok:
			t.ErrorCode = ErrUnknownTopicOrPartition
		default:
			for p := range ps {
				t.Partitions = append(t.Partitions, metadata.ResponsePartition{
					PartitionIndex: int32(p), LeaderID: nodeID, ReplicaNodes: []int32{nodeID}, IsrNodes: []int32{nodeID},
				})
			}
		}
		res.Topics = append(res.Topics, t)
	}
	return reply{msg: res}
}

func (b *Broker) doFindCoordinator(c *conn, req *findcoordinator.Request, f Fault) reply {
	b.mu.Lock()
	defer b.mu.Unlock()
	if b.gone(c) || f.Drop == 1 {
		return reply{drop: true}
	}
	if f.Code != 0 {
		return reply{msg: &findcoordinator.Response{ErrorCode: f.Code, NodeID: -1}}
	}
	return reply{msg: &findcoordinator.Response{NodeID: nodeID, Host: fakeHost, Port: fakePort}}
}

func (b *Broker) doListOffsets(c *conn, req *listoffsets.Request, f Fault) reply {
	b.mu.Lock()
	defer b.mu.Unlock()
	if b.gone(c) || f.Drop == 1 {
		return reply{drop: true}
	}
	res := &listoffsets.Response{Topics: []listoffsets.ResponseTopic{}}
	for _, t := range req.Topics {
		rt := listoffsets.ResponseTopic{Topic: t.Topic, Partitions: []listoffsets.ResponsePartition{}}
		for _, p := range t.Partitions {
			rp := listoffsets.ResponsePartition{Partition: p.Partition, Timestamp: -1, Offset: -1}
			hwm := b.hwmLocked(t.Topic, int(p.Partition))
			switch {
			case f.Code != 0:
				rp.ErrorCode = f.Code
			case hwm < 0:
				rp.ErrorCode = ErrUnknownTopicOrPartition
			case p.Timestamp == -2: // earliest: the log start is always 0
				rp.Offset = 0
			case p.Timestamp == -1: // latest
				rp.Offset = hwm
			default: // by time: every record carries RecordTimestamp
				if p.Timestamp <= RecordTimestamp && hwm > 0 {
					rp.Offset, rp.Timestamp = 0, RecordTimestamp
				}
			}
			rt.Partitions = append(rt.Partitions, rp)
		}
		res.Topics = append(res.Topics, rt)
	}
	return reply{msg: res}
}

// RecordValue is the value of the record at (topic, partition, offset).
func RecordValue(topic string, partition int, offset int64) string {
	return fmt.Sprintf("%s/%d/%d", topic, partition, offset)
}

func (b *Broker) doFetch(c *conn, req *fetch.Request, f Fault) reply {
	b.mu.Lock()
	if b.gone(c) || f.Drop == 1 {
		b.mu.Unlock()
		return reply{drop: true}
	}
	// long poll: when no requested partition has anything (and none is in error), wait for an Append
	if f.Code == 0 && !b.fetchReady(req) {
		wait := time.Duration(req.MaxWaitTime) * time.Millisecond / 2 // leave the client some slack before its deadline
		if wait > maxFetchWait {
			wait = maxFetchWait
		}
		deadline := time.Now().Add(wait)
		for wait > 0 && !b.fetchReady(req) {
			ch := b.appendCh
			b.mu.Unlock()
			t := time.NewTimer(wait)
			select {
			case <-ch:
			case <-t.C:
			case <-b.done:
			case <-c.deadCh:
			}
			t.Stop()
			b.mu.Lock()
			if b.gone(c) {
				b.mu.Unlock()
				return reply{drop: true}
			}
			wait = time.Until(deadline)
		}
	}
	defer b.mu.Unlock()

	w := &wbuf{}
	w.i32(0) // throttle time
	w.i32(int32(len(req.Topics)))
	for _, t := range req.Topics {
		w.str(t.Topic)
		w.i32(int32(len(t.Partitions)))
		for _, p := range t.Partitions {
			hwm := b.hwmLocked(t.Topic, int(p.Partition))
			code := int16(0)
			var set []byte
			switch {
			case f.Code != 0:
				code = f.Code
			case hwm < 0:
				code = ErrUnknownTopicOrPartition
			case p.FetchOffset < 0 || p.FetchOffset > hwm:
				code = ErrOffsetOutOfRange
			default:
				for o := p.FetchOffset; o < hwm && o < p.FetchOffset+maxFetchBatch; o++ {
					m := encodeMessageV1(o, RecordTimestamp, nil, []byte(RecordValue(t.Topic, int(p.Partition), o)))
					if len(set) != 0 && len(set)+len(m) > int(p.PartitionMaxBytes) {
						break
					}
					set = append(set, m...)
				}
			}
			w.i32(p.Partition)
			w.i16(code)
			w.i64(hwm)
			w.i32(int32(len(set)))
			w.b = append(w.b, set...)
		}
	}
	return reply{raw: w.b}
}

// fetchReady: some requested partition can be answered without waiting (b.mu held).
func (b *Broker) fetchReady(req *fetch.Request) bool {
	for _, t := range req.Topics {
		for _, p := range t.Partitions {
			hwm := b.hwmLocked(t.Topic, int(p.Partition))
			if hwm < 0 || p.FetchOffset != hwm {
				return true // an error or records
			}
		}
	}
	return false
}
