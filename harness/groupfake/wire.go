package groupfake

import (
	"encoding/binary"
	"errors"
	"hash/crc32"
)

// Hand encoding of what kafka-go's protocol package cannot produce for a broker:
// the record sets of a Fetch response (its RecordSet writers number the records
// from 0, they are made for Produce requests), and the decoding of the consumer
// protocol's member assignment.

type wbuf struct{ b []byte }

func (w *wbuf) i8(v int8)   { w.b = append(w.b, byte(v)) }
func (w *wbuf) i16(v int16) { w.b = binary.BigEndian.AppendUint16(w.b, uint16(v)) }
func (w *wbuf) i32(v int32) { w.b = binary.BigEndian.AppendUint32(w.b, uint32(v)) }
func (w *wbuf) i64(v int64) { w.b = binary.BigEndian.AppendUint64(w.b, uint64(v)) }
func (w *wbuf) str(s string) {
	w.i16(int16(len(s)))
	w.b = append(w.b, s...)
}
func (w *wbuf) bytes(p []byte) {
	if p == nil {
		w.i32(-1)
		return
	}
	w.i32(int32(len(p)))
	w.b = append(w.b, p...)
}

// encodeMessageV1 is one entry of a message set in the message format v1 (magic 1):
//
//	offset int64, size int32, crc int32, magic int8, attributes int8, timestamp int64, key bytes, value bytes
func encodeMessageV1(offset, timestamp int64, key, value []byte) []byte {
	body := &wbuf{}
	body.i8(1) // magic
	body.i8(0) // attributes: no compression, CreateTime
	body.i64(timestamp)
	body.bytes(key)
	body.bytes(value)
	w := &wbuf{}
	w.i64(offset)
	w.i32(int32(4 + len(body.b)))
	w.i32(int32(crc32.ChecksumIEEE(body.b)))
	w.b = append(w.b, body.b...)
	return w.b
}

type rbuf struct {
	b   []byte
	err error
}

func (r *rbuf) take(n int) []byte {
	if r.err != nil {
		return nil
	}
	if n < 0 || n > len(r.b) {
		r.err = errors.New("short buffer")
		return nil
	}
	p := r.b[:n]
	r.b = r.b[n:]
	return p
}
func (r *rbuf) i16() int16 {
	if p := r.take(2); p != nil {
		return int16(binary.BigEndian.Uint16(p))
	}
	return 0
}
func (r *rbuf) i32() int32 {
	if p := r.take(4); p != nil {
		return int32(binary.BigEndian.Uint32(p))
	}
	return 0
}
func (r *rbuf) str() string {
	n := r.i16()
	if n < 0 {
		return ""
	}
	return string(r.take(int(n)))
}

// decodeAssignment decodes a consumer protocol member assignment:
//
//	version int16, [ topic string, [ partition int32 ] ], userdata bytes
//
// into a sorted list of partitions with Offset = -1.  Empty input = no partitions.
func decodeAssignment(a []byte) ([]TPO, error) {
	if len(a) == 0 {
		return nil, nil
	}
	r := &rbuf{b: a}
	r.i16() // version
	var tps []TPO
	nt := r.i32()
	for i := int32(0); i < nt && r.err == nil; i++ {
		topic := r.str()
		np := r.i32()
		for j := int32(0); j < np && r.err == nil; j++ {
			tps = append(tps, TPO{Topic: topic, Partition: int(r.i32()), Offset: -1})
		}
	}
	if r.err != nil {
		return nil, r.err
	}
	sortTPs(tps)
	return tps, nil
}
