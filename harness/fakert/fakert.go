// Package fakert is a fake kafka cluster implementing kafka.RoundTripper for the
// Writer checks: it answers typed metadata and produce requests, applies a
// per-partition fault script, and journals every produce attempt into a
// globally sequenced History shared with the harness.
package fakert

import (
	"bytes"
	"context"
	"encoding/binary"
	"errors"
	"fmt"
	"io"
	"net"
	"sort"
	"strings"
	"sync"
	"syscall"
	"time"

	kafka "github.com/segmentio/kafka-go"
	"github.com/segmentio/kafka-go/protocol"
	"github.com/segmentio/kafka-go/protocol/metadata"
	"github.com/segmentio/kafka-go/protocol/produce"
)

// ---------------------------------------------------------------------------
// Error code enumeration

const (
	CodeUnexpectedEOF = 1001
	CodeConnReset     = 1002
	CodePipe          = 1003
	CodeConnRefused   = 1004
	CodeDeadline      = 1005
	CodeBoom          = 1006
	CodeTemp          = 1007
	CodeEOF           = 1008 // a plain io.EOF, distinct from io.ErrUnexpectedEOF
	CodeUnknown       = 1099
)

// ErrBoom is the permanent non-network error (code 1006).
var ErrBoom = errors.New("boom")

// TempError is a net.Error-like error whose Temporary() is true (code 1007).
type TempError struct{}

func (*TempError) Error() string   { return "fakert: temporary failure" }
func (*TempError) Temporary() bool { return true }
func (*TempError) Timeout() bool   { return false }

var _ net.Error = (*TempError)(nil)

// ErrTemp is the instance returned by ErrOf(CodeTemp).
var ErrTemp error = &TempError{}

// Enc encodes a Kafka error code (any int16) for the output: c when c >= 0,
// 65536 + c when c < 0 (-1 -> ffff, -32768 -> 8000). The transport errors keep
// 1001..1099, so Kafka codes in that range are never generated.
func Enc(c int) int {
	if c < 0 {
		return 65536 + c
	}
	return c
}

// Dec is the inverse of Enc for Kafka codes.
func Dec(enc int) int {
	if enc >= 32768 {
		return enc - 65536
	}
	return enc
}

// IsTransport tells whether an encoded code is in the transport-error range.
func IsTransport(enc int) bool { return enc >= 1001 && enc <= 1099 }

// ErrOf returns the error of an encoded code: the transport errors for
// 1001..1099, kafka.Error(Dec(enc)) otherwise.
func ErrOf(enc int) error {
	switch enc {
	case CodeUnexpectedEOF:
		return io.ErrUnexpectedEOF
	case CodeConnReset:
		return syscall.ECONNRESET
	case CodePipe:
		return syscall.EPIPE
	case CodeConnRefused:
		return syscall.ECONNREFUSED
	case CodeDeadline:
		return context.DeadlineExceeded
	case CodeBoom:
		return ErrBoom
	case CodeTemp:
		return ErrTemp
	case CodeEOF:
		return io.EOF
	}
	if IsTransport(enc) {
		return fmt.Errorf("fakert: unknown code %d", enc)
	}
	return kafka.Error(Dec(enc))
}

// Classify maps an error (possibly wrapped with %w) back to its encoded code.
func Classify(err error) int {
	if err == nil {
		return 0
	}
	var ke kafka.Error
	if errors.As(err, &ke) {
		return Enc(int(ke))
	}
	var te *TempError
	switch {
	case errors.Is(err, io.ErrUnexpectedEOF):
		return CodeUnexpectedEOF
	case errors.Is(err, io.EOF):
		return CodeEOF
	case errors.Is(err, syscall.ECONNRESET):
		return CodeConnReset
	case errors.Is(err, syscall.EPIPE):
		return CodePipe
	case errors.Is(err, syscall.ECONNREFUSED):
		return CodeConnRefused
	case errors.Is(err, context.DeadlineExceeded):
		return CodeDeadline
	case errors.Is(err, ErrBoom):
		return CodeBoom
	case errors.As(err, &te):
		return CodeTemp
	}
	return CodeUnknown
}

// ---------------------------------------------------------------------------
// History: the one globally sequenced event list

// History is a mutex-protected, append-only list of event texts. Every event
// of a scenario (harness events and the fake's produce attempts) goes through
// it, so that the position in the list is the global sequence number.
type History struct {
	mu     sync.Mutex
	events []string
	frozen bool
}

func NewHistory() *History { return &History{} }

// Do appends the event computed by f, which runs under the history lock and
// receives the sequence number the event gets. It returns that number, or -1
// if the history has been frozen.
func (h *History) Do(f func(seq int) string) int {
	h.mu.Lock()
	defer h.mu.Unlock()
	if h.frozen {
		return -1
	}
	seq := len(h.events)
	h.events = append(h.events, f(seq))
	return seq
}

// Record appends a ready-made event.
func (h *History) Record(text string) int {
	return h.Do(func(int) string { return text })
}

// Patch replaces the text of event seq (its position is unchanged).
func (h *History) Patch(seq int, text string) {
	h.mu.Lock()
	defer h.mu.Unlock()
	if seq >= 0 && seq < len(h.events) {
		h.events[seq] = text
	}
}

// Freeze stops the recording (later events are dropped) and returns a copy of
// the events.
func (h *History) Freeze() []string {
	h.mu.Lock()
	defer h.mu.Unlock()
	h.frozen = true
	return append([]string(nil), h.events...)
}

// ---------------------------------------------------------------------------
// Fault script

type Kind int

const (
	AppliedAcked Kind = iota // append, acknowledge
	AppliedLost              // append, then return the Go error ErrOf(Code)
	RejectedCode             // do not append, answer partition ErrorCode = Code
	NotApplied               // do not append, return the Go error ErrOf(Code)
	Held                     // hold the request for Delay IGNORING its ctx, only then append and acknowledge
)

func (k Kind) String() string {
	return [...]string{"acked", "lost", "rejected", "notapplied", "held"}[k]
}

// Reaction is one entry of a partition's fault script.
type Reaction struct {
	Kind  Kind
	Code  int           // encoded code (see Enc, ErrOf); unused for AppliedAcked
	Delay time.Duration // hold the answer back (after applying) this long or until the request's ctx is done
}

// TP names a topic partition.
type TP struct {
	Topic     string
	Partition int
}

// Attempt is one journalled produce attempt.
type Attempt struct {
	Seq       int // global sequence number in the History
	Topic     string
	Partition int
	IDs       []uint64
	Applied   bool
	Seen      int // encoded code shown to the client, 0 = acknowledged
}

// Fake is the fake cluster.
type Fake struct {
	hist *History

	mu         sync.Mutex
	topics     map[string]int // name -> number of partitions
	topicNum   map[string]int // name -> number used in the output
	scripts    map[TP][]Reaction
	logs       map[TP][]uint64
	touched    map[TP]bool
	journal    []Attempt
	metaCount  int
	metaAt     int // the metaAt-th metadata request (1-based) fails; 0 = never
	metaCode   int
	metaFired  bool
	honorCtx   bool
	produceCnt int

	expected   map[uint64]kafka.Message // submitted messages by id (nil = no check)
	recAnomaly string                   // first record/attribute mismatch seen
	acked      map[uint64]AckedAt       // where every acknowledged id was written

	metaArmed   bool          // the next metadata request parks until released
	metaParked  bool          // a metadata request is parked now
	metaRelease chan struct{} // closed by ReleaseMetadata

	inflight    map[TP]int // produce round trips currently inside the fake
	twoInFlight bool       // two of the same partition were inside at the same time
}

// AckedAt is the place an acknowledged message was written to, as answered to
// the client (BaseOffset of the response + index in the batch).
type AckedAt struct {
	TP     TP
	Offset int64
}

// New builds a fake cluster with topics "t0".."t<n-1>" having parts[i]
// partitions each, recording into hist.
func New(hist *History, parts []int) *Fake {
	f := &Fake{
		hist:     hist,
		topics:   map[string]int{},
		topicNum: map[string]int{},
		scripts:  map[TP][]Reaction{},
		logs:     map[TP][]uint64{},
		touched:  map[TP]bool{},
		acked:    map[uint64]AckedAt{},
		inflight: map[TP]int{},
	}
	for i, n := range parts {
		name := fmt.Sprintf("t%d", i)
		f.topics[name] = n
		f.topicNum[name] = i
	}
	return f
}

// SetScript installs the FIFO fault script of a partition.
func (f *Fake) SetScript(tp TP, script []Reaction) {
	f.mu.Lock()
	defer f.mu.Unlock()
	f.scripts[tp] = append([]Reaction(nil), script...)
}

// SetExpected registers the submitted messages by id: every record of a
// produce request is then compared with its message (key, value, time,
// headers); the first difference is kept for RecordAnomaly.
func (f *Fake) SetExpected(m map[uint64]kafka.Message) {
	f.mu.Lock()
	defer f.mu.Unlock()
	f.expected = m
}

// RecordAnomaly returns a description of the first record that differed from
// its submitted message, "" if there was none.
func (f *Fake) RecordAnomaly() string {
	f.mu.Lock()
	defer f.mu.Unlock()
	return f.recAnomaly
}

// HoldMetadata arms the metadata hold: the NEXT metadata round trip parks
// inside the fake (whatever its context says) until ReleaseMetadata.
func (f *Fake) HoldMetadata() {
	f.mu.Lock()
	defer f.mu.Unlock()
	f.metaArmed = true
	f.metaRelease = make(chan struct{})
}

// MetadataHeld tells that a metadata request is parked.
func (f *Fake) MetadataHeld() bool {
	f.mu.Lock()
	defer f.mu.Unlock()
	return f.metaParked
}

// ReleaseMetadata lets the parked (or the next, if none parked yet) metadata
// request go on.
func (f *Fake) ReleaseMetadata() {
	f.mu.Lock()
	defer f.mu.Unlock()
	if f.metaRelease != nil {
		select {
		case <-f.metaRelease:
		default:
			close(f.metaRelease)
		}
	}
}

// TwoInFlight reports whether two produce round trips of one topic partition
// were ever inside the fake at the same time (a writer has one sender per
// partition, so this must never happen).
func (f *Fake) TwoInFlight() bool {
	f.mu.Lock()
	defer f.mu.Unlock()
	return f.twoInFlight
}

// InFlight returns the number of produce round trips inside the fake now.
func (f *Fake) InFlight() int {
	f.mu.Lock()
	defer f.mu.Unlock()
	n := 0
	for _, c := range f.inflight {
		n += c
	}
	return n
}

// Acked tells where the message id was written by its acknowledged attempt.
func (f *Fake) Acked(id uint64) (AckedAt, bool) {
	f.mu.Lock()
	defer f.mu.Unlock()
	a, ok := f.acked[id]
	return a, ok
}

// SetHonorCtx makes metadata requests fail with ctx.Err() when the caller's
// context is already done (off by default: metadata is answered regardless, so
// that a cancelled context only acts in WriteMessages' wait loop).
func (f *Fake) SetHonorCtx(on bool) {
	f.mu.Lock()
	defer f.mu.Unlock()
	f.honorCtx = on
}

// SetMetaFault makes the n-th metadata request overall (1-based) fail with
// the encoded code: a topic ErrorCode in the response for a Kafka code, else the
// Go error of the transport code.
func (f *Fake) SetMetaFault(n, code int) {
	f.mu.Lock()
	defer f.mu.Unlock()
	f.metaAt, f.metaCode = n, code
}

// MetaState returns the number of metadata requests seen and whether the
// scripted metadata fault has fired.
func (f *Fake) MetaState() (count int, fired bool) {
	f.mu.Lock()
	defer f.mu.Unlock()
	return f.metaCount, f.metaFired
}

// Journal returns a copy of the produce attempts in global order.
func (f *Fake) Journal() []Attempt {
	f.mu.Lock()
	defer f.mu.Unlock()
	return append([]Attempt(nil), f.journal...)
}

// Logs returns the partitions that received at least one produce request, in
// (topic number, partition) order, with a copy of their logs.
func (f *Fake) Logs() (tps []TP, logs [][]uint64) {
	f.mu.Lock()
	defer f.mu.Unlock()
	for tp := range f.touched {
		tps = append(tps, tp)
	}
	sort.Slice(tps, func(i, j int) bool {
		a, b := f.topicNum[tps[i].Topic], f.topicNum[tps[j].Topic]
		if a != b {
			return a < b
		}
		return tps[i].Partition < tps[j].Partition
	})
	for _, tp := range tps {
		logs = append(logs, append([]uint64(nil), f.logs[tp]...))
	}
	return tps, logs
}

// TopicNum returns the output number of a topic name (-1 if unknown).
func (f *Fake) TopicNum(name string) int {
	f.mu.Lock()
	defer f.mu.Unlock()
	if n, ok := f.topicNum[name]; ok {
		return n
	}
	return -1
}

// RoundTrip implements kafka.RoundTripper.
func (f *Fake) RoundTrip(ctx context.Context, addr net.Addr, req kafka.Request) (kafka.Response, error) {
	switch r := req.(type) {
	case *metadata.Request:
		return f.metadata(ctx, r)
	case *produce.Request:
		return f.produce(ctx, r)
	}
	return nil, fmt.Errorf("fakert: unsupported request %T", req)
}

func (f *Fake) metadata(ctx context.Context, r *metadata.Request) (kafka.Response, error) {
	f.mu.Lock()
	defer f.mu.Unlock()
	if f.metaArmed {
		f.metaArmed = false
		f.metaParked = true
		ch := f.metaRelease
		f.mu.Unlock()
		<-ch
		f.mu.Lock()
		f.metaParked = false
	}
	if f.honorCtx {
		if err := ctx.Err(); err != nil {
			return nil, err
		}
	}
	f.metaCount++
	fail := f.metaAt != 0 && f.metaCount == f.metaAt
	if fail {
		f.metaFired = true
		if IsTransport(f.metaCode) {
			return nil, ErrOf(f.metaCode)
		}
	}
	res := &metadata.Response{
		Brokers:      []metadata.ResponseBroker{{NodeID: 1, Host: "fake", Port: 9092}},
		ClusterID:    "fakert",
		ControllerID: 1,
	}
	names := r.TopicNames
	if names == nil {
		for name := range f.topics {
			names = append(names, name)
		}
		sort.Strings(names)
	}
	for _, name := range names {
		n, ok := f.topics[name]
		t := metadata.ResponseTopic{Name: name}
		switch {
		case fail:
			t.ErrorCode = int16(Dec(f.metaCode))
		case !ok:
			t.ErrorCode = int16(kafka.UnknownTopicOrPartition)
		default:
			for p := 0; p < n; p++ {
				t.Partitions = append(t.Partitions, metadata.ResponsePartition{
					PartitionIndex: int32(p),
					LeaderID:       1,
					ReplicaNodes:   []int32{1},
					IsrNodes:       []int32{1},
				})
			}
		}
		res.Topics = append(res.Topics, t)
	}
	return res, nil
}

// VidHeader is the header that carries the message id (8 bytes, big endian)
// when the value does not.
const VidHeader = "vid"

// MessageID extracts the id of a message: header "vid" when present, else the
// first 8 bytes of the value; ok is false when there is neither.
func MessageID(value []byte, headers []protocol.Header) (id uint64, ok bool) {
	for _, h := range headers {
		if h.Key == VidHeader && len(h.Value) == 8 {
			return binary.BigEndian.Uint64(h.Value), true
		}
	}
	if len(value) >= 8 {
		return binary.BigEndian.Uint64(value), true
	}
	return 0, false
}

// rec is a record as received in a produce request.
type rec struct {
	id       uint64
	key      []byte
	keyNil   bool
	value    []byte
	valueNil bool
	time     time.Time
	headers  []protocol.Header
}

// readRecords drains the record set of a produce request.
func readRecords(rs *protocol.RecordSet) ([]rec, error) {
	var recs []rec
	if rs.Records == nil {
		return nil, nil
	}
	for {
		r, err := rs.Records.ReadRecord()
		if err == io.EOF {
			return recs, nil
		}
		if err != nil {
			return recs, err
		}
		x := rec{keyNil: r.Key == nil, valueNil: r.Value == nil, time: r.Time}
		if r.Key != nil {
			if x.key, err = protocol.ReadAll(r.Key); err != nil {
				return recs, err
			}
			r.Key.Close()
		}
		if r.Value != nil {
			if x.value, err = protocol.ReadAll(r.Value); err != nil {
				return recs, err
			}
			r.Value.Close()
		}
		for _, h := range r.Headers { // the slice may be reused by the reader
			x.headers = append(x.headers, protocol.Header{Key: h.Key, Value: append([]byte(nil), h.Value...)})
		}
		id, ok := MessageID(x.value, x.headers)
		if !ok {
			return recs, fmt.Errorf("fakert: record with a value of %d bytes and no vid header carries no id", len(x.value))
		}
		x.id = id
		recs = append(recs, x)
	}
}

// diffRecord compares a received record with the submitted message.
func diffRecord(x rec, m kafka.Message) string {
	switch {
	case x.keyNil != (m.Key == nil) || !bytes.Equal(x.key, m.Key):
		return fmt.Sprintf("id %x: key %x (nil=%v), submitted %x (nil=%v)", x.id, x.key, x.keyNil, m.Key, m.Key == nil)
	case x.valueNil != (m.Value == nil) || !bytes.Equal(x.value, m.Value):
		return fmt.Sprintf("id %x: value of %d bytes (nil=%v), submitted %d bytes (nil=%v)", x.id, len(x.value), x.valueNil, len(m.Value), m.Value == nil)
	case !m.Time.IsZero() && x.time.UnixMilli() != m.Time.UnixMilli():
		return fmt.Sprintf("id %x: time %d ms, submitted %d ms", x.id, x.time.UnixMilli(), m.Time.UnixMilli())
	case len(x.headers) != len(m.Headers):
		return fmt.Sprintf("id %x: %d headers, submitted %d", x.id, len(x.headers), len(m.Headers))
	}
	for i, h := range x.headers {
		if h.Key != m.Headers[i].Key || !bytes.Equal(h.Value, m.Headers[i].Value) {
			return fmt.Sprintf("id %x: header %d is %q=%x, submitted %q=%x", x.id, i, h.Key, h.Value, m.Headers[i].Key, m.Headers[i].Value)
		}
	}
	return ""
}

func (f *Fake) produce(ctx context.Context, r *produce.Request) (kafka.Response, error) {
	if len(r.Topics) != 1 || len(r.Topics[0].Partitions) != 1 {
		return nil, fmt.Errorf("fakert: produce request with %d topics", len(r.Topics))
	}
	topic := r.Topics[0].Topic
	part := &r.Topics[0].Partitions[0]
	tp := TP{Topic: topic, Partition: int(part.Partition)}
	recs, err := readRecords(&part.RecordSet)
	if err != nil {
		return nil, err
	}
	ids := make([]uint64, len(recs))
	for i := range recs {
		ids[i] = recs[i].id
	}

	// The request is handled when it is received: take the reaction (FIFO per
	// partition, in arrival order), apply it to the log and journal it. A
	// Delay then holds the answer back, outside the lock, for that long or
	// until the request's context is done, whichever comes first.
	f.mu.Lock()
	react := Reaction{Kind: AppliedAcked}
	if s := f.scripts[tp]; len(s) > 0 {
		react = s[0]
		f.scripts[tp] = s[1:]
	}
	f.touched[tp] = true
	f.produceCnt++
	f.inflight[tp]++
	if f.inflight[tp] > 1 {
		f.twoInFlight = true
	}
	defer func() { // runs with the lock released
		f.mu.Lock()
		f.inflight[tp]--
		f.mu.Unlock()
	}()
	if f.expected != nil && f.recAnomaly == "" {
		for _, x := range recs {
			m, ok := f.expected[x.id]
			if !ok {
				f.recAnomaly = fmt.Sprintf("id %x was never submitted", x.id)
				break
			}
			if d := diffRecord(x, m); d != "" {
				f.recAnomaly = d
				break
			}
		}
	}
	if react.Kind == Held {
		// The request is on its way for Delay, whatever its context says; it
		// is applied, journalled and acknowledged only when it lands.
		f.mu.Unlock()
		time.Sleep(react.Delay)
		f.mu.Lock()
		react = Reaction{Kind: AppliedAcked}
	}
	base := int64(len(f.logs[tp]))
	applied := react.Kind == AppliedAcked || react.Kind == AppliedLost
	if n, ok := f.topics[topic]; !ok || tp.Partition < 0 || tp.Partition >= n {
		// unknown topic or partition: a broker would reject it
		react = Reaction{Kind: RejectedCode, Code: Enc(int(kafka.UnknownTopicOrPartition))}
		applied = false
	}
	if applied {
		f.logs[tp] = append(f.logs[tp], ids...)
	}
	if react.Kind == AppliedAcked {
		for i, id := range ids {
			f.acked[id] = AckedAt{TP: tp, Offset: base + int64(i)}
		}
	}
	seen := 0        // encoded
	wire := int16(0) // partition ErrorCode of the response
	var goErr error
	switch react.Kind {
	case AppliedLost, NotApplied:
		goErr = ErrOf(react.Code)
		seen = react.Code
	case RejectedCode:
		seen = react.Code
		wire = int16(Dec(react.Code))
	}
	att := Attempt{Topic: topic, Partition: tp.Partition, IDs: ids, Applied: applied, Seen: seen}
	tnum, ok := f.topicNum[topic]
	tname := fmt.Sprintf("%x", tnum)
	if !ok {
		tname = "?" + topic
	}
	att.Seq = f.hist.Do(func(int) string { return FormatAttempt(tname, att) })
	f.journal = append(f.journal, att)
	jidx := len(f.journal) - 1
	f.mu.Unlock()

	if react.Delay > 0 {
		t := time.NewTimer(react.Delay)
		select {
		case <-t.C:
		case <-ctx.Done():
			// The client gave up first: it sees its context's error, whatever
			// the broker did with the request.
			t.Stop()
			goErr = ctx.Err()
			f.mu.Lock()
			att.Seen = Classify(goErr)
			f.journal[jidx] = att
			if react.Kind == AppliedAcked {
				for _, id := range ids {
					delete(f.acked, id)
				}
			}
			f.mu.Unlock()
			f.hist.Patch(att.Seq, FormatAttempt(tname, att))
		}
	}

	if goErr != nil {
		return nil, goErr
	}
	return &produce.Response{
		Topics: []produce.ResponseTopic{{
			Topic: topic,
			Partitions: []produce.ResponsePartition{{
				Partition:  part.Partition,
				ErrorCode:  wire,
				BaseOffset: base,
			}},
		}},
	}, nil
}

// IDs formats a list of ids: hex joined with ';', "." when empty.
func IDs(ids []uint64) string {
	if len(ids) == 0 {
		return "."
	}
	s := make([]string, len(ids))
	for i, id := range ids {
		s[i] = fmt.Sprintf("%x", id)
	}
	return strings.Join(s, ";")
}

// FormatAttempt renders the A event of a produce attempt.
func FormatAttempt(topic string, a Attempt) string {
	ap := "0"
	if a.Applied {
		ap = "1"
	}
	seen := "-"
	if a.Seen != 0 {
		seen = fmt.Sprintf("%x", a.Seen)
	}
	return fmt.Sprintf("A%s.%x:%s:%s:%s", topic, a.Partition, ap, seen, IDs(a.IDs))
}
