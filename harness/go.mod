module kverif

go 1.23.0

require (
	github.com/klauspost/compress v1.15.9
	github.com/pierrec/lz4/v4 v4.1.15
	github.com/segmentio/kafka-go v0.0.0
	golang.org/x/tools v0.29.0
)

require (
	github.com/xdg-go/pbkdf2 v1.0.0 // indirect
	github.com/xdg-go/scram v1.1.2 // indirect
	github.com/xdg-go/stringprep v1.0.4 // indirect
	golang.org/x/mod v0.22.0 // indirect
	golang.org/x/sync v0.12.0 // indirect
	golang.org/x/text v0.23.0 // indirect
)

replace github.com/segmentio/kafka-go => /repo

replace golang.org/x/sync => golang.org/x/sync v0.10.0
