// Package kvfmt formats values for the Go <-> extracted-model interchange:
// numbers in hex, byte strings as hex pairs, "-" = nil, "." = empty.
package kvfmt

import (
	"encoding/hex"
	"fmt"
	"sort"
	"strings"
)

func U(v uint64) string { return fmt.Sprintf("%x", v) }

func I(v int64) string {
	if v < 0 {
		// -v overflows only for MinInt64; print via uint64 arithmetic
		return fmt.Sprintf("-%x", uint64(-(v+1))+1)
	}
	return fmt.Sprintf("%x", v)
}

func Bool(b bool) string {
	if b {
		return "1"
	}
	return "0"
}

// Bytes: "." for empty or nil.
func Bytes(b []byte) string {
	if len(b) == 0 {
		return "."
	}
	return hex.EncodeToString(b)
}

// OptBytes: "-" for nil, "." for empty non-nil.
func OptBytes(b []byte) string {
	if b == nil {
		return "-"
	}
	return Bytes(b)
}

func Ints(l []int) string {
	if len(l) == 0 {
		return "."
	}
	s := make([]string, len(l))
	for i, v := range l {
		s[i] = I(int64(v))
	}
	return strings.Join(s, ",")
}

func Int64s(l []int64) string {
	if len(l) == 0 {
		return "."
	}
	s := make([]string, len(l))
	for i, v := range l {
		s[i] = I(v)
	}
	return strings.Join(s, ",")
}

func Set(m map[string]bool) string {
	k := make([]string, 0, len(m))
	for s := range m {
		k = append(k, s)
	}
	sort.Strings(k)
	return strings.Join(k, ",")
}
