// Package schemawalk derives, from the Go types registered in /repo/protocol, the
// per-version wire schema exactly as structEncodeFuncOf/structDecodeFuncOf select
// it (field order, version ranges, nullable, tag ids, the flexible flag), prints it
// as a Gallina term (translator `vgen schema`), and generates / prints values of
// those types in the neutral text form shared with the extracted Coq model.
package schemawalk

import (
	"encoding/hex"
	"fmt"
	"math"
	"math/rand"
	"reflect"
	"sort"
	"strings"

	"github.com/segmentio/kafka-go/protocol"

	// every package that registers message types
	_ "github.com/segmentio/kafka-go/protocol/addoffsetstotxn"
	_ "github.com/segmentio/kafka-go/protocol/addpartitionstotxn"
	_ "github.com/segmentio/kafka-go/protocol/alterclientquotas"
	_ "github.com/segmentio/kafka-go/protocol/alterconfigs"
	_ "github.com/segmentio/kafka-go/protocol/alterpartitionreassignments"
	_ "github.com/segmentio/kafka-go/protocol/alteruserscramcredentials"
	_ "github.com/segmentio/kafka-go/protocol/apiversions"
	_ "github.com/segmentio/kafka-go/protocol/createacls"
	_ "github.com/segmentio/kafka-go/protocol/createpartitions"
	_ "github.com/segmentio/kafka-go/protocol/createtopics"
	_ "github.com/segmentio/kafka-go/protocol/deleteacls"
	_ "github.com/segmentio/kafka-go/protocol/deletegroups"
	_ "github.com/segmentio/kafka-go/protocol/deletetopics"
	_ "github.com/segmentio/kafka-go/protocol/describeacls"
	_ "github.com/segmentio/kafka-go/protocol/describeclientquotas"
	_ "github.com/segmentio/kafka-go/protocol/describeconfigs"
	_ "github.com/segmentio/kafka-go/protocol/describegroups"
	_ "github.com/segmentio/kafka-go/protocol/describeuserscramcredentials"
	_ "github.com/segmentio/kafka-go/protocol/electleaders"
	_ "github.com/segmentio/kafka-go/protocol/endtxn"
	_ "github.com/segmentio/kafka-go/protocol/fetch"
	_ "github.com/segmentio/kafka-go/protocol/findcoordinator"
	_ "github.com/segmentio/kafka-go/protocol/heartbeat"
	_ "github.com/segmentio/kafka-go/protocol/incrementalalterconfigs"
	_ "github.com/segmentio/kafka-go/protocol/initproducerid"
	_ "github.com/segmentio/kafka-go/protocol/joingroup"
	_ "github.com/segmentio/kafka-go/protocol/leavegroup"
	_ "github.com/segmentio/kafka-go/protocol/listgroups"
	_ "github.com/segmentio/kafka-go/protocol/listoffsets"
	_ "github.com/segmentio/kafka-go/protocol/listpartitionreassignments"
	_ "github.com/segmentio/kafka-go/protocol/metadata"
	_ "github.com/segmentio/kafka-go/protocol/offsetcommit"
	_ "github.com/segmentio/kafka-go/protocol/offsetdelete"
	_ "github.com/segmentio/kafka-go/protocol/offsetfetch"
	_ "github.com/segmentio/kafka-go/protocol/produce"
	_ "github.com/segmentio/kafka-go/protocol/rawproduce"
	_ "github.com/segmentio/kafka-go/protocol/saslauthenticate"
	_ "github.com/segmentio/kafka-go/protocol/saslhandshake"
	_ "github.com/segmentio/kafka-go/protocol/syncgroup"
	_ "github.com/segmentio/kafka-go/protocol/txnoffsetcommit"
)

type Ty struct {
	Kind     string // bool int float string bytes array struct marker records
	W        int    // int width in bytes
	Nullable bool
	ESize    uintptr
	Elem     *Ty
	Fields   []Field
	Tagged   []Field
	Raw      bool
	Go       reflect.Type
}

type Field struct {
	Ord   int // ordinal in Go's t.Field(i)
	TagID int
	Ty    *Ty
}

// Schema is one (api, direction, version) entry.
type Schema struct {
	Api      int
	Override int
	Response bool
	Version  int
	Flexible bool
	Ty       *Ty
	Go       reflect.Type
}

func Of(typ reflect.Type, version int16, flexible bool, tag protocol.VerifStructTag) *Ty {
	if protocol.VerifIsReaderFrom(typ) || protocol.VerifIsWriterTo(typ) {
		if !(protocol.VerifIsReaderFrom(typ) && protocol.VerifIsWriterTo(typ)) {
			panic("escape type implementing only one of ReaderFrom/WriterTo: " + typ.String())
		}
		return &Ty{Kind: "records", Raw: strings.Contains(typ.Name(), "Raw"), Go: typ}
	}
	switch typ.Kind() {
	case reflect.Bool:
		return &Ty{Kind: "bool", Go: typ}
	case reflect.Int8:
		return &Ty{Kind: "int", W: 1, Go: typ}
	case reflect.Int16:
		return &Ty{Kind: "int", W: 2, Go: typ}
	case reflect.Int32:
		return &Ty{Kind: "int", W: 4, Go: typ}
	case reflect.Int64:
		return &Ty{Kind: "int", W: 8, Go: typ}
	case reflect.Float64:
		return &Ty{Kind: "float", Go: typ}
	case reflect.String:
		return &Ty{Kind: "string", Nullable: tag.Nullable, Go: typ}
	case reflect.Struct:
		return StructOf(typ, version, flexible)
	case reflect.Slice:
		if typ.Elem().Kind() == reflect.Uint8 {
			return &Ty{Kind: "bytes", Nullable: tag.Nullable, Go: typ}
		}
		return &Ty{Kind: "array", Nullable: tag.Nullable, ESize: typ.Elem().Size(),
			Elem: Of(typ.Elem(), version, flexible, tag), Go: typ}
	default:
		panic("unsupported type: " + typ.String())
	}
}

func StructOf(typ reflect.Type, version int16, flexible bool) *Ty {
	t := &Ty{Kind: "struct", Go: typ}
	protocol.VerifForEachStructField(typ, func(ft reflect.Type, ord int, tag string) {
		protocol.VerifForEachStructTag(tag, func(st protocol.VerifStructTag) bool {
			if st.MinVersion <= version && version <= st.MaxVersion {
				var fty *Ty
				if ft.Size() == 0 { // skipped by the encoder, decoded as an empty struct
					if ft.Kind() != reflect.Struct || ft.NumField() != 0 {
						panic("zero-size field that is not struct{}: " + typ.String())
					}
					fty = &Ty{Kind: "marker", Go: ft}
				} else {
					fty = Of(ft, version, flexible, st)
				}
				f := Field{Ord: ord, TagID: st.TagID, Ty: fty}
				if st.TagID < -1 {
					t.Fields = append(t.Fields, f)
				} else {
					t.Tagged = append(t.Tagged, f)
				}
				return false
			}
			return true
		})
	})
	return t
}

// Schemas lists every registered (api, direction, version), sorted.
func Schemas() []Schema {
	var out []Schema
	for _, at := range protocol.VerifApiTypes() {
		for _, m := range at.Requests {
			out = append(out, Schema{Api: int(at.Key), Override: at.Override, Response: false, Version: int(m.Version),
				Flexible: m.Flexible, Ty: Of(m.Type, m.Version, m.Flexible, protocol.VerifStructTag{}), Go: m.Type})
		}
		for _, m := range at.Responses {
			out = append(out, Schema{Api: int(at.Key), Override: at.Override, Response: true, Version: int(m.Version),
				Flexible: m.Flexible, Ty: Of(m.Type, m.Version, m.Flexible, protocol.VerifStructTag{}), Go: m.Type})
		}
	}
	sort.SliceStable(out, func(i, j int) bool {
		a, b := out[i], out[j]
		if a.Api != b.Api {
			return a.Api < b.Api
		}
		if a.Override != b.Override {
			return a.Override < b.Override
		}
		if a.Response != b.Response {
			return !a.Response
		}
		return a.Version < b.Version
	})
	return out
}

func coqBool(b bool) string {
	if b {
		return "true"
	}
	return "false"
}

func coqZ(i int) string {
	if i < 0 {
		return fmt.Sprintf("(%d)%%Z", i)
	}
	return fmt.Sprintf("%d%%Z", i)
}

// Coq renders the type as a Gallina term of type Schema.ty.
func (t *Ty) Coq() string {
	switch t.Kind {
	case "bool":
		return "TBool"
	case "int":
		return fmt.Sprintf("(TInt %d)", t.W)
	case "float":
		return "TFloat64"
	case "string":
		return "(TString " + coqBool(t.Nullable) + ")"
	case "bytes":
		return "(TBytes " + coqBool(t.Nullable) + ")"
	case "array":
		return fmt.Sprintf("(TArray %s %d%%N %s)", coqBool(t.Nullable), t.ESize, t.Elem.Coq())
	case "marker":
		return "TMarker"
	case "records":
		return "(TRecords " + coqBool(t.Raw) + ")"
	case "struct":
		fs := make([]string, len(t.Fields))
		for i, f := range t.Fields {
			fs[i] = f.Ty.Coq()
		}
		ts := make([]string, len(t.Tagged))
		for i, f := range t.Tagged {
			ts[i] = "(" + coqZ(f.TagID) + ", " + f.Ty.Coq() + ")"
		}
		return "(TStruct [" + strings.Join(fs, "; ") + "] [" + strings.Join(ts, "; ") + "])"
	}
	panic("bad kind " + t.Kind)
}

// HasRecords reports whether the type contains a RecordSet anywhere.
func (t *Ty) HasRecords() bool {
	switch t.Kind {
	case "records":
		return true
	case "array":
		return t.Elem.HasRecords()
	case "struct":
		for _, f := range t.Fields {
			if f.Ty.HasRecords() {
				return true
			}
		}
		for _, f := range t.Tagged {
			if f.Ty.HasRecords() {
				return true
			}
		}
	}
	return false
}

// ---------------------------------------------------------------- values

type GenOpts struct {
	MaxArray int
	MaxBytes int
	Feats    map[string]bool
}

func boundaryInt(r *rand.Rand, w int) int64 {
	bits := uint(8 * w)
	min := -(int64(1) << (bits - 1))
	max := int64(1)<<(bits-1) - 1
	switch r.Intn(8) {
	case 0:
		return 0
	case 1:
		return -1
	case 2:
		return min
	case 3:
		return max
	case 4:
		return int64(r.Intn(100))
	default:
		if w == 8 {
			return int64(r.Uint64())
		}
		return min + int64(r.Uint64()%uint64(max-min+1))
	}
}

func genBytes(r *rand.Rand, o *GenOpts) []byte {
	n := 0
	switch r.Intn(6) {
	case 0:
		n = 0
	case 1:
		n = 1
	case 2:
		n = 126 + r.Intn(4) // around the 1-byte varint boundary of the compact length
	case 3:
		n = r.Intn(o.MaxBytes + 1)
	default:
		n = r.Intn(12)
	}
	b := make([]byte, n)
	r.Read(b)
	return b
}

// Gen fills v (addressable) with a random value of type t.
func Gen(r *rand.Rand, t *Ty, v reflect.Value, o *GenOpts, depth int) {
	switch t.Kind {
	case "bool":
		v.SetBool(r.Intn(2) == 1)
	case "int":
		x := boundaryInt(r, t.W)
		v.SetInt(x)
		if x < 0 {
			o.Feats["neg-int"] = true
		}
	case "float":
		v.SetFloat(math.Float64frombits(r.Uint64()&^(0x7ff<<52) | uint64(r.Intn(0x7ff))<<52)) // never NaN/Inf bit patterns that do not round-trip textually
	case "string":
		b := genBytes(r, o)
		v.SetString(string(b))
		if len(b) == 0 {
			o.Feats["empty-string"] = true
		}
		if len(b) >= 127 {
			o.Feats["long-string"] = true
		}
	case "bytes":
		switch r.Intn(4) {
		case 0:
			v.SetBytes(nil)
			o.Feats["nil-bytes"] = true
		case 1:
			v.SetBytes([]byte{})
			o.Feats["empty-bytes"] = true
		default:
			v.SetBytes(genBytes(r, o))
		}
	case "array":
		n := 0
		switch r.Intn(5) {
		case 0:
			v.Set(reflect.Zero(v.Type()))
			o.Feats["nil-array"] = true
			return
		case 1:
			n = 0
			o.Feats["empty-array"] = true
		case 2:
			n = 1
		default:
			n = r.Intn(o.MaxArray + 1)
		}
		if depth > 2 && n > 2 {
			n = 2
		}
		if t.Elem.HasRecords() {
			// an empty RecordSet cannot be encoded (ErrNoRecord); record sets are C05's
			// business, here the arrays that would contain one stay empty
			n = 0
		}
		s := reflect.MakeSlice(v.Type(), n, n)
		for i := 0; i < n; i++ {
			Gen(r, t.Elem, s.Index(i), o, depth+1)
		}
		if n > 1 {
			o.Feats["multi-array"] = true
		}
		if depth > 0 {
			o.Feats["nested-array"] = true
		}
		v.Set(s)
	case "struct":
		for _, f := range t.Fields {
			Gen(r, f.Ty, v.Field(f.Ord), o, depth)
		}
		for _, f := range t.Tagged {
			if f.Ty.Kind != "marker" {
				Gen(r, f.Ty, v.Field(f.Ord), o, depth)
				o.Feats["tagged-field"] = true
			}
		}
	case "marker":
	case "records":
		if t.Raw {
			v.Set(reflect.ValueOf(protocol.RawRecordSet{Reader: strings.NewReader("\x00\x00\x00\x00")}))
		} else {
			v.Set(reflect.ValueOf(protocol.RecordSet{Version: 2, Records: protocol.NewRecordReader()}))
		}
		o.Feats["record-set"] = true
	}
}

func hexOr(b []byte, empty string) string {
	if len(b) == 0 {
		return empty
	}
	return hex.EncodeToString(b)
}

func fmtI(v int64) string {
	if v < 0 {
		return fmt.Sprintf("-%x", uint64(-(v+1))+1)
	}
	return fmt.Sprintf("%x", v)
}

// Print renders v in the neutral text form: comma separated tokens, pre-order.
// Arrays are printed as A<n>:<k> followed by k elements, where the n-k trailing
// elements are zero values (canonical form shared with the model's `pad`).
func Print(t *Ty, v reflect.Value, out *[]string) { printv(t, v, out, false) }

// PrintDecoded is Print for a value that came out of the decoder (record sets of
// size <= 0 decode to the zero RecordSet).
func PrintDecoded(t *Ty, v reflect.Value) string {
	var out []string
	printv(t, v, &out, true)
	return strings.Join(out, ",")
}

func printv(t *Ty, v reflect.Value, out *[]string, decoded bool) {
	switch t.Kind {
	case "bool":
		if v.Bool() {
			*out = append(*out, "T")
		} else {
			*out = append(*out, "F")
		}
	case "int":
		*out = append(*out, "I"+fmtI(v.Int()))
	case "float":
		*out = append(*out, fmt.Sprintf("D%x", math.Float64bits(v.Float())))
	case "string":
		*out = append(*out, "S"+hexOr([]byte(v.String()), "."))
	case "bytes":
		if v.IsNil() {
			*out = append(*out, "B-")
		} else {
			*out = append(*out, "B"+hexOr(v.Bytes(), "."))
		}
	case "array":
		if v.IsNil() {
			*out = append(*out, "A-")
			return
		}
		n := v.Len()
		k := n
		for k > 0 && v.Index(k-1).IsZero() {
			k--
		}
		*out = append(*out, fmt.Sprintf("A%x:%x", n, k))
		for i := 0; i < k; i++ {
			printv(t.Elem, v.Index(i), out, decoded)
		}
	case "struct":
		*out = append(*out, fmt.Sprintf("R%x:%x", len(t.Fields), len(t.Tagged)))
		for _, f := range t.Fields {
			printv(f.Ty, v.Field(f.Ord), out, decoded)
		}
		for _, f := range t.Tagged {
			printv(f.Ty, v.Field(f.Ord), out, decoded)
		}
	case "marker":
		*out = append(*out, "U")
	case "records":
		// only absent/empty sets are generated at this level (C05 covers records)
		if decoded {
			*out = append(*out, "O.")
		} else {
			*out = append(*out, "O00000000")
		}
	}
}

func PrintValue(t *Ty, v reflect.Value) string {
	var out []string
	Print(t, v, &out)
	return strings.Join(out, ",")
}
