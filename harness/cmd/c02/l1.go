package main

import (
	"bytes"
	"encoding/binary"
	"errors"
	"fmt"
	"io"
	"math/rand"
	"net"
	"os"
	"sort"
	"strings"
	"time"

	kafka "github.com/segmentio/kafka-go"
	"kverif/fetchfake"
	"kverif/kvfmt"
)

// scriptConn is a synchronous in-memory peer for one kafka.Conn: every complete request frame
// written by the client is answered at once into the read buffer (ApiVersions, Fetch); when
// the scripted bytes are exhausted Read reports io.EOF (the connection was cut).
type scriptConn struct {
	in       bytes.Buffer // requests, not yet parsed
	out      bytes.Buffer // responses, not yet read
	fetchVer int16
	hwm      int64
	declared int    // announced message set size
	set      []byte // message set bytes physically delivered
	fetchOff []int64
	delay    time.Duration // sleep before answering a fetch (lets the read deadline pass)
	closed   bool
	hdr      *hdrOpt // the other fields of the partition header (nil: last stable offset = hwm, log start 0, no aborted list)
	// multi-fetch mode (the io.Reader style family): every fetch is answered from the layout
	layout   fetchfake.Layout
	enc      *fetchfake.Encoder
	sent     [][]byte // the message set sent for each fetch
}

// hdrOpt: the fields of a v4+ fetch response partition header the client must NOT take for the
// high watermark.
type hdrOpt struct {
	lso, logStart int64
	aborted       [][2]int64 // producer id, first offset
}

func (h *hdrOpt) String() string {
	ab := "."
	if len(h.aborted) > 0 {
		var p []string
		for _, a := range h.aborted {
			p = append(p, kvfmt.I(a[0])+":"+kvfmt.I(a[1]))
		}
		ab = strings.Join(p, "+")
	}
	return fmt.Sprintf(" lso=%s ls=%s ab=%s", kvfmt.I(h.lso), kvfmt.I(h.logStart), ab)
}

// curHdr: header fields used by emitL1 / oneFetch for the cases being generated.
var curHdr *hdrOpt

type fakeAddr struct{}

func (fakeAddr) Network() string { return "tcp" }
func (fakeAddr) String() string  { return "fake:9092" }

func (c *scriptConn) Read(b []byte) (int, error) {
	if c.out.Len() == 0 {
		return 0, io.EOF
	}
	return c.out.Read(b)
}
func (c *scriptConn) Close() error                       { c.closed = true; return nil }
func (c *scriptConn) LocalAddr() net.Addr                { return fakeAddr{} }
func (c *scriptConn) RemoteAddr() net.Addr               { return fakeAddr{} }
func (c *scriptConn) SetDeadline(t time.Time) error      { return nil }
func (c *scriptConn) SetReadDeadline(t time.Time) error  { return nil }
func (c *scriptConn) SetWriteDeadline(t time.Time) error { return nil }

func (c *scriptConn) Write(b []byte) (int, error) {
	c.in.Write(b)
	for {
		buf := c.in.Bytes()
		if len(buf) < 4 {
			break
		}
		sz := int(binary.BigEndian.Uint32(buf))
		if len(buf) < 4+sz {
			break
		}
		req := append([]byte{}, buf[4:4+sz]...)
		c.in.Next(4 + sz)
		c.answer(req)
	}
	return len(b), nil
}

func be(w int, v int64) []byte {
	var t [8]byte
	binary.BigEndian.PutUint64(t[:], uint64(v))
	return append([]byte{}, t[8-w:]...)
}

func (c *scriptConn) answer(req []byte) {
	key := int16(binary.BigEndian.Uint16(req[0:]))
	ver := int16(binary.BigEndian.Uint16(req[2:]))
	corr := req[4:8]
	cidLen := int(int16(binary.BigEndian.Uint16(req[8:])))
	p := 10
	if cidLen > 0 {
		p += cidLen
	}
	var body bytes.Buffer
	switch key {
	case 18: // ApiVersions v0
		body.Write(be(2, 0))
		keys := [][3]int16{{0, 0, 7}, {1, 0, c.fetchVer}, {2, 0, 1}, {3, 0, 1}, {18, 0, 0}}
		body.Write(be(4, int64(len(keys))))
		for _, k := range keys {
			body.Write(be(2, int64(k[0])))
			body.Write(be(2, int64(k[1])))
			body.Write(be(2, int64(k[2])))
		}
	case 1: // Fetch
		if c.delay > 0 {
			time.Sleep(c.delay)
		}
		if ver != c.fetchVer {
			panic(fmt.Sprintf("fetch version %d, expected %d", ver, c.fetchVer))
		}
		// fetch offset: v2: replica(4) maxwait(4) minbytes(4) topics(4) name partitions(4) partition(4) offset(8)
		q := p + 12
		if ver >= 3 {
			q += 4 // max bytes
		}
		if ver >= 4 {
			q++ // isolation
		}
		if ver >= 7 {
			q += 8 // session id, epoch
		}
		q += 4
		tl := int(binary.BigEndian.Uint16(req[q:]))
		q += 2 + tl + 4 + 4
		if ver >= 9 {
			q += 4 // current leader epoch
		}
		c.fetchOff = append(c.fetchOff, int64(binary.BigEndian.Uint64(req[q:])))
		body.Write(be(4, 0)) // throttle
		if ver >= 7 {
			body.Write(be(2, 0)) // error code
			body.Write(be(4, 0)) // session id
		}
		body.Write(be(4, 1))
		body.Write(be(2, 1))
		body.WriteString("t")
		body.Write(be(4, 1))
		body.Write(be(4, 0)) // partition
		body.Write(be(2, 0)) // error
		body.Write(be(8, c.hwm))
		lso, ls := c.hwm, int64(0)
		var aborted [][2]int64
		if c.hdr != nil {
			lso, ls, aborted = c.hdr.lso, c.hdr.logStart, c.hdr.aborted
		}
		if ver >= 4 {
			body.Write(be(8, lso)) // last stable offset
		}
		if ver >= 5 {
			body.Write(be(8, ls)) // log start offset
		}
		if ver >= 4 {
			if aborted == nil {
				body.Write(be(4, -1)) // aborted transactions: null
			} else {
				body.Write(be(4, int64(len(aborted))))
				for _, a := range aborted {
					body.Write(be(8, a[0]))
					body.Write(be(8, a[1]))
				}
			}
		}
		set, declared := c.set, c.declared
		if c.layout != nil {
			// multi-fetch mode: the batches at the requested offset
			set, _ = c.enc.Encode(c.layout.FromOffset(c.fetchOff[len(c.fetchOff)-1]))
			declared = len(set)
			c.sent = append(c.sent, set)
		}
		body.Write(be(4, int64(declared)))
		c.out.Write(be(4, int64(4+body.Len()+declared)))
		c.out.Write(corr)
		c.out.Write(body.Bytes())
		c.out.Write(set)
		return
	default:
		panic(fmt.Sprintf("scriptConn: unexpected api key %d", key))
	}
	c.out.Write(be(4, int64(4+body.Len())))
	c.out.Write(corr)
	c.out.Write(body.Bytes())
}

func errClass(err error) string {
	var ke kafka.Error
	switch {
	case err == nil:
		return "nil"
	case errors.Is(err, io.EOF):
		return "eof"
	case errors.Is(err, kafka.RequestTimedOut):
		return "timeout"
	case errors.As(err, &ke):
		return "k" + kvfmt.I(int64(ke))
	}
	return "fail"
}

func msgString(m kafka.Message) string {
	ts := int64(0)
	if !m.Time.IsZero() {
		ts = m.Time.UnixMilli()
	}
	hs := make([]fetchfake.Header, len(m.Headers))
	for i, h := range m.Headers {
		hs[i] = fetchfake.Header{Key: []byte(h.Key), Value: h.Value}
	}
	return fetchfake.MsgString(m.Offset, ts, m.Key, m.Value, hs)
}

func offString(c *kafka.Conn) string {
	o, w := c.Offset()
	switch w {
	case kafka.SeekStart:
		return "start"
	case kafka.SeekEnd:
		return "end"
	}
	return kvfmt.I(o)
}

// oneFetch runs the real Conn.ReadBatch / Batch.ReadMessage / Batch.Close on one scripted
// fetch response: "<msgs>;<final error class>;<conn.Offset() after Close>;<Close result class>;<conn closed 0/1>".
// oneFetch runs oneFetchUnguarded under a watchdog: a ReadBatch / ReadMessage / Close that does
// not return within 5 s is the result class "HANG" (the scripted connection never blocks, so this
// is a loop without progress in the library); after three of them the run stops, since every
// abandoned call keeps a core busy.
var hungFetches int

func oneFetch(ver int16, off, hwm int64, declared int, set []byte, late bool) (res string, reqOff int64) {
	type result struct {
		res string
		off int64
	}
	ch := make(chan result, 1)
	go func() {
		r, o := oneFetchUnguarded(ver, off, hwm, declared, set, late)
		ch <- result{r, o}
	}()
	select {
	case r := <-ch:
		return r.res, r.off
	case <-time.After(5 * time.Second):
		hungFetches++
		if hungFetches >= 3 {
			emit("l1", "-", "HANG-breaker:three-fetches-did-not-return", "hang")
			out.Flush()
			fmt.Fprintln(os.Stderr, "c02: three fetch decodes did not return within 5 s each (loop without progress in Conn.ReadBatch/Batch.ReadMessage/Close); stopping")
			os.Exit(4)
		}
		return "HANG", -999
	}
}

func oneFetchUnguarded(ver int16, off, hwm int64, declared int, set []byte, late bool) (res string, reqOff int64) {
	sc := &scriptConn{fetchVer: ver, hwm: hwm, declared: declared, set: set, hdr: curHdr}
	defer func() {
		if p := recover(); p != nil {
			res = "panic"
		}
	}()
	conn := kafka.NewConnWith(sc, kafka.ConnConfig{Topic: "t", Partition: 0})
	if _, err := conn.Seek(off, kafka.SeekAbsolute|kafka.SeekDontCheck); err != nil {
		return "SEEKERR", 0
	}
	if late {
		sc.delay = 3 * time.Millisecond
		conn.SetReadDeadline(time.Now().Add(time.Millisecond))
	}
	batch := conn.ReadBatch(1, 1<<20)
	var ms []string
	var err error
	for i := 0; i < 1000000; i++ {
		var m kafka.Message
		m, err = batch.ReadMessage()
		if err != nil {
			break
		}
		ms = append(ms, msgString(m))
	}
	bo := batch.Offset()
	cerr := batch.Close()
	co := offString(conn)
	if co != kvfmt.I(bo) && co != "start" && co != "end" {
		return "BATCHOFF!=CONNOFF", 0
	}
	if len(sc.fetchOff) == 1 {
		reqOff = sc.fetchOff[0]
	} else {
		reqOff = -999
	}
	s := "."
	if len(ms) > 0 {
		s = strings.Join(ms, ",")
	}
	// <msgs>;<error of the last ReadMessage>;<Conn.Offset after Close>;<Batch.Close result>;<did the library close the connection>
	return s + ";" + errClass(err) + ";" + co + ";" + errClass(cerr) + ";" + kvfmt.Bool(sc.closed), reqOff
}

func layoutFeats(l fetchfake.Layout) []string {
	seen := map[string]bool{}
	for _, b := range l {
		seen[fmt.Sprintf("f%d", b.Fmt)] = true
		if b.Codec != 0 {
			seen[fmt.Sprintf("codec%d", b.Codec)] = true
		}
		if len(b.Recs) == 0 {
			seen["emptybatch"] = true
		}
		if b.Fmt == 2 && len(b.Recs) > 0 && b.Recs[len(b.Recs)-1].Off < b.Base+b.Lod {
			seen["tailhole"] = true
		}
		if len(b.Recs) > 0 && b.Recs[0].Off > b.Base {
			seen["headhole"] = true
		}
		for i := 1; i < len(b.Recs); i++ {
			if b.Recs[i].Off != b.Recs[i-1].Off+1 {
				seen["hole"] = true
			}
		}
	}
	var fs []string
	for k := range seen {
		fs = append(fs, k)
	}
	sort.Strings(fs)
	return fs
}

func emitL1(ver int16, off, hwm int64, declared int, set []byte, late bool, blobs []fetchfake.Blob, feats []string, extra string) {
	res, reqOff := oneFetch(ver, off, hwm, declared, set, late)
	if reqOff != off && res != "panic" && res != "SEEKERR" {
		res = fmt.Sprintf("REQOFF=%d;", reqOff) + res
	}
	if curHdr != nil {
		extra = curHdr.String() + extra
	}
	args := fmt.Sprintf("v=%d off=%s hwm=%s declared=%s late=%s blobs=%s bytes=%s%s", ver, kvfmt.I(off), kvfmt.I(hwm),
		kvfmt.I(int64(declared)), kvfmt.Bool(late), fetchfake.BlobsString(blobs), kvfmt.Bytes(set), extra)
	emit("l1", args, res, strings.Join(feats, ","))
}

func runL1(r *rand.Rand, n int) {
	vers := []int16{2, 5, 10}
	for it := 0; it < n; it++ {
		o := fetchfake.GenOpts{MaxBatch: 1 + r.Intn(4), Holes: r.Intn(2) == 0, Empties: r.Intn(3) == 0,
			BigValues: r.Intn(5) == 0, StartOff: int64(r.Intn(50)), Unordered: r.Intn(8) == 0}
		switch r.Intn(5) {
		case 0:
			o.Formats, o.Codecs = []int{2}, []int{0}
		case 1:
			o.Formats, o.Codecs = []int{0, 1}, []int{0}
		case 2:
			o.Formats, o.Codecs = []int{2}, []int{0, 1, 2, 3, 4}
		case 3:
			o.Formats, o.Codecs = []int{0, 1}, []int{0, 1, 2, 3, 4}
		default:
			o.Formats, o.Codecs = []int{0, 1, 2}, []int{0, 0, 1, 2, 3, 4}
		}
		nrec := 1 + r.Intn(8)
		if r.Intn(6) == 0 {
			nrec = 10 + r.Intn(40)
		}
		l := fetchfake.GenLayout(r, nrec, o)
		if len(l) == 0 {
			continue
		}
		endOff := l[len(l)-1].Base + l[len(l)-1].Lod + 1
		// fetch offset: anywhere from the start of the layout to its end
		off := l[0].Base + int64(r.Intn(int(endOff-l[0].Base)+1))
		if r.Intn(3) == 0 {
			off = l[0].Base
		}
		sub := l.FromOffset(off)
		var enc fetchfake.Encoder
		all, first := enc.Encode(sub)
		ver := vers[r.Intn(3)]
		hwm := endOff + int64(r.Intn(2))
		feats := append(layoutFeats(sub), fmt.Sprintf("fv=%d", ver))
		curHdr = nil
		if ver >= 5 && r.Intn(3) == 0 {
			// an open transaction: the last stable offset is below the high watermark; half of the time
			// it is exactly the fetch offset.  Log start offset and aborted transactions vary too.
			h := &hdrOpt{lso: off, logStart: int64(r.Intn(int(off) + 1))}
			if r.Intn(2) == 0 {
				h.lso = l[0].Base + int64(r.Intn(int(hwm-l[0].Base)+1))
			}
			if h.lso == off {
				feats = append(feats, "lso=off")
			}
			if h.lso < hwm {
				feats = append(feats, "lso<hwm")
			}
			for i := r.Intn(3); i > 0; i-- {
				h.aborted = append(h.aborted, [2]int64{int64(1000 + r.Intn(50)), l[0].Base + int64(r.Intn(int(hwm-l[0].Base)+1))})
			}
			if len(h.aborted) > 0 {
				feats = append(feats, "aborted-list")
			}
			curHdr = h
		}
		if o.Unordered {
			feats = append(feats, "unordered-formats")
		}
		// the spec encoder against the reference encoder
		emit("enc", fmt.Sprintf("off=%s blobs=%s layout=%s", kvfmt.I(off), fetchfake.BlobsString(enc.Blobs), l.String()),
			kvfmt.Bytes(all), strings.Join(feats, ","))
		logArg := " log=" + fetchfake.RecordsString(l.Records())
		var cuts []int
		if len(all) <= 260 {
			for k := 0; k <= len(all); k++ {
				cuts = append(cuts, k)
			}
		} else {
			cuts = append(cuts, len(all), first)
			for i := 0; i < 14; i++ {
				cuts = append(cuts, r.Intn(len(all)+1))
			}
		}
		for _, k := range cuts {
			f := append([]string{}, feats...)
			switch {
			case k == len(all):
				f = append(f, "whole")
			case k < first:
				f = append(f, "cut<first")
			default:
				f = append(f, "cut")
			}
			emitL1(ver, off, hwm, k, all[:k], false, enc.Blobs, f, logArg)
		}
		// the connection is cut inside the announced message set
		for i := 0; i < 3 && len(all) > 0; i++ {
			k := r.Intn(len(all))
			emitL1(ver, off, hwm, len(all), all[:k], false, enc.Blobs, append(append([]string{}, feats...), "physcut"), logArg)
		}
		// the deadline has passed when the batch ends
		if r.Intn(4) == 0 {
			k := first + r.Intn(len(all)-first+1)
			emitL1(ver, off, hwm, k, all[:k], true, enc.Blobs, append(append([]string{}, feats...), "late"), logArg)
		}
		// high watermark equal to the fetch offset: the client does not look at the bytes
		if r.Intn(4) == 0 {
			emitL1(ver, off, off, len(all), all, false, enc.Blobs, append(append([]string{}, feats...), "hwm=off"), logArg)
		}
		curHdr = nil
	}
}

// runL1Sweep: small COMPRESSED v2 batches of every codec, the payload in one block and in two
// (the codec's writer flushed after half of the records: two xerial blocks, two lz4 blocks, a
// gzip / zstd flush point), as the only batch of the response, as the last one after an
// uncompressed batch and as a middle one; the connection is cut at EVERY physical byte position
// of the batch (61 header bytes and the compressed payload) while the announced message set size
// is the whole response.
func runL1Sweep(r *rand.Rand) {
	vers := []int16{2, 5, 10}
	val := func(i int) []byte { return []byte(fmt.Sprintf("value-%02d-%s", i, strings.Repeat(string(rune('a'+i%26)), 3+i%5))) }
	for codec := 1; codec <= 4; codec++ {
		for _, split := range []int{0, 3} {
			for _, place := range []string{"only", "last", "middle"} {
				base := int64(100 + r.Intn(50))
				ts := int64(1600000000000)
				var l fetchfake.Layout
				next := base
				mk := func(c, n int) fetchfake.PBatch {
					b := fetchfake.PBatch{Fmt: 2, Codec: c, Base: next, Lod: int64(n - 1), Ts: ts}
					for i := 0; i < n; i++ {
						b.Recs = append(b.Recs, fetchfake.Record{Off: next + int64(i), Ts: ts + int64(i), Key: []byte{byte(i)}, Val: val(int(next) + i)})
					}
					next += int64(n)
					return b
				}
				if place != "only" {
					l = append(l, mk(0, 2))
				}
				ti := len(l)
				l = append(l, mk(codec, 6))
				if place == "middle" {
					l = append(l, mk(0, 2))
				}
				offs := []int64{l[0].Base}
				if place == "only" {
					offs = append(offs, l[0].Base+2) // the fetch offset inside the compressed batch
				}
				for _, off := range offs {
					enc := fetchfake.Encoder{SplitRec: split}
					var all []byte
					start, end := 0, 0
					for i, b := range l {
						if i == ti {
							start = len(all)
						}
						all = append(all, enc.Batch(b)...)
						if i == ti {
							end = len(all)
						}
					}
					ver := vers[r.Intn(3)]
					hwm := next
					feats := append(layoutFeats(l), fmt.Sprintf("fv=%d", ver), "physcut", "sweep", "sweep-"+place)
					if split > 0 {
						feats = append(feats, "two-blocks")
					}
					logArg := " log=" + fetchfake.RecordsString(l.Records())
					for k := start; k <= end && k < len(all); k++ {
						f := append([]string{}, feats...)
						if k < start+61 {
							f = append(f, "cut-in-batch-header")
						} else {
							f = append(f, "cut-in-payload")
							// the positions where the codec's reader ends WITHOUT an error on the truncated payload
							// (regression: the batch was once taken for a complete one there, /repo 977b55d)
							if _, derr := fetchfake.Decompress(codec, all[start+61:k]); derr == nil {
								f = append(f, "codec-silent-end")
							}
						}
						emitL1(ver, off, hwm, len(all), all[:k], false, enc.Blobs, f, logArg)
					}
				}
			}
		}
	}
}

// replayL1 re-runs one recorded byte-level case on the real code.
func replayL1(cs string) {
	f := map[string]string{}
	for _, w := range strings.Fields(cs) {
		if i := strings.IndexByte(w, '='); i > 0 {
			f[w[:i]] = w[i+1:]
		}
	}
	num := func(s string) int64 {
		var v int64
		neg := strings.HasPrefix(s, "-")
		fmt.Sscanf(strings.TrimPrefix(s, "-"), "%x", &v)
		if neg {
			v = -v
		}
		return v
	}
	var set []byte
	if f["bytes"] != "." {
		fmt.Sscanf(f["bytes"], "%x", &set)
	}
	var ver int64
	fmt.Sscanf(f["v"], "%d", &ver)
	if f["lso"] != "" {
		h := &hdrOpt{lso: num(f["lso"]), logStart: num(f["ls"])}
		if f["ab"] != "." && f["ab"] != "" {
			for _, a := range strings.Split(f["ab"], "+") {
				p := strings.Split(a, ":")
				h.aborted = append(h.aborted, [2]int64{num(p[0]), num(p[1])})
			}
		}
		curHdr = h
	}
	res, req := oneFetch(int16(ver), num(f["off"]), num(f["hwm"]), int(num(f["declared"])), set, f["late"] == "1")
	fmt.Fprintf(out, "fetch issued at %d -> %s\n", req, res)
}
