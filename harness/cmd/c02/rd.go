package main

// The io.Reader style entry points of the byte level (op "rd"): Conn.Read and Batch.Read with
// buffers that are sometimes SHORTER than the next value, followed by a retry with a larger
// buffer on the same Conn.
//
// case:   rd mode=<connread|batchread> v=<2|5|10> pos=<start> hwm=<log end> blobs=.. log=<records>
//            calls=<fetch offset>:<message set hex>:<buflen>+<buflen>+...,<next batch>,...
//         one entry per batch (Conn.Read: one batch per call, one buffer length)
// result: <r>+<r>+...;<Batch.Offset() before Close|->;<Conn.Offset() after Close>;<Close result|->;<conn closed>,...
//         r: v<hex of the value> | short | end-<error class>
// (Conn.Read does not expose the batch: "-"; it returns (0, nil) at the end of a batch like for an
// empty value: both are "v".)

import (
	"errors"
	"fmt"
	"io"
	"math/rand"
	"strings"

	kafka "github.com/segmentio/kafka-go"
	"kverif/fetchfake"
	"kverif/kvfmt"
)

func rdErr(err error) string {
	if errors.Is(err, io.ErrShortBuffer) {
		return "shortbuf"
	}
	return errClass(err)
}

func runRd(r *rand.Rand, n int) {
	for it := 0; it < n; it++ {
		ver := []int16{2, 5, 10}[r.Intn(3)]
		o := fetchfake.GenOpts{MaxBatch: 1, StartOff: int64(r.Intn(200)), Holes: r.Intn(3) == 0}
		kind := "v2-single-record-batches"
		o.Formats, o.Codecs = []int{2}, []int{0}
		if it%2 == 1 {
			kind = "v0v1-messages"
			o.Formats, o.MaxBatch = []int{0, 1}, 1+r.Intn(4)
		}
		l := fetchfake.GenLayout(r, 3+r.Intn(6), o)
		recs := l.Records()
		if len(recs) == 0 {
			continue
		}
		end := l[len(l)-1].Last() + 1
		pi := r.Intn(len(recs))
		if r.Intn(2) == 0 {
			pi = 0
		}
		pos := recs[pi].Off
		mode := []string{"connread", "batchread"}[(it/2)%2]
		enc := &fetchfake.Encoder{}
		sc := &scriptConn{fetchVer: ver, hwm: end, layout: l, enc: enc}
		conn := kafka.NewConnWith(sc, kafka.ConnConfig{Topic: "t", Partition: 0})
		if _, err := conn.Seek(pos, kafka.SeekAbsolute|kafka.SeekDontCheck); err != nil {
			continue
		}
		feats := append(layoutFeats(l), fmt.Sprintf("fv=%d", ver), "rd", mode, kind)
		next := pi // index of the record not handed out yet
		var calls, results []string
		shorts := 0
		// the buffer for the next value: too short with probability 1/2 (once per record)
		triedShort := map[int]bool{}
		buflen := func() int {
			if next >= len(recs) {
				return 16
			}
			vl := len(recs[next].Val)
			lo := 0
			if mode == "connread" {
				lo = 1 // Conn.Read(b) asks for at most len(b) bytes: ReadBatch(1, 0) is refused before any fetch
			}
			if vl > lo && !triedShort[next] && r.Intn(2) == 0 {
				triedShort[next] = true
				return lo + r.Intn(vl-lo)
			}
			return max(vl, lo) + r.Intn(3)
		}
		res := func() (out string) {
			defer func() {
				if p := recover(); p != nil {
					out = "panic"
				}
			}()
			for nb := 0; nb < 40 && next < len(recs); nb++ {
				nf := len(sc.fetchOff)
				var rs, bufs []string
				batchOff, closeCls := "-", "-"
				if mode == "connread" {
					bl := buflen()
					b := make([]byte, bl)
					n, err := conn.Read(b)
					bufs = append(bufs, kvfmt.I(int64(bl)))
					switch {
					case err == nil:
						rs = append(rs, "v"+kvfmt.Bytes(b[:n]))
						next++
					case errors.Is(err, io.ErrShortBuffer):
						rs = append(rs, "short")
						shorts++
					default:
						rs = append(rs, "end-"+rdErr(err))
					}
				} else {
					batch := conn.ReadBatch(1, 1<<20)
					for i := 0; i < 10; i++ {
						bl := buflen()
						b := make([]byte, bl)
						n, err := batch.Read(b)
						bufs = append(bufs, kvfmt.I(int64(bl)))
						if err == nil {
							rs = append(rs, "v"+kvfmt.Bytes(b[:n]))
							next++
							continue
						}
						if errors.Is(err, io.ErrShortBuffer) {
							rs = append(rs, "short")
							shorts++
						} else {
							rs = append(rs, "end-"+rdErr(err))
						}
						break
					}
					batchOff = kvfmt.I(batch.Offset())
					closeCls = rdErr(batch.Close())
				}
				if len(sc.fetchOff) != nf+1 {
					results = append(results, fmt.Sprintf("FETCHES=%d", len(sc.fetchOff)-nf))
					return strings.Join(results, ",")
				}
				calls = append(calls, fmt.Sprintf("%s:%s:%s", kvfmt.I(sc.fetchOff[nf]), kvfmt.Bytes(sc.sent[nf]), strings.Join(bufs, "+")))
				results = append(results, fmt.Sprintf("%s;%s;%s;%s;%s", strings.Join(rs, "+"), batchOff, offString(conn), closeCls, kvfmt.Bool(sc.closed)))
				if sc.closed {
					break
				}
			}
			return strings.Join(results, ",")
		}()
		if shorts > 0 {
			feats = append(feats, "short-buffer")
		}
		if shorts > 1 {
			feats = append(feats, "several-short-buffers")
		}
		args := fmt.Sprintf("mode=%s v=%d pos=%s hwm=%s blobs=%s log=%s calls=%s", mode, ver, kvfmt.I(pos), kvfmt.I(end),
			fetchfake.BlobsString(enc.Blobs), fetchfake.RecordsString(recs), strings.Join(calls, ","))
		emit("rd", args, res, strings.Join(feats, ","))
	}
}
