// c02: correspondence driver for property C02 (Reader delivers exactly the partition's
// records from its position, in order).
//
// Generates cases from one PRNG, runs the REAL code of /repo on them and prints one line per
// case:   <id> <op> <args...> | <go result> | <features>
// ops: l1 (byte level: messageSetReader / Conn.ReadBatch on scripted bytes), enc (the Coq spec
// encoder against the Go reference encoder), f1 (replay of the empty-tail-batch witness),
// e2e (real kafka.Reader against harness/fetchfake, journalled).
package main

import (
	"bufio"
	"flag"
	"fmt"
	"math/rand"
	"os"
	"time"
)

var out *bufio.Writer
var id int

func emit(op string, args string, res string, feats string) {
	id++
	fmt.Fprintf(out, "%d %s %s | %s | %s\n", id, op, args, res, feats)
	out.Flush()
}

func main() {
	seed := flag.Int64("seed", 1, "PRNG seed")
	n := flag.Int("n", 200, "number of generated layouts for the byte-level part")
	ne := flag.Int("e2e", 30, "number of end-to-end Reader scenarios")
	only := flag.String("only", "", "run only this part: l1, sweep, rd, f1, e2e, readercut (-n scenarios)")
	replay := flag.String("replay", "", "re-run one l1 case given as \"l1 v=.. off=.. hwm=.. declared=.. late=.. blobs=.. bytes=..\"")
	flag.Parse()
	out = bufio.NewWriterSize(os.Stdout, 1<<20)
	defer out.Flush()
	if *replay != "" {
		replayL1(*replay)
		return
	}
	r := rand.New(rand.NewSource(*seed))
	// watchdog: the whole run must finish
	go func() {
		time.Sleep(10 * time.Minute)
		fmt.Fprintln(os.Stderr, "c02: watchdog expired")
		os.Exit(3)
	}()
	if *only == "" || *only == "f1" {
		runF1()
	}
	if *only == "" || *only == "l1" {
		runL1(r, *n)
	}
	if *only == "" || *only == "l1" || *only == "sweep" {
		runL1Sweep(rand.New(rand.NewSource(*seed + 7)))
	}
	if *only == "" || *only == "e2e" {
		runE2E(r, *ne)
		// a slice of the C17 reader-resume family (the whole family: -only readercut, checks/c02.py reader_cut_cases)
		runE2EReaderCut(rand.New(rand.NewSource(*seed+13)), 75)
	}
	if *only == "" || *only == "l1" || *only == "rd" {
		nr := 150
		if *only == "rd" {
			nr = *n
		}
		runRd(rand.New(rand.NewSource(*seed+11)), nr)
	}
	if *only == "readercut" {
		runE2EReaderCut(r, *n)
	}
}
