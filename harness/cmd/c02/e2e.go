package main

// End-to-end part of the C02 driver: the REAL kafka.Reader (partition mode) against the gated
// wire-level fake of harness/fetchfake, driven in lock-step by ONE harness goroutine, with a
// journal of everything that happened (the `args` of the emitted case) for replay on the model.
//
// Journal grammar (space separated fields; numbers in kvfmt.I hex except v=):
//   v=<2|5|10> log=<RecordsString> first=<logstart> last=<logend=hwm> blobs=<BlobsString|.> ev=<tok>,<tok>,...|.
// tokens, in the order the harness goroutine performed / observed them:
//   S:<o>:<restarted>                          SetOffset(o) returned
//   D:<MsgString>                              FetchMessage returned a message
//   P:<offset>:<lag>                           Reader.Offset() and Reader.Lag() observed right after the preceding S / D / E token
//   E:k<code> | E:io                           FetchMessage returned a non-timeout error
//   I:<gen>:<conn>:<f>:<l>:<f2>:<l2>           connection finished its initialisation (4 ListOffsets answers)
//   X:<gen>                                    a dial of generation gen failed / conn died during initialisation
//   F:<gen>:<conn>:<off>:d:<hwm>:<declared>:0:<hex|.>   data answer (hex = message-set bytes physically delivered)
//   F:<gen>:<conn>:<off>:e:<code>              error answer
//   F:<gen>:<conn>:<off>:t                     connection closed without a complete response header
//   O:<gen>:<conn>:<first>:<last> | O:<gen>:<conn>:-    the ListOffsets pair after an OffsetOutOfRange answer
//   N:<gen>:<conn>:<off>                       the fetch of the current generation still pending when the scenario ends
// Within one quiescence phase the D/E tokens come first, then the asynchronous I/X/O tokens
// (the causal order inside the Reader: it enqueues every message of a response before it does
// anything else on the wire).

import (
	"context"
	"errors"
	"fmt"
	"math/rand"
	"os"
	"sort"
	"strings"
	"time"

	kafka "github.com/segmentio/kafka-go"
	"kverif/fetchfake"
	"kverif/kvfmt"
)

const e2eTopic = "t"

type e2eConn struct {
	gen      int
	lo       []int64
	initDone bool
	awaitO   bool
	oBase    int
}

type e2e struct {
	r        *rand.Rand
	ver      int
	fake     *fetchfake.Fake
	rd       *kafka.Reader
	enc      fetchfake.Encoder
	layout   fetchfake.Layout
	opts     fetchfake.GenOpts
	log      []fetchfake.Record
	first    int64 // log start
	last     int64 // log end = high watermark
	maxBytes int
	gen      int
	started  bool
	toks     []string
	deliv    []string
	feats    map[string]bool
	evIdx    int
	cs       map[int]*e2eConn
	deadline time.Time
	hang     bool
	emptyAns int
	cutAll   []byte // the message set of the response being cut
	cutFirst int    // end of the first record (of the first compressed batch) of that message set
	partition int // the Reader's partition
	wrongDeliv bool // a delivered message carried another partition number
	aux      map[int]bool // connections that are not the fetcher's (Reader.SetOffsetAt dials its own)
}

func e2eH(v int64) string { return kvfmt.I(v) }

func (s *e2e) tok(format string, a ...interface{}) { s.toks = append(s.toks, fmt.Sprintf(format, a...)) }

func newE2E(r *rand.Rand, ver int, layout fetchfake.Layout, opts fetchfake.GenOpts, first, last int64, maxBytes, queue int) *e2e {
	s := &e2e{r: r, ver: ver, layout: layout, opts: opts, log: layout.Records(), first: first, last: last, maxBytes: maxBytes,
		feats: map[string]bool{}, cs: map[int]*e2eConn{}}
	s.fake = fetchfake.NewFake(e2eTopic, ver, first, last)
	// the topic has 1..4 partitions; the Metadata answer lists them (and the brokers) in a random order;
	// the Reader is bound to one of them, the only one this fake holds data for
	np := 1 + r.Intn(4)
	order := make([]int32, np)
	for i, j := range r.Perm(np) {
		order[i] = int32(j)
	}
	s.partition = r.Intn(np)
	s.fake.SetPartitions(int32(s.partition), order, r.Intn(2) == 0)
	s.feats[fmt.Sprintf("partitions=%d", np)] = true
	for i, pid := range order {
		if int(pid) != i {
			s.feats["metadata-partitions-out-of-id-order"] = true
		}
	}
	s.rd = kafka.NewReader(kafka.ReaderConfig{
		Brokers:          fetchfake.BrokerAddrs,
		Topic:            e2eTopic,
		Partition:        s.partition,
		Dialer:           &kafka.Dialer{DialFunc: s.fake.Dial},
		MinBytes:         1,
		MaxBytes:         maxBytes,
		QueueCapacity:    queue,
		MaxWait:          10 * time.Second,
		ReadBackoffMin:   time.Millisecond,
		ReadBackoffMax:   2 * time.Millisecond,
		MaxAttempts:      3,
		ReadBatchTimeout: 10 * time.Second,
		ReadLagInterval:  -1, // no lag-reader goroutine: it would dial connections of its own
	})
	s.feats[fmt.Sprintf("fv=%d", ver)] = true
	s.noteLayout()
	s.deadline = time.Now().Add(20 * time.Second)
	return s
}

func (s *e2e) noteLayout() {
	for _, b := range s.layout {
		s.feats[fmt.Sprintf("f%d", b.Fmt)] = true
		if b.Codec != 0 {
			s.feats["codec"] = true
		}
	}
	if s.opts.Holes {
		s.feats["holes"] = true
	}
}

func (s *e2e) remaining() time.Duration {
	d := time.Until(s.deadline)
	if d < 0 {
		d = 0
	}
	return d
}

// pump turns the fake's new events into the asynchronous journal tokens (I, X, O).
func (s *e2e) pump() {
	evs := s.fake.EventsFrom(s.evIdx)
	s.evIdx += len(evs)
	for _, e := range evs {
		if s.aux[e.Conn] && e.Kind != fetchfake.EvDialFail {
			continue
		}
		c := s.cs[e.Conn]
		switch e.Kind {
		case fetchfake.EvDialFail:
			s.tok("X:%s", e2eH(int64(e.Gen)))
		case fetchfake.EvDial:
			s.cs[e.Conn] = &e2eConn{gen: e.Gen}
		case fetchfake.EvListOffsets:
			c.lo = append(c.lo, e.B)
			if c.awaitO && len(c.lo) == c.oBase+2 {
				s.tok("O:%s:%s:%s:%s", e2eH(int64(c.gen)), e2eH(int64(e.Conn)), e2eH(c.lo[c.oBase]), e2eH(c.lo[c.oBase+1]))
				c.awaitO = false
			}
		case fetchfake.EvFetch:
			if !c.initDone {
				c.initDone = true
				s.tokI(e.Conn, c)
			}
		case fetchfake.EvClientClosed:
			if c.awaitO {
				s.tok("O:%s:%s:-", e2eH(int64(c.gen)), e2eH(int64(e.Conn)))
				c.awaitO = false
			}
			if !c.initDone && len(c.lo) > 0 { // a data connection that never fetched
				c.initDone = true
				if len(c.lo) >= 4 {
					s.tokI(e.Conn, c)
				} else {
					s.tok("X:%s", e2eH(int64(c.gen)))
				}
			}
		}
	}
}

// pos journals Reader.Offset() / Reader.Lag() as the user sees them now.
func (s *e2e) pos() { s.tok("P:%s:%s", e2eH(s.rd.Offset()), e2eH(s.rd.Lag())) }

func (s *e2e) tokI(id int, c *e2eConn) {
	v := make([]string, 4)
	for i := range v {
		v[i] = "?"
		if i < len(c.lo) {
			v[i] = e2eH(c.lo[i])
		}
	}
	s.tok("I:%s:%s:%s", e2eH(int64(c.gen)), e2eH(int64(id)), strings.Join(v, ":"))
}

func e2eMsgString(m kafka.Message) string {
	ts := int64(0)
	if !m.Time.IsZero() {
		ts = m.Time.UnixMilli()
	}
	var hs []fetchfake.Header
	for _, x := range m.Headers {
		hs = append(hs, fetchfake.Header{Key: []byte(x.Key), Value: x.Value})
	}
	return fetchfake.MsgString(m.Offset, ts, m.Key, m.Value, hs)
}

// quiesce polls FetchMessage until the current generation has a pending fetch and the Reader's
// queue is empty.  Returns false when the scenario watchdog expired.
func (s *e2e) quiesce() bool {
	for {
		if s.started {
			// the pending fetch must be observed BEFORE the queue length: the Reader enqueues all
			// messages of a response before it issues the next fetch.
			if pf := s.fake.PendingGen(s.gen); pf != nil && s.rd.VerifC02E2EQueueLen() == 0 {
				break
			}
		}
		if s.remaining() == 0 {
			s.hang = true
			s.pump()
			return false
		}
		if !s.started { // start #1 happens inside the first FetchMessage
			s.started = true
			s.gen = 1
			s.fake.SetGen(1)
		}
		ctx, cancel := context.WithTimeout(context.Background(), 5*time.Millisecond)
		m, err := s.rd.FetchMessage(ctx)
		cancel()
		var ke kafka.Error
		switch {
		case err == nil:
			ms := e2eMsgString(m)
			s.tok("D:%s", ms)
			s.deliv = append(s.deliv, ms)
			if m.Partition != s.partition || m.Topic != e2eTopic {
				s.wrongDeliv = true
			}
			s.pos()
		case errors.Is(err, context.DeadlineExceeded):
		case errors.As(err, &ke):
			s.tok("E:k%s", e2eH(int64(ke)))
			s.pos()
		default:
			s.tok("E:io")
			s.pos()
		}
	}
	s.pump()
	return true
}

func (s *e2e) setOffset(o int64) {
	restarted := s.started && o != s.rd.Offset()
	if restarted {
		s.gen++
		s.fake.SetGen(s.gen)
	}
	if err := s.rd.SetOffset(o); err != nil {
		fmt.Fprintln(os.Stderr, "c02 e2e: SetOffset:", err)
	}
	s.tok("S:%s:%s", e2eH(o), kvfmt.Bool(restarted))
	s.pos()
	s.feats["setoffset"] = true
}

// timeIndex / offsetAt: the timestamp index of the log, as the fake answers ListOffsets(timestamp).
func (s *e2e) timeIndex() [][2]int64 {
	var t [][2]int64
	for _, r := range s.log {
		t = append(t, [2]int64{r.Ts, r.Off})
	}
	return t
}
func (s *e2e) offsetAt(ts int64) int64 {
	for _, to := range s.timeIndex() {
		if to[0] >= ts {
			return to[1]
		}
	}
	return s.last
}

// setOffsetAt: Reader.SetOffsetAt(t): a connection of its own asks the offset of t, then SetOffset.
func (s *e2e) setOffsetAt(ts int64) {
	s.fake.SetTimes(s.timeIndex())
	o := s.offsetAt(ts)
	restarted := s.started && o != s.rd.Offset()
	if restarted {
		s.gen++
		s.fake.SetGen(s.gen)
	}
	before := s.fake.NumConns()
	ctx, cancel := context.WithTimeout(context.Background(), 5*time.Second)
	err := s.rd.SetOffsetAt(ctx, time.UnixMilli(ts))
	cancel()
	if s.aux == nil {
		s.aux = map[int]bool{}
	}
	for id := before + 1; id <= s.fake.NumConns(); id++ {
		s.aux[id] = true
	}
	if err != nil {
		fmt.Fprintln(os.Stderr, "c02 e2e: SetOffsetAt:", err)
	}
	s.tok("S:%s:%s", e2eH(o), kvfmt.Bool(restarted))
	s.pos()
	s.feats["setoffset"] = true
	s.feats["setoffsetat"] = true
}

// appendLog: the partition grows by the given batches (the fake answers ListOffsets(-1) with the new end).
func (s *e2e) appendLog(more fetchfake.Layout) {
	s.layout = append(append(fetchfake.Layout{}, s.layout...), more...)
	s.log = s.layout.Records()
	end := s.log[len(s.log)-1].Off + 1
	if e := s.layout[len(s.layout)-1].Last() + 1; e > end {
		end = e
	}
	s.last = end
	s.fake.SetLog(s.first, s.last)
	s.feats["log-grows"] = true
}

func (s *e2e) fpre(pf *fetchfake.PendingFetch) string {
	if pf.Gen < s.gen {
		s.feats["stale-answer"] = true
	}
	return fmt.Sprintf("F:%s:%s:%s", e2eH(int64(pf.Gen)), e2eH(int64(pf.ConnID)), e2eH(pf.Offset))
}

// encodeFor encodes the batches answering a fetch at offset o, as far as a response of
// maxBytes can reach (the first batch is always whole).  more = batches were left out.
func (s *e2e) encodeFor(o int64) (all []byte, first int, more bool) {
	sub := s.layout.FromOffset(o)
	for i, b := range sub {
		all = append(all, s.enc.Batch(b)...)
		if i == 0 {
			first = len(all)
		}
		if len(all) >= s.maxBytes {
			more = i+1 < len(sub)
			break
		}
	}
	return
}

// answerData answers pf with the data at its offset.  mode: 0 = random cut (Kafka's rule),
// 1 = random cut + physical cut, 2 = uncut, 3 = cut to exactly the first batch.
func (s *e2e) answerData(pf *fetchfake.PendingFetch, mode int) {
	all, first, more := s.encodeFor(pf.Offset)
	k := len(all)
	if len(all) == 0 {
		s.emptyAns++
	} else {
		lim := len(all)
		if m := max(first, s.maxBytes); m < lim {
			lim = m
		}
		switch mode {
		case 0, 1:
			if s.r.Intn(2) == 0 {
				k = lim
			} else {
				k = first + s.r.Intn(lim-first+1)
			}
		case 2:
			k = len(all)
		case 3:
			k = first
		}
		if k < len(all) || more {
			s.feats["cut"] = true
		}
	}
	ms := all[:k]
	pre := s.fpre(pf)
	if mode != 1 {
		if pf.RespondData(s.last, ms, k, -1) {
			s.tok("%s:d:%s:%s:0:%s", pre, e2eH(s.last), e2eH(int64(k)), kvfmt.Bytes(ms))
		}
		return
	}
	hdr := s.fake.DataHeaderLen(pf.Version)
	pc := s.r.Intn(hdr + k)
	if pf.RespondData(s.last, ms, k, pc) {
		s.feats["physcut"] = true
		if pc < hdr {
			s.tok("%s:t", pre)
		} else {
			s.tok("%s:d:%s:%s:0:%s", pre, e2eH(s.last), e2eH(int64(k)), kvfmt.Bytes(ms[:pc-hdr]))
		}
	}
}

func (s *e2e) answerError(pf *fetchfake.PendingFetch, code int16) {
	if code == 1 {
		s.pump() // bring the ListOffsets counters up to date
	}
	pre := s.fpre(pf)
	if !pf.RespondError(code) {
		return
	}
	s.tok("%s:e:%s", pre, e2eH(int64(code)))
	switch code {
	case 6:
		s.feats["notleader"] = true
	case 7:
		s.feats["timeout"] = true
	case 1:
		s.feats["oor"] = true
		// the Reader (stale ones too) now asks ListOffsets twice on this connection: wait for it so
		// that the O token has a deterministic place in the journal.
		c := s.cs[pf.ConnID]
		c.awaitO, c.oBase = true, len(c.lo)
		base := c.oBase
		if !s.fake.WaitConn(pf.ConnID, s.remaining(), func(ci fetchfake.ConnInfo) bool { return len(ci.LO) >= base+2 || ci.Closed }) {
			s.hang = true
		}
		s.pump()
	}
}

func (s *e2e) closeConn(pf *fetchfake.PendingFetch) {
	pre := s.fpre(pf)
	if pf.CloseConn() {
		s.tok("%s:t", pre)
		s.feats["disc"] = true
	}
}

func (s *e2e) stalePending() []*fetchfake.PendingFetch {
	var ps []*fetchfake.PendingFetch
	for _, p := range s.fake.Pending() {
		if p.Gen < s.gen {
			ps = append(ps, p)
		}
	}
	return ps
}

func (s *e2e) randomOffset() int64 {
	switch x := s.r.Intn(100); {
	case x < 5:
		return kafka.FirstOffset
	case x < 8:
		return kafka.LastOffset
	}
	lo := s.log[0].Off - 2
	return lo + s.r.Int63n(s.last-lo+1) // [first record - 2, log end]; -1 / -2 mean Last / First
}

// dataOffset: an offset != the Reader's current one at which there is data.
func (s *e2e) dataOffset() int64 {
	cur := s.rd.Offset()
	for i := 0; ; i++ {
		o := s.log[s.r.Intn(len(s.log))].Off
		if o != cur || i > 20 {
			return o
		}
	}
}

func (s *e2e) step() {
	if st := s.stalePending(); len(st) > 0 && s.r.Intn(100) < 25 {
		pf := st[s.r.Intn(len(st))]
		switch x := s.r.Intn(100); {
		case x < 55:
			s.answerData(pf, 0)
		case x < 60:
			s.answerData(pf, 1)
		case x < 75:
			s.answerError(pf, []int16{6, 7, 1}[s.r.Intn(3)])
		default:
			s.closeConn(pf)
		}
		return
	}
	pf := s.fake.PendingGen(s.gen)
	if pf == nil {
		return
	}
	x := s.r.Intn(100)
	if x < 63 && s.emptyAns >= 2 && len(s.layout.FromOffset(pf.Offset)) == 0 {
		// no more "no data" answers: move the Reader to where there is data
		s.emptyAns = 0
		s.setOffset(s.dataOffset())
		return
	}
	switch {
	case x < 63: // data, possibly physically cut
		if s.r.Intn(10) == 0 {
			s.layout = Repack(s.r, s.log, s.opts, s.last)
			s.feats["repack"] = true
			s.noteLayout()
		}
		if x < 55 {
			s.answerData(pf, 0)
		} else {
			s.answerData(pf, 1)
		}
	case x < 71:
		s.answerError(pf, 6)
		s.fake.SetLeader(3 - s.fake.Leader())
	case x < 75:
		s.answerError(pf, 7)
	case x < 79:
		s.answerError(pf, 1)
	case x < 85:
		s.closeConn(pf)
	case x < 95:
		s.setOffset(s.randomOffset())
	case x < 97:
		s.setOffsetAt(s.log[s.r.Intn(len(s.log))].Ts)
	default:
		s.fake.FailNextDials(1)
		s.feats["dialfail"] = true
		s.closeConn(pf)
	}
}

func (s *e2e) blobs() string {
	seen := map[string]bool{}
	var bs []fetchfake.Blob
	for _, b := range s.enc.Blobs {
		k := fmt.Sprintf("%d:%x", b.Code, b.Compressed)
		if !seen[k] {
			seen[k] = true
			bs = append(bs, b)
		}
	}
	return fetchfake.BlobsString(bs)
}

func (s *e2e) finish(op string, extraFeats ...string) {
	// the fetch the current generation is waiting on when the scenario ends (never answered)
	if !s.hang && s.started {
		if pf := s.fake.PendingGen(s.gen); pf != nil {
			s.tok("N:%s:%s:%s", e2eH(int64(pf.Gen)), e2eH(int64(pf.ConnID)), e2eH(pf.Offset))
		}
	}
	// stop everything: close all connections (so that no Reader goroutine stays blocked in a
	// gated fetch) and close the Reader.
	done := make(chan struct{})
	go func() { s.rd.Close(); close(done) }()
	s.fake.Shutdown()
	select {
	case <-done:
	case <-time.After(15 * time.Second):
		fmt.Fprintln(os.Stderr, "c02 e2e: Reader.Close did not return")
	}
	ev := "."
	if len(s.toks) > 0 {
		ev = strings.Join(s.toks, ",")
	}
	args := fmt.Sprintf("v=%d log=%s first=%s last=%s blobs=%s ev=%s", s.ver, fetchfake.RecordsString(s.log), e2eH(s.first), e2eH(s.last), s.blobs(), ev)
	res := "."
	if len(s.deliv) > 0 {
		res = strings.Join(s.deliv, ",")
	}
	if s.hang {
		res = "HANG"
		fmt.Fprintf(os.Stderr, "c02 e2e: HANG in case %d\n%s", id+1, s.fake.Dump())
	}
	for _, f := range extraFeats {
		s.feats[f] = true
	}
	if wp := s.fake.WrongPartitions(); len(wp) > 0 {
		s.feats["request-for-another-partition"] = true
	}
	if s.wrongDeliv {
		s.feats["message-of-another-partition"] = true
	}
	var fs []string
	for f := range s.feats {
		fs = append(fs, f)
	}
	sort.Strings(fs)
	emit(op, args, res, strings.Join(fs, ","))
}

// Repack splits the same records into new batches with fresh formats / codecs / bases / last
// offset deltas consistent with the offsets: v2 base <= first record offset and > the previous
// batch's last offset, base+lod >= last record offset and < the next batch's first record
// (logEnd for the last batch).  A record keeps a format that can carry it (format 0 records
// have no timestamp, only v2 has headers).
func Repack(r *rand.Rand, recs []fetchfake.Record, o fetchfake.GenOpts, logEnd int64) fetchfake.Layout {
	allowed := func(rec fetchfake.Record) []int {
		switch {
		case len(rec.Hdrs) > 0:
			return []int{2}
		case rec.Ts == 0:
			return []int{0}
		}
		var fs []int
		for _, f := range o.Formats {
			if f == 1 || f == 2 {
				fs = append(fs, f)
			}
		}
		if len(fs) == 0 {
			fs = []int{2}
		}
		return fs
	}
	has := func(fs []int, f int) bool {
		for _, x := range fs {
			if x == f {
				return true
			}
		}
		return false
	}
	maxBatch := o.MaxBatch
	if maxBatch < 1 {
		maxBatch = 1
	}
	var l fetchfake.Layout
	prevLast := recs[0].Off - 1
	for i := 0; i < len(recs); {
		fs := allowed(recs[i])
		f := fs[r.Intn(len(fs))]
		n := 1 + r.Intn(maxBatch)
		j := i + 1
		for j < len(recs) && j < i+n && has(allowed(recs[j]), f) {
			j++
		}
		b := fetchfake.PBatch{Fmt: f, Codec: o.Codecs[r.Intn(len(o.Codecs))], Base: recs[i].Off, Ts: recs[i].Ts, Recs: append([]fetchfake.Record{}, recs[i:j]...)}
		lastRec := recs[j-1].Off
		b.Lod = lastRec - b.Base
		if f == 2 {
			if gap := recs[i].Off - (prevLast + 1); gap > 0 && r.Intn(2) == 0 {
				b.Base -= r.Int63n(min(gap, 3) + 1)
			}
			maxLast := logEnd - 1
			if j < len(recs) {
				maxLast = recs[j].Off - 1
			}
			end := lastRec
			if room := maxLast - lastRec; room > 0 && r.Intn(2) == 0 {
				end += r.Int63n(min(room, 3) + 1)
			}
			b.Lod = end - b.Base
		}
		l = append(l, b)
		prevLast = b.Last()
		i = j
	}
	return l
}

// answerBatches answers pf with exactly the first n batches at its offset (n = 0: nothing to answer).
func (s *e2e) answerBatches(pf *fetchfake.PendingFetch, n int) {
	var all []byte
	for i, b := range s.layout.FromOffset(pf.Offset) {
		if i >= n {
			break
		}
		all = append(all, s.enc.Batch(b)...)
	}
	pre := s.fpre(pf)
	if pf.RespondData(s.last, all, len(all), -1) {
		s.tok("%s:d:%s:%s:0:%s", pre, e2eH(s.last), e2eH(int64(len(all))), kvfmt.Bytes(all))
	}
}

// waitPendingGen polls until the current generation has a fetch pending.
func (s *e2e) waitPendingGen() *fetchfake.PendingFetch {
	for {
		if pf := s.fake.PendingGen(s.gen); pf != nil {
			return pf
		}
		if s.remaining() == 0 {
			s.hang = true
			return nil
		}
		time.Sleep(200 * time.Microsecond)
	}
}

// blockingRead: ONE FetchMessage call that waits for its message (the usual way to use a Reader):
// when the Reader is not started yet this is the call that starts the fetcher AND returns the
// first message.  While it waits, the harness answers the pending fetch with nb batches.
func (s *e2e) blockingRead(nb int) bool {
	if !s.started {
		s.started = true
		s.gen = 1
		s.fake.SetGen(1)
	}
	type res struct {
		m   kafka.Message
		err error
	}
	ch := make(chan res, 1)
	go func() {
		ctx, cancel := context.WithTimeout(context.Background(), s.remaining())
		m, err := s.rd.FetchMessage(ctx)
		cancel()
		ch <- res{m, err}
	}()
	pf := s.waitPendingGen()
	if pf == nil {
		return false
	}
	s.pump() // the connection's initialisation comes first in the journal
	s.answerBatches(pf, nb)
	r := <-ch
	if r.err != nil {
		s.tok("E:io")
		s.pos()
		return false
	}
	ms := e2eMsgString(r.m)
	s.tok("D:%s", ms)
	s.deliv = append(s.deliv, ms)
	if r.m.Partition != s.partition || r.m.Topic != e2eTopic {
		s.wrongDeliv = true
	}
	s.pos()
	return true
}

// runE2ESetOffsetFamily: the Reader is positioned (default FirstOffset, SetOffset at a record,
// SetOffset in a compaction hole, SetOffset(FirstOffset)), EXACTLY k messages are read
// (single-record batches, a response of exactly k batches) — either by polling calls (the call
// that starts the fetcher times out first; k = 0..3) or with a first call that blocks until its
// message arrives (the call that starts the fetcher returns the first message; k = 1..3) —,
// then SetOffset(o') with o' the same position again, one past it, the offset of the last
// message returned, one past that, or an offset in a hole; then the Reader reads on.
// Reader.Offset() / Reader.Lag() are journalled after every call.
func runE2ESetOffsetFamily() {
	const ts = int64(1600000000000)
	offs := []int64{10, 11, 12, 14, 15, 17, 18, 19, 20, 21} // holes at 13 and 16
	var layout fetchfake.Layout
	for _, o := range offs {
		layout = append(layout, fetchfake.PBatch{Fmt: 2, Base: o, Lod: 0, Ts: ts,
			Recs: []fetchfake.Record{{Off: o, Ts: ts + o, Key: []byte(fmt.Sprintf("k%d", o)), Val: []byte(fmt.Sprintf("v%d", o))}}})
	}
	opts := fetchfake.GenOpts{Formats: []int{2}, Codecs: []int{0}, MaxBatch: 1, Holes: true}
	starts := []struct {
		name string
		set  bool
		o    int64
	}{{"default", false, kafka.FirstOffset}, {"record", true, 12}, {"hole", true, 13}, {"first", true, kafka.FirstOffset}}
	kinds := []string{"same", "same+1", "last", "last+1", "hole"}
	vers := []int{2, 5, 10}
	n := 0
	for _, st := range starts {
		for _, blocking := range []bool{false, true} {
			for k := 0; k <= 3; k++ {
				if blocking && k == 0 {
					continue
				}
				for _, kind := range kinds {
					n++
					s := newE2E(rand.New(rand.NewSource(int64(n))), vers[n%3], layout, opts, 10, 22, 1<<20, 8)
					func() {
						if st.set {
							s.setOffset(st.o)
						}
						if blocking {
							if !s.blockingRead(k) {
								return
							}
							if !s.quiesce() { // the other k-1 messages
								return
							}
						} else {
							if !s.quiesce() { // starts the fetcher (that call times out); the first fetch is pending
								return
							}
							if k > 0 {
								pf := s.fake.PendingGen(s.gen)
								if pf == nil {
									return
								}
								s.answerBatches(pf, k)
								if !s.quiesce() { // exactly k messages are returned
									return
								}
							}
						}
						pos := st.o // the value the Reader was positioned at
						lastDelivered := int64(-100)
						if len(s.deliv) > 0 {
							var m int64
							fmt.Sscanf(s.deliv[len(s.deliv)-1], "%x", &m)
							lastDelivered = m
						}
						var o2 int64
						switch kind {
						case "same":
							o2 = pos
						case "same+1":
							o2 = pos + 1
							if pos < 0 {
								o2 = 11
							}
						case "last":
							o2 = lastDelivered
							if lastDelivered < 0 {
								o2 = 10
							}
						case "last+1":
							o2 = lastDelivered + 1
							if lastDelivered < 0 {
								o2 = 11
							}
						case "hole":
							o2 = 16
						}
						s.setOffset(o2)
						for i := 0; i < 3; i++ {
							if !s.quiesce() {
								return
							}
							if pf := s.fake.PendingGen(s.gen); pf != nil {
								s.answerBatches(pf, 2)
							}
						}
						s.quiesce()
					}()
					mode := "polling"
					if blocking {
						mode = "blocking-first-read"
					}
					s.finish("e2e", "setoffset-family", "start="+st.name, mode, fmt.Sprintf("reads=%d", k), "then="+kind)
				}
			}
		}
	}
}

// ---- C17 reader resume: the ONLY fault is "the fetch response is delivered up to byte k, then the connection is lost" ----

type cutChoice struct {
	region   string
	declared int // announced message set size
	pc       int // bytes of the FRAME delivered (4-byte size prefix + body)
}

// cutChoices lists, per region of the response, the positions at which the connection can be cut.
func (s *e2e) cutChoices(pf *fetchfake.PendingFetch) map[string][]cutChoice {
	hdr := s.fake.DataHeaderLen(pf.Version)
	sub := s.layout.FromOffset(pf.Offset)
	var all []byte
	type span struct{ b fetchfake.PBatch; lo, hi int }
	var spans []span
	for _, b := range sub {
		lo := len(all)
		all = append(all, s.enc.Batch(b)...)
		spans = append(spans, span{b, lo, len(all)})
		if len(all) >= s.maxBytes {
			break
		}
	}
	n := len(all)
	s.cutFirst = n
	if len(spans) > 0 {
		b := spans[0].b
		s.cutFirst = spans[0].hi
		if b.Codec == 0 && len(b.Recs) > 1 {
			pb := b
			pb.Recs = b.Recs[:1]
			var sc fetchfake.Encoder
			s.cutFirst = len(sc.Batch(pb))
		}
	}
	out := map[string][]cutChoice{}
	add := func(region string, declared, msgBytes int) {
		out[region] = append(out[region], cutChoice{region, declared, 4 + hdr + msgBytes})
	}
	for c := 1; c < 4; c++ {
		out["in-size-prefix"] = append(out["in-size-prefix"], cutChoice{"in-size-prefix", n, c})
	}
	for c := 0; c < hdr; c++ {
		reg := "in-partition-header"
		if c < 8 {
			reg = "in-response-header"
		}
		out[reg] = append(out[reg], cutChoice{reg, n, 4 + c})
	}
	var scratch fetchfake.Encoder
	var bounds []int // record / message boundaries at or after the end of the first batch
	for i, sp := range spans {
		b := sp.b
		if i > 0 {
			add("between-batches", n, sp.lo)
		}
		hl := 61
		if b.Fmt != 2 {
			hl = 12
		}
		if b.Codec != 0 {
			for p := sp.lo + 1; p < sp.hi; p++ {
				if p < sp.lo+hl {
					add("in-batch-header", n, p)
				} else {
					add("in-compressed-batch", n, p)
				}
			}
		} else {
			isB := map[int]bool{}
			for j := 1; j < len(b.Recs); j++ {
				pb := b
				pb.Recs = b.Recs[:j]
				p := sp.lo + len(scratch.Batch(pb))
				isB[p] = true
				add("between-records", n, p)
				if i > 0 {
					bounds = append(bounds, p)
				}
			}
			for p := sp.lo + 1; p < sp.hi; p++ {
				switch {
				case isB[p]:
				case b.Fmt == 2 && p < sp.lo+hl:
					add("in-batch-header", n, p)
				default:
					add("in-record", n, p)
				}
			}
		}
		if i > 0 || len(spans) == 1 {
			bounds = append(bounds, sp.hi)
		} else {
			bounds = append(bounds, sp.hi)
		}
	}
	// the response ends (Kafka's truncation) inside a record; the connection is lost after the last
	// complete record but before the end of the frame
	for _, bd := range bounds {
		if bd+2 <= n {
			k1 := bd + 1 + s.r.Intn(min(n-bd-1, 40)+1)
			if k1 > n {
				k1 = n
			}
			for p := bd; p < k1; p++ {
				add("after-last-record", k1, p)
			}
		}
	}
	s.cutAll = all
	return out
}

// answerCut answers pf with a response cut in the given region (a random position of it).
func (s *e2e) answerCut(pf *fetchfake.PendingFetch, region string, choices []cutChoice) {
	c := choices[s.r.Intn(len(choices))]
	hdr := s.fake.DataHeaderLen(pf.Version)
	pre := s.fpre(pf)
	if !pf.RespondDataFrameCut(s.last, s.cutAll[:c.declared], c.declared, c.pc) {
		return
	}
	s.feats["physcut"] = true
	s.feats["cut-"+region] = true
	if c.pc < 4+hdr {
		s.tok("%s:t", pre)
	} else {
		s.tok("%s:d:%s:%s:0:%s", pre, e2eH(s.last), e2eH(int64(c.declared)), kvfmt.Bytes(s.cutAll[:c.pc-4-hdr]))
	}
}

var readerCutRegions = []string{"in-size-prefix", "in-response-header", "in-partition-header", "in-batch-header", "between-batches",
	"between-records", "in-record", "in-compressed-batch", "after-last-record"}

// runE2EReaderCut: a non-group Reader reads a whole log; 1..3 of the fetch responses are cut
// (region chosen round-robin over the scenarios, position random inside it), everything else is
// answered in full.  No other fault.  Start positions: the default (FirstOffset placeholder),
// SetOffset(absolute), SetOffset(FirstOffset), SetOffset(LastOffset), SetOffsetAt(time); the
// partition GROWS after the first connection resolved the placeholder (always for LastOffset:
// the Reader waits at the end and the first response with the appended records is cut before
// its first complete record; half of the other scenarios, at a random step).
func runE2EReaderCut(r *rand.Rand, n int) {
	startKinds := []string{"default", "absolute", "firstoffset", "lastoffset", "offsetat"}
	for it := 0; it < n; it++ {
		ver := []int{2, 5, 10}[r.Intn(3)]
		opts := fetchfake.GenOpts{MaxBatch: 1 + r.Intn(4), BigValues: r.Intn(6) == 0}
		kind := ""
		switch it % 3 {
		case 0:
			opts.Formats, opts.Codecs, kind = []int{2}, []int{0}, "v2-plain"
		case 1:
			opts.Formats, opts.Codecs, kind = []int{2}, []int{0, 1, 2, 3, 4}, "v2-compressed"
		default:
			opts.Formats, opts.Codecs, kind = []int{1}, []int{0, 0, 1, 2, 3, 4}, "v1"
		}
		opts.Holes = r.Intn(4) == 0
		if r.Intn(2) == 0 {
			opts.StartOff = int64(r.Intn(500))
		}
		full := fetchfake.GenLayout(r, 10+r.Intn(21), opts)
		startKind := startKinds[(it/3)%len(startKinds)]
		// the batches the partition holds at first; the others are appended later
		nb0 := len(full)
		grows := startKind == "lastoffset" || r.Intn(2) == 0
		if grows && len(full) >= 2 {
			nb0 = 1 + r.Intn(len(full)-1)
		} else {
			grows = false
		}
		layout := append(fetchfake.Layout{}, full[:nb0]...)
		log := layout.Records()
		first := log[0].Off
		last := log[len(log)-1].Off + 1
		if e := layout[len(layout)-1].Last() + 1; e > last {
			last = e
		}
		maxBytes := 150 + r.Intn(500)
		s := newE2E(r, ver, layout, opts, first, last, maxBytes, 1+r.Intn(8))
		s.feats["reader-cut"] = true
		s.feats[kind] = true
		s.feats["start="+startKind] = true
		start := first // the offset the position is FIRST resolved to
		switch startKind {
		case "absolute":
			start = log[r.Intn(len(log))].Off
			s.setOffset(start)
		case "firstoffset":
			s.setOffset(kafka.FirstOffset)
		case "lastoffset":
			start = last
			s.setOffset(kafka.LastOffset)
		case "offsetat":
			ts := log[r.Intn(len(log))].Ts
			start = s.offsetAt(ts)
			s.setOffsetAt(ts)
		}
		growAt := 0
		if grows && startKind != "lastoffset" {
			growAt = r.Intn(4)
		}
		cutsLeft := 1 + r.Intn(3)
		want := readerCutRegions[(it/15)%len(readerCutRegions)]
		ncuts := 0
		for step := 0; step < 80 && !s.hang; step++ {
			if !s.quiesce() {
				break
			}
			pf := s.fake.PendingGen(s.gen)
			if pf == nil {
				break
			}
			if grows && step >= growAt {
				// the connection is initialised (its fetch is pending): the placeholder is resolved; now the partition grows
				s.appendLog(full[nb0:])
				grows = false
			}
			if len(s.layout.FromOffset(pf.Offset)) == 0 {
				break
			}
			if cutsLeft > 0 && (ncuts == 0 || r.Intn(2) == 0) {
				ch := s.cutChoices(pf)
				if startKind == "lastoffset" && ncuts == 0 {
					// before the first complete record of the first response
					hdr := s.fake.DataHeaderLen(pf.Version)
					for rg, cs := range ch {
						var keep []cutChoice
						for _, c := range cs {
							if c.pc < 4+hdr+s.cutFirst && c.declared == len(s.cutAll) {
								keep = append(keep, c)
							}
						}
						ch[rg] = keep
					}
				}
				region := want
				if len(ch[region]) == 0 || ncuts > 0 {
					var have []string
					for _, rg := range readerCutRegions {
						if len(ch[rg]) > 0 {
							have = append(have, rg)
						}
					}
					if len(ch[region]) == 0 || r.Intn(2) == 0 {
						region = have[r.Intn(len(have))]
					}
				}
				if ncuts == 0 && len(s.deliv) == 0 {
					s.feats["cut-before-first-delivery"] = true
				}
				s.answerCut(pf, region, ch[region])
				cutsLeft--
				ncuts++
				continue
			}
			s.answerData(pf, 2)
		}
		if !s.hang {
			s.quiesce()
		}
		expect := 0
		for _, rec := range full.Records() {
			if rec.Off >= start {
				expect++
			}
		}
		if grows { // the partition never grew (the scenario ended first)
			expect = 0
			for _, rec := range s.log {
				if rec.Off >= start {
					expect++
				}
			}
		}
		if len(s.deliv) != expect {
			s.feats["incomplete"] = true
		}
		s.finish("e2e", fmt.Sprintf("cuts=%d", ncuts))
	}
}

// runE2ELSOFamily: an open transaction keeps the last stable offset (at a batch base) below the
// high watermark; the responses are cut so that a fetch of the Reader lands EXACTLY on the last
// stable offset; every fetch is answered with the data at its offset (read_uncommitted, the
// default: records up to the high watermark).  The Reader must deliver every stored record.
func runE2ELSOFamily() {
	const ts = int64(1600000000000)
	var layout fetchfake.Layout
	for o := int64(10); o <= 21; o++ {
		layout = append(layout, fetchfake.PBatch{Fmt: 2, Base: o, Lod: 0, Ts: ts,
			Recs: []fetchfake.Record{{Off: o, Ts: ts + o, Key: []byte(fmt.Sprintf("k%d", o)), Val: []byte(fmt.Sprintf("v%d", o))}}})
	}
	opts := fetchfake.GenOpts{Formats: []int{2}, Codecs: []int{0}, MaxBatch: 1}
	n := 0
	for _, ver := range []int{2, 5, 10} {
		for _, lso := range []int64{10, 12, 15, 21} {
			for _, first := range []int{1, 2, 3} { // batches in the first answer
				n++
				s := newE2E(rand.New(rand.NewSource(int64(1000+n))), ver, layout, opts, 10, 22, 1<<20, 8)
				s.fake.SetLSO(lso)
				s.feats["lso<hwm"] = true
				s.feats["lso-family"] = true
				start := max(lso-int64(first), 10)
				func() {
					if start != 10 || first == 2 {
						s.setOffset(start) // the first answer ends right before the last stable offset
					}
					nb := int(lso - start)
					if nb == 0 {
						nb = first
					}
					for i := 0; i < 12 && !s.hang; i++ {
						if !s.quiesce() {
							return
						}
						pf := s.fake.PendingGen(s.gen)
						if pf == nil || len(s.layout.FromOffset(pf.Offset)) == 0 {
							break
						}
						if pf.Offset == lso {
							s.feats["fetch-at-lso"] = true
						}
						s.answerBatches(pf, nb)
						nb = 2
						if len(s.deliv) == 0 && i >= 4 {
							break // no progress: the same offset is fetched again and again
						}
					}
					s.quiesce()
				}()
				if len(s.deliv) != int(22-start) {
					s.feats["incomplete"] = true
				}
				s.finish("e2e", "then-reads")
			}
		}
	}
}

func runE2E(r *rand.Rand, n int) {
	runE2EF1()
	runE2ESetOffsetFamily()
	runE2ELSOFamily()
	for i := 0; i < n; i++ {
		runE2EScenario(r)
	}
}

func runE2EScenario(r *rand.Rand) {
	ver := []int{2, 5, 10}[r.Intn(3)]
	opts := fetchfake.GenOpts{Formats: []int{2}, Codecs: []int{0}, MaxBatch: 1 + r.Intn(8), Empties: false}
	if r.Intn(2) == 0 {
		opts.Formats = []int{0, 1, 2}
	}
	if r.Intn(2) == 0 {
		opts.Codecs = []int{0, 1, 2, 3, 4}
	}
	opts.Holes = r.Intn(3) == 0
	opts.BigValues = r.Intn(4) == 0
	if r.Intn(2) == 0 {
		opts.StartOff = int64(r.Intn(1000))
	}
	layout := fetchfake.GenLayout(r, 20+r.Intn(41), opts)
	// a quarter of the scenarios: the partition holds only the first batches at first and grows later
	var tail fetchfake.Layout
	if r.Intn(4) == 0 && len(layout) >= 2 {
		nb0 := 1 + r.Intn(len(layout)-1)
		tail = append(tail, layout[nb0:]...)
		layout = append(fetchfake.Layout{}, layout[:nb0]...)
	}
	log := layout.Records()
	first := int64(0)
	if r.Intn(2) == 0 {
		first = log[0].Off
	}
	last := log[len(log)-1].Off + 1
	if e := layout[len(layout)-1].Last() + 1; e > last {
		last = e
	}
	if r.Intn(4) == 0 {
		last += int64(1 + r.Intn(3)) // a compacted tail
	}
	maxBytes := 64 + r.Intn(4096-64+1)
	queue := 1 + r.Intn(8)
	s := newE2E(r, ver, layout, opts, first, last, maxBytes, queue)

	if tail != nil {
		last = log[len(log)-1].Off + 1 // no compacted tail in front of the batches appended later
		if e := layout[len(layout)-1].Last() + 1; e > last {
			last = e
		}
		s.last = last
		s.fake.SetLog(first, last)
	}
	switch r.Intn(8) { // position the Reader before it is started
	case 0, 1:
		s.setOffset(s.randomOffset())
	case 2:
		s.setOffset(kafka.LastOffset)
	case 3:
		s.setOffsetAt(s.log[r.Intn(len(s.log))].Ts)
	}
	if r.Intn(3) == 0 { // an open transaction: last stable offset (at a batch base) below the high watermark
		s.fake.SetLSO(layout[r.Intn(len(layout))].Base)
		s.feats["lso<hwm"] = true
	}
	steps := 15 + r.Intn(26)
	growAt := r.Intn(8)
	for i := 0; i < steps && !s.hang; i++ {
		if !s.quiesce() {
			break
		}
		if tail != nil && i >= growAt {
			s.appendLog(tail)
			tail = nil
		}
		s.step()
	}
	if !s.hang {
		s.quiesce()
	}
	s.finish("e2e")
}

// runE2EF1: the retained-empty-tail-batch witness on the real Reader.
//   layout [v2 batch, records 0..4][v2 EMPTY batch base 5 lod 4], log end 10; later the log
//   grows by a batch with records 10..12 (log end 13).
func runE2EF1() {
	const ts = int64(1600000000000)
	mk := func(from, to int64) []fetchfake.Record {
		var rs []fetchfake.Record
		for o := from; o <= to; o++ {
			rs = append(rs, fetchfake.Record{Off: o, Ts: ts + o, Key: []byte(fmt.Sprintf("k%d", o)), Val: []byte(fmt.Sprintf("v%d", o))})
		}
		return rs
	}
	layout := fetchfake.Layout{
		{Fmt: 2, Base: 0, Lod: 4, Ts: ts, Recs: mk(0, 4)},
		{Fmt: 2, Base: 5, Lod: 4, Ts: ts},
	}
	opts := fetchfake.GenOpts{Formats: []int{2}, Codecs: []int{0}, MaxBatch: 5, Empties: true}
	s := newE2E(rand.New(rand.NewSource(1)), 10, layout, opts, 0, 10, 4096, 8)
	func() {
		// fetch #1 (offset 0): the first batch alone; fetch #2 (offset 5): the empty batch alone
		if !s.quiesce() {
			return
		}
		if pf := s.fake.PendingGen(s.gen); pf != nil {
			s.answerData(pf, 3)
		}
		if !s.quiesce() {
			return
		}
		if pf := s.fake.PendingGen(s.gen); pf != nil {
			s.answerData(pf, 2)
		}
		// the log grows
		s.layout = append(s.layout, fetchfake.PBatch{Fmt: 2, Base: 10, Lod: 2, Ts: ts + 10, Recs: mk(10, 12)})
		s.log = s.layout.Records()
		s.last = 13
		s.fake.SetLog(0, 13)
		for i := 0; i < 6; i++ {
			if !s.quiesce() {
				return
			}
			if pf := s.fake.PendingGen(s.gen); pf != nil {
				s.answerData(pf, 2)
			}
		}
		s.quiesce()
	}()
	s.finish("e2ef1", "f1-empty-tail")
}
