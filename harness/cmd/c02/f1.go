package main

import (
	"fmt"

	"kverif/fetchfake"
	"kverif/kvfmt"
)

// runF1 runs the witnesses of three defects this check found (fixed in /repo since) on the real
// Conn / Batch as regression cases:
//   F1: a fetch at offset 100 answered with one retained empty v2 batch (61 bytes) —
//       Batch.Close stores 1 into Conn.offset and the next fetch is issued at offset 1;
//   two consecutive empty batches in the middle of a response followed by more data —
//       messageSetReader parses header bytes as a record and markRead panics.
func runF1() {
	for _, ver := range []int16{2, 5, 10} {
		var enc fetchfake.Encoder
		l := fetchfake.Layout{{Fmt: 2, Base: 100, Lod: 4, Ts: 1600000000000}}
		all, _ := enc.Encode(l)
		log := "log=" + fetchfake.RecordsString(l.Records())
		emitL1(ver, 100, 105, len(all), all, false, nil, []string{"f2", "emptybatch", "f1-empty-tail", "whole", fmt.Sprintf("fv=%d", ver)}, " "+log)
		// the same after records were delivered from an earlier batch of the same response: harmless
		l2 := fetchfake.Layout{
			{Fmt: 2, Base: 90, Lod: 9, Ts: 1600000000000, Recs: []fetchfake.Record{{Off: 90, Ts: 1600000000000, Key: []byte("k"), Val: []byte("v")}}},
			{Fmt: 2, Base: 100, Lod: 4, Ts: 1600000000000}}
		all2, _ := enc.Encode(l2)
		emitL1(ver, 90, 105, len(all2), all2, false, nil, []string{"f2", "emptybatch", "empty-tail-after-data", "whole", fmt.Sprintf("fv=%d", ver)},
			" log="+fetchfake.RecordsString(l2.Records()))
		// three empty batches then data
		rec := fetchfake.Record{Off: 130, Ts: 1600000000000, Key: []byte("k"), Val: []byte("v")}
		l3 := fetchfake.Layout{
			{Fmt: 2, Base: 100, Lod: 4, Ts: 1600000000000},
			{Fmt: 2, Base: 110, Lod: 4, Ts: 1600000000000},
			{Fmt: 2, Base: 120, Lod: 4, Ts: 1600000000000},
			{Fmt: 2, Base: 130, Lod: 0, Ts: 1600000000000, Recs: []fetchfake.Record{rec}}}
		all3, _ := enc.Encode(l3)
		emitL1(ver, 100, 131, len(all3), all3, false, nil, []string{"f2", "emptybatch", "three-empties", "whole", fmt.Sprintf("fv=%d", ver)},
			" log="+fetchfake.RecordsString(l3.Records()))
		// data, two empty batches, data
		l4 := fetchfake.Layout{
			{Fmt: 2, Base: 90, Lod: 0, Ts: 1600000000000, Recs: []fetchfake.Record{{Off: 90, Ts: 1600000000000, Key: []byte("a"), Val: []byte("b")}}},
			{Fmt: 2, Base: 100, Lod: 4, Ts: 1600000000000},
			{Fmt: 2, Base: 110, Lod: 4, Ts: 1600000000000},
			{Fmt: 2, Base: 130, Lod: 0, Ts: 1600000000000, Recs: []fetchfake.Record{rec}}}
		all4, _ := enc.Encode(l4)
		emitL1(ver, 90, 131, len(all4), all4, false, nil, []string{"f2", "emptybatch", "two-empties-mid", "whole", fmt.Sprintf("fv=%d", ver)},
			" log="+fetchfake.RecordsString(l4.Records()))
		_ = kvfmt.I
	}
}
