package main

import (
	"fmt"
	"go/types"
	"os"
	"path/filepath"
	"strings"
)

// The lockset analysis on a small embedded package with known answers.
const snippet = `package snip

import (
	"flag"
	"sync"
	"sync/atomic"
)

type T struct {
	mu      sync.Mutex
	rw      sync.RWMutex
	a, b, c int
	n       int32
	ch      chan int
	p       *sync.Mutex
	in      Inner
}

type Inner struct{ v int }

func (t *T) Locked()       { t.mu.Lock(); t.a = 1; t.mu.Unlock(); _ = t.a }
func (t *T) Deferred() int { t.mu.Lock(); defer t.mu.Unlock(); if t.a > 0 { return t.b }; return t.c }
func (t *T) Branch(x bool) { if x { t.mu.Lock() }; t.b = 2; if x { t.mu.Unlock() } }
func (t *T) Loop()         { for i := 0; i < 3; i++ { t.mu.Lock(); t.a++; t.mu.Unlock() }; t.c = 1 }
func (t *T) LoopLeak() {
	t.mu.Lock()
	for i := 0; i < 3; i++ {
		t.a = i
		if i == 1 {
			t.mu.Unlock()
			return
		}
	}
	t.b = 1
	t.mu.Unlock()
}
func (t *T) LoopDrop() {
	t.mu.Lock()
	for i := 0; i < 3; i++ {
		t.a = i
		if i == 1 {
			t.mu.Unlock()
		}
	}
	t.b = 1
}
func (t *T) RW() int       { t.rw.RLock(); defer t.rw.RUnlock(); return t.c }
func (t *T) RWW()          { t.rw.Lock(); t.c = 4; t.rw.Unlock() }
func (t *T) Atomic()       { atomic.AddInt32(&t.n, 1) }
func (t *T) helper()       { t.b = 3 }
func (t *T) CallsHelper()  { t.mu.Lock(); t.helper(); t.mu.Unlock() }
func (t *T) helper2()      { t.c = 3 }
func (t *T) CallsHelper2() { t.mu.Lock(); t.helper2(); t.mu.Unlock(); t.helper2() }
func (t *T) Spawn()        { t.mu.Lock(); go func() { t.a = 5 }(); func() { t.b = 5 }(); t.mu.Unlock() }
func (t *T) with(f func()) { t.mu.Lock(); f(); t.mu.Unlock() }
func (t *T) UsesWith()     { t.with(func() { t.a = 7 }) }
func (t *T) fwd(f func())  { t.with(f) }
func (t *T) UsesFwd()      { t.fwd(func() { t.b = 7 }) }
func (t *T) Alias()        { l := &t.mu; l.Lock(); t.a = 8; l.Unlock() }
func (t *T) PtrUnlock()    { t.mu.Lock(); t.p.Unlock(); t.a = 9 }
func (t *T) Chan()         { t.ch <- 1; <-t.ch; close(t.ch) }
func New() *T              { t := &T{}; t.a = 1; go t.Loop(); t.b = 2; return t }
func (t *T) Switch(k int) {
	t.mu.Lock()
	switch k {
	case 1:
		t.a = 1
	case 2:
		t.mu.Unlock()
		return
	}
	t.b = 1
	t.mu.Unlock()
}
func (t *T) DeferLit()  { t.mu.Lock(); defer t.mu.Unlock(); defer func() { t.a = 0 }() }
func (t *T) DeferLit2() { t.mu.Lock(); defer func() { t.b = 0 }(); defer t.mu.Unlock() }
func (t *T) Nested()    { t.mu.Lock(); t.in.v = 1; t.mu.Unlock(); t.in = Inner{} }
func (t *T) Later()     { f := func() { t.c = 9 }; t.mu.Lock(); f(); t.mu.Unlock() }
func (t *T) Escapes()   { f := func() { t.c = 10 }; t.mu.Lock(); sink(f); t.mu.Unlock() }
func (t *T) Sel(c chan int) {
	t.mu.Lock()
	select {
	case <-c:
		t.a = 3
	case <-t.ch:
		t.mu.Unlock()
		t.mu.Lock()
	}
	t.b = 4
	t.mu.Unlock()
}

type S struct {
	mu sync.Mutex
	xs []Inner
}

func (s *S) Elem(i int) int  { s.mu.Lock(); defer s.mu.Unlock(); p := &s.xs[i]; p.v++; return p.v }
func (s *S) ElemLate(i int)  { s.mu.Lock(); p := &s.xs[i]; s.mu.Unlock(); p.v = 1 }
func (s *S) ElemLeak(i int)  { s.mu.Lock(); p := &s.xs[i]; keepI = p; s.mu.Unlock() }

func (t *T) Order()    { t.a = 1; close(t.ch) }
func (t *T) OrderBad() { if t.b > 0 { t.a = 1 }; t.ch <- 1 }

type U struct {
	mu   sync.Mutex
	stop func()
	ctx  interface{ Done() <-chan struct{} }
	out  chan int
	wg   sync.WaitGroup
}

func (u *U) Shut() {
	u.mu.Lock()
	u.mu.Unlock()
	u.stop()
	u.wg.Wait()
	if u.ctx != nil {
		<-u.ctx.Done()
	}
	close(u.out)
}
func (u *U) Try(v int) bool {
	select {
	case <-u.ctx.Done():
		return false
	default:
	}
	p := make(chan error, 1)
	_ = p
	select {
	case u.out <- v:
	case <-u.ctx.Done():
	}
	return true
}
func (u *U) Spawn() { u.mu.Lock(); go func() { u.out <- 1 }(); u.mu.Unlock() }

type P struct {
	av atomic.Value
	ap atomic.Pointer[Inner]
}

func (p *P) PubGood()    { s := make([]int, 4); s[0] = 1; p.av.Store(s) }
func (p *P) PubBad()     { s := make([]int, 4); p.av.Store(s); s[0] = 1 }
func (p *P) PubBadCopy() { s := make([]int, 4); p.av.Store(s); copy(s, []int{1}) }
func (p *P) PubBadPtr()  { i := &Inner{}; p.ap.Store(i); i.v = 2 }
func (p *P) PubLoop()    { s := make([]int, 4); for k := 0; k < 2; k++ { s[k] = k; p.av.Store(s) } }

func cloneFlag(f *flag.Flag) *flag.Flag { c := *f; return &c }

type Q struct {
	cfg  *flag.Flag // a foreign (caller-supplied) object behind a pointer
	mine *Inner
}

func (q *Q) ThroughDirect()  { q.cfg.Name = "x" }
func (q *Q) ThroughAlias()   { c := q.cfg; if c.Name == "" { c.Name = "x" } }
func (q *Q) ThroughCloned()  { c := q.cfg; if c.Name == "" { c = cloneFlag(c); c.Name = "x" } }
func (q *Q) ThroughMaybe(b bool) { c := q.cfg; if b { c = cloneFlag(c) }; c.Name = "x" }
func (q *Q) ThroughListed()  { q.mine.v = 1 }

var keepI *Inner
var keep func()

func sink(f func()) { keep = f }
`

type expect struct {
	fn, field, kind, locks string
	fresh                  bool
}

var expected = []expect{
	{"T.Locked", "a", "KWrite", "T.mu/W", false},
	{"T.Locked", "a", "KRead", "", false},
	{"T.Deferred", "a", "KRead", "T.mu/W", false},
	{"T.Deferred", "b", "KRead", "T.mu/W", false},
	{"T.Deferred", "c", "KRead", "T.mu/W", false},
	{"T.Branch", "b", "KWrite", "", false},
	{"T.Loop", "a", "KWrite", "T.mu/W", false},
	{"T.Loop", "c", "KWrite", "", false},
	{"T.LoopLeak", "a", "KWrite", "T.mu/W", false},
	{"T.LoopLeak", "b", "KWrite", "T.mu/W", false},
	{"T.LoopDrop", "a", "KWrite", "", false},
	{"T.LoopDrop", "b", "KWrite", "", false},
	{"T.RW", "c", "KRead", "T.rw/R", false},
	{"T.RWW", "c", "KWrite", "T.rw/W", false},
	{"T.Atomic", "n", "KAtomic", "", false},
	{"T.helper", "b", "KWrite", "T.mu/W", false},
	{"T.helper2", "c", "KWrite", "", false},
	{"T.Spawn$1", "a", "KWrite", "", false},
	{"T.Spawn$2", "b", "KWrite", "T.mu/W", false},
	{"T.UsesWith$1", "a", "KWrite", "T.mu/W", false},
	{"T.UsesFwd$1", "b", "KWrite", "T.mu/W", false},
	{"T.Alias", "a", "KWrite", "", false},
	{"T.Alias", "mu", "KUnknown", "", false},
	{"T.PtrUnlock", "a", "KWrite", "", false},
	{"T.PtrUnlock", "p", "KRead", "T.mu/W", false},
	{"New", "a", "KWrite", "", true},
	{"New", "b", "KWrite", "", false},
	{"T.Switch", "a", "KWrite", "T.mu/W", false},
	{"T.Switch", "b", "KWrite", "T.mu/W", false},
	{"T.DeferLit$1", "a", "KWrite", "T.mu/W", false},
	{"T.DeferLit2$1", "b", "KWrite", "", false},
	{"T.Nested", "in", "KWrite", "", false},
	{"T.Later$1", "c", "KWrite", "T.mu/W", false},
	{"T.Escapes$1", "c", "KWrite", "", false},
	{"T.Sel", "a", "KWrite", "T.mu/W", false},
	{"T.Sel", "b", "KWrite", "T.mu/W", false},
	{"S.Elem", "xs", "KWrite", "S.mu/W", false},
	{"S.Elem", "xs", "KRead", "S.mu/W", false},
	{"S.ElemLate", "xs", "KWrite", "", false},
	{"S.ElemLeak", "xs", "KUnknown", "S.mu/W", false},
}

func selfTest() int {
	dir := filepath.Join("/var/tmp", fmt.Sprintf("vskel_selftest_%d", os.Getpid()))
	os.MkdirAll(dir, 0o755)
	defer os.RemoveAll(dir)
	os.WriteFile(filepath.Join(dir, "go.mod"), []byte("module snip\n\ngo 1.23\n"), 0o644)
	os.WriteFile(filepath.Join(dir, "snip.go"), []byte(snippet), 0o644)
	pkgs, err := load(dir, []string{"."}, "")
	if err != nil {
		fmt.Println("selftest: load failed:", err)
		return 1
	}
	a := run(pkgs, map[*types.TypeName]string{}, true)
	got := map[string]outFact{}
	for _, f := range a.outFacts() {
		got[f.Func+"|"+f.Field+"|"+f.Kind] = f
	}
	bad := 0
	for _, e := range expected {
		f, ok := got[e.fn+"|"+e.field+"|"+e.kind]
		if !ok {
			fmt.Printf("selftest FAIL: no fact %s %s %s\n", e.fn, e.field, e.kind)
			bad++
			continue
		}
		if l := strings.Join(f.Locks, ","); l != e.locks || f.Fresh != e.fresh {
			fmt.Printf("selftest FAIL: %s %s %s: lockset {%s} fresh=%v, expected {%s} fresh=%v\n", e.fn, e.field, e.kind, l, f.Fresh, e.locks, e.fresh)
			bad++
		}
	}
	// inner field of Nested under the lock, channel operations, go statements, unknowns
	if f, ok := got["T.Nested|v|KWrite"]; !ok || strings.Join(f.Locks, ",") != "T.mu/W" {
		fmt.Println("selftest FAIL: Inner.v in T.Nested")
		bad++
	}
	for _, k := range []string{"T|ch|CSend|T.Chan", "T|ch|CRecv|T.Chan", "T|ch|CClose|T.Chan"} {
		if _, ok := a.chans[k]; !ok {
			fmt.Println("selftest FAIL: channel op", k)
			bad++
		}
	}
	for _, k := range []string{"T.Spawn|T.Spawn$1", "New|T.Loop"} {
		if _, ok := a.gos[k]; !ok {
			fmt.Println("selftest FAIL: go statement", k)
			bad++
		}
	}
	for _, k := range []string{"T.Alias|lock-via-alias:Lock|l", "T.Alias|lock-via-alias:Unlock|l", "T.PtrUnlock|lock-via-alias:Unlock|t.p"} {
		if _, ok := a.unks[k]; !ok {
			fmt.Println("selftest FAIL: unknown", k)
			bad++
		}
	}
	// written after publish
	for _, e := range []struct {
		fn, field string
		want      bool
	}{{"P.PubGood", "av", false}, {"P.PubBad", "av", true}, {"P.PubBadCopy", "av", true}, {"P.PubBadPtr", "ap", true}, {"P.PubLoop", "av", true}} {
		_, ok := got[e.fn+"|"+e.field+"|KWrite"]
		if ok != e.want {
			fmt.Printf("selftest FAIL: written-after-publish fact for %s on %s: got %v, expected %v\n", e.fn, e.field, ok, e.want)
			bad++
		}
	}
	// writes through pointer fields / their local copies
	for _, e := range []struct {
		fn   string
		want bool
	}{{"Q.ThroughDirect", true}, {"Q.ThroughAlias", true}, {"Q.ThroughCloned", false}, {"Q.ThroughMaybe", true}} {
		_, ok := got[e.fn+"|cfg|KWriteThrough"]
		if ok != e.want {
			fmt.Printf("selftest FAIL: KWriteThrough fact for %s on Q.cfg: got %v, expected %v\n", e.fn, ok, e.want)
			bad++
		}
	}
	if _, ok := got["Q.ThroughListed|mine|KWriteThrough"]; ok {
		fmt.Println("selftest FAIL: a write to a field of a listed pointee must not be a KWriteThrough of the pointer field")
		bad++
	}
	// call facts
	type ce struct{ caller, callee, how, locks, written string }
	gotc := map[string]outCall{}
	for _, c := range a.outCalls() {
		gotc[c.Caller+"|"+c.Callee+"|"+c.How] = c
	}
	for _, e := range []ce{
		{"T.CallsHelper", "T.helper", "HCall", "T.mu/W", ""},
		{"New", "T.Loop", "HGo", "", "T.a"},
		{"T.UsesWith", "T.with", "HCall", "", ""},
		{"T.Order", "close(T.ch)", "HCall", "", "T.a"},
		{"T.OrderBad", "send(T.ch)", "HCall", "", ""},
		{"T.Sel", "recv(T.ch)", "HCall", "T.mu/W", ""},
	} {
		c, ok := gotc[e.caller+"|"+e.callee+"|"+e.how]
		if !ok {
			fmt.Printf("selftest FAIL: no call fact %s -> %s %s\n", e.caller, e.callee, e.how)
			bad++
			continue
		}
		if l, w := strings.Join(c.Locks, ","), strings.Join(c.Written, ","); l != e.locks || w != e.written {
			fmt.Printf("selftest FAIL: call %s -> %s: locks {%s} written {%s}, expected {%s} {%s}\n", e.caller, e.callee, l, w, e.locks, e.written)
			bad++
		}
	}
	type ce2 struct{ caller, callee, how, locks string; after, notMaybe, maybe []string }
	has := func(xs []string, x string) bool {
		for _, y := range xs {
			if y == x {
				return true
			}
		}
		return false
	}
	for _, e := range []ce2{
		{"U.Shut", "close(U.out)", "HCall", "", []string{"U.stop()", "U.wg.Wait", "lock(U.mu)", "unlock(U.mu)"}, nil, []string{"U.ctx.Done"}},
		{"U.Shut", "U.ctx.Done", "HCall", "", []string{"U.wg.Wait"}, []string{"close(U.out)"}, nil},
		{"U.Shut", "unlock(U.mu)", "HCall", "U.mu/W", []string{"lock(U.mu)"}, nil, nil},
		{"U.Try", "send(U.out)", "HCall", "", []string{"U.ctx.Done", "makechan(chan error,1)"}, nil, nil},
		{"U.Spawn", "go:U.Spawn$1", "HGo", "U.mu/W", []string{"lock(U.mu)"}, nil, nil},
	} {
		c, ok := gotc[e.caller+"|"+e.callee+"|"+e.how]
		if !ok {
			fmt.Printf("selftest FAIL: no call fact %s -> %s %s\n", e.caller, e.callee, e.how)
			bad++
			continue
		}
		if l := strings.Join(c.Locks, ","); l != e.locks {
			fmt.Printf("selftest FAIL: call %s -> %s: locks {%s}, expected {%s}\n", e.caller, e.callee, l, e.locks)
			bad++
		}
		for _, x := range e.after {
			if !has(c.After, x) {
				fmt.Printf("selftest FAIL: call %s -> %s: %s not in must-before set %v\n", e.caller, e.callee, x, c.After)
				bad++
			}
		}
		for _, x := range e.maybe {
			if !has(c.Maybe, x) || has(c.After, x) {
				fmt.Printf("selftest FAIL: call %s -> %s: %s should be in the may-before set only (%v / %v)\n", e.caller, e.callee, x, c.Maybe, c.After)
				bad++
			}
		}
		for _, x := range e.notMaybe {
			if has(c.Maybe, x) {
				fmt.Printf("selftest FAIL: call %s -> %s: %s in may-before set %v\n", e.caller, e.callee, x, c.Maybe)
				bad++
			}
		}
	}
	if c, ok := gotc["T.Spawn$1|T.helper|HCall"]; ok || c.InGo {
		_ = c
	}
	if bad > 0 {
		for k, f := range got {
			if strings.HasPrefix(k, "T.") || strings.HasPrefix(k, "New") {
				_ = f
			}
		}
		return 1
	}
	fmt.Printf("selftest ok: %d expectations\n", len(expected)+31)
	return 0
}
