// vskel: translator for property C10 (DESIGN.md 4.3).  A go/ast + go/types pass over
// /repo's packages kafka, protocol and compress/... (loaded WITHOUT the verif build tag:
// the production code is analysed, test hooks are not) computing a must-hold lockset at
// every statement and emitting coq/Gen/Skeleton.v.
//
//	vskel -repo /repo -out Skeleton.v -json counts.json
//	vskel -selftest            (embedded snippets with known answers)
//
// What it tracks: see the comment block written at the top of the generated file
// (func header()).
package main

import (
	"encoding/json"
	"flag"
	"fmt"
	"go/ast"
	"go/token"
	"go/types"
	"os"
	"path/filepath"
	"sort"
	"strings"

	"golang.org/x/tools/go/packages"
)

// ----------------------------------------------------------------------------- locksets

// rel is a lockset relative to the (yet unknown) entry lockset E of the enclosing
// function: held = (killAll ? {} : E - kill) + gen.
type rel struct {
	bottom  bool // unreachable
	killAll bool
	gen     map[string]bool
	kill    map[string]bool
	may     map[string]bool // calls of interest that MAY have been executed earlier in this function body (union at joins)
}

func newRel() *rel { return &rel{gen: map[string]bool{}, kill: map[string]bool{}, may: map[string]bool{}} }
func bottom() *rel { r := newRel(); r.bottom = true; return r }

func (r *rel) clone() *rel {
	c := &rel{bottom: r.bottom, killAll: r.killAll, gen: map[string]bool{}, kill: map[string]bool{}, may: map[string]bool{}}
	for k := range r.may {
		c.may[k] = true
	}
	for k := range r.gen {
		c.gen[k] = true
	}
	for k := range r.kill {
		c.kill[k] = true
	}
	return c
}

func (r *rel) lock(k string)   { r.gen[k] = true; delete(r.kill, k) }
func (r *rel) unlock(k string) { delete(r.gen, k); r.kill[k] = true }
func (r *rel) unlockUnknown() {
	g := map[string]bool{}
	for k := range r.gen {
		if strings.HasPrefix(k, "!") { // must-have-written / must-have-called markers are not locks
			g[k] = true
		}
	}
	r.gen, r.killAll = g, true
}

func meet(a, b *rel) *rel {
	if a.bottom {
		return b.clone()
	}
	if b.bottom {
		return a.clone()
	}
	c := newRel()
	c.killAll = a.killAll || b.killAll
	for k := range a.gen {
		if b.gen[k] {
			c.gen[k] = true
		}
	}
	for k := range a.kill {
		c.kill[k] = true
	}
	for k := range b.kill {
		c.kill[k] = true
	}
	for k := range a.may {
		c.may[k] = true
	}
	for k := range b.may {
		c.may[k] = true
	}
	// a lock generated on one side only is not must-held unless inherited and unkilled
	// on the other; "kill" must not hide it on the side where it is generated: it is
	// dropped from gen, and stays governed by E - kill, which is exact when it was
	// never killed.
	return c
}

func (r *rel) equal(o *rel) bool {
	if r.bottom != o.bottom || r.killAll != o.killAll || len(r.gen) != len(o.gen) || len(r.kill) != len(o.kill) || len(r.may) != len(o.may) {
		return false
	}
	for k := range r.may {
		if !o.may[k] {
			return false
		}
	}
	for k := range r.gen {
		if !o.gen[k] {
			return false
		}
	}
	for k := range r.kill {
		if !o.kill[k] {
			return false
		}
	}
	return true
}

type lockset map[string]bool // nil = TOP (all locks)

func (r *rel) apply(e lockset, universe []string) lockset {
	out := lockset{}
	if !r.killAll {
		if e == nil {
			for _, k := range universe {
				if !r.kill[k] {
					out[k] = true
				}
			}
		} else {
			for k := range e {
				if !r.kill[k] {
					out[k] = true
				}
			}
		}
	}
	for k := range r.gen {
		out[k] = true
	}
	return out
}

func lsMeet(a, b lockset) lockset {
	if a == nil {
		return b
	}
	if b == nil {
		return a
	}
	c := lockset{}
	for k := range a {
		if b[k] {
			c[k] = true
		}
	}
	return c
}

func lsEq(a, b lockset) bool {
	if (a == nil) != (b == nil) || len(a) != len(b) {
		return false
	}
	for k := range a {
		if !b[k] {
			return false
		}
	}
	return true
}

// ----------------------------------------------------------------------------- program model

type node struct {
	name     string
	decl     *ast.FuncDecl
	lit      *ast.FuncLit
	pkg      *packages.Package
	goBody   bool    // operand of a go statement
	forced   bool    // entry lockset forced empty (exported, go target, escapes as a value)
	why      string  // why forced
	param    *pparam // literal bound to a parameter of an analysed function
	bind     *site   // ... at this call site
	sites    []site  // static call sites
	entry    lockset // fixpoint result
	nlits    int
	parent   *node
	analysed bool
}

// forcedByValueUse: the function may be called from places we do not see
func (n *node) forcedByValueUse() bool { return n.forced && n.why != "exported" }

type site struct {
	from *node
	st   *rel
}

// pparam: a func-typed parameter of an analysed function
type pparam struct {
	owner    *node
	index    int
	forced   bool
	sites    []site    // where the parameter is called
	forwards []*pparam // passed on as an argument to these
	entry    lockset
}

type rawFact struct {
	typ, field, kind string
	n                *node
	st               *rel
	fresh            bool
	pos              token.Pos
}

// rawCall: a call of interest (callee in callsOfInterest, a sync method of a field of a
// listed type, a channel operation on such a field, or a function used as a value)
type rawCall struct {
	caller *node
	callee string
	how    string // HCall, HGo, HDefer, HValue
	st     *rel
	pos    token.Pos
}

type chanFact struct {
	typ, field, kind, fn, pos string
}
type goFact struct{ spawner, body, pos string }
type unkFact struct{ fn, what, text string }

type analysis struct {
	fset      *token.FileSet
	pkgs      []*packages.Package
	pkgOf     map[*types.Package]*packages.Package
	interest  map[*types.TypeName]string // named types of interest -> display name
	allStruct bool                       // selftest: every struct type is of interest
	nodes     []*node
	byFunc    map[*types.Func]*node
	byLit     map[*ast.FuncLit]*node
	params    map[*types.Var]*pparam
	litVar    map[*types.Var]*node // local variable bound to a function literal
	named     []*types.Named       // all named types of the analysed packages
	facts     map[string]*rawFact  // keyed by ast position + kind (last fixpoint pass wins)
	chans     map[string]chanFact
	gos       map[string]goFact
	unks      map[string]unkFact
	globalsW  map[*types.Var]bool // package-level variables written outside init
	universe  map[string]bool
	// per function-body state
	cur      *node
	st       *rel
	frames   []*frame
	deferred map[string]bool
	fresh    map[*types.Var]token.Pos // fresh local -> escape position
	rootDecl *node
	gotos    map[string][]*rel // states at goto statements, per label (current function)
	ptrAlias map[*types.Var][2]string // non-escaping local p := &x.f...  ->  (type, field)
	aliasLoc map[string][2]string // "!from:<var>" marker -> pointer/interface-typed field the local was copied from
	pubLoc   map[string][2]string // "!pub:<var>" marker -> atomic location the local was published through
	calls    map[string]*rawCall
	callInt  map[string]bool // callees of interest (node names); nil = all (selftest)
	leaks    map[*types.Func]bool
}

type frame struct {
	label     string
	isLoop    bool
	breaks    []*rel
	continues []*rel
}

func (a *analysis) posStr(p token.Pos) string {
	pp := a.fset.Position(p)
	return fmt.Sprintf("%s:%d", filepath.Base(pp.Filename), pp.Line)
}

func (a *analysis) info() *types.Info { return a.cur.pkg.TypesInfo }

func deref(t types.Type) types.Type {
	if p, ok := t.Underlying().(*types.Pointer); ok {
		return p.Elem()
	}
	return t
}

func namedOf(t types.Type) *types.Named {
	t = deref(t)
	if al, ok := t.(*types.Alias); ok {
		t = types.Unalias(al)
	}
	n, _ := t.(*types.Named)
	return n
}

func isPointer(t types.Type) bool {
	_, ok := t.Underlying().(*types.Pointer)
	return ok
}

// syncKind: "mutex", "rwmutex", "sync" (other sync / sync/atomic types) or "".
func syncKind(t types.Type) string {
	n := namedOf(t)
	if n == nil || n.Obj().Pkg() == nil {
		return ""
	}
	switch n.Obj().Pkg().Path() {
	case "sync":
		switch n.Obj().Name() {
		case "Mutex":
			return "mutex"
		case "RWMutex":
			return "rwmutex"
		}
		return "sync"
	case "sync/atomic":
		return "sync"
	}
	return ""
}

func (a *analysis) typeName(n *types.Named) (string, bool) {
	if n == nil {
		return "", false
	}
	if s, ok := a.interest[n.Obj()]; ok {
		return s, true
	}
	if a.allStruct {
		if _, ok := n.Underlying().(*types.Struct); ok && a.pkgOf[n.Obj().Pkg()] != nil {
			return n.Obj().Name(), true
		}
	}
	return "", false
}

func (a *analysis) displayName(n *types.Named) string {
	if s, ok := a.typeName(n); ok {
		return s
	}
	p := n.Obj().Pkg()
	if p == nil {
		return n.Obj().Name()
	}
	if a.pkgOf[p] != nil && a.pkgs[0].Types == p {
		return n.Obj().Name()
	}
	return p.Name() + "." + n.Obj().Name()
}

// ----------------------------------------------------------------------------- recording

func (a *analysis) record(typ, field, kind string, pos token.Pos, fresh bool) {
	if a.st.bottom {
		return
	}
	key := fmt.Sprintf("%d/%s/%s/%s", pos, typ, field, kind)
	a.facts[key] = &rawFact{typ: typ, field: field, kind: kind, n: a.cur, st: a.st.clone(), fresh: fresh, pos: pos}
	if kind == "KWrite" {
		// must-have-written set (statement order inside one function): carried in the state
		// like a lock that is never released, filtered out of the locksets on output
		a.st.gen[wrotePrefix+typ+"."+field] = true
	}
}

const wrotePrefix = "!w:"
const calledPrefix = "!c:"

func (a *analysis) recordCall(callee, how string, pos token.Pos) {
	if a.st.bottom {
		return
	}
	a.calls[fmt.Sprintf("%d/%s/%s", pos, callee, how)] = &rawCall{a.cur, callee, how, a.st.clone(), pos}
	if how == "HCall" {
		// statement order between calls: must-have-called (like a lock never released,
		// inherited by callees) and may-have-called (this function body only)
		a.st.gen[calledPrefix+callee] = true
		a.st.may[callee] = true
	}
}

// lockOfInterest: Lock/Unlock calls on the mutexes of listed types are call facts too (the
// lockset AT the Lock call gives the lock order).
func (a *analysis) lockOfInterest(name string) bool {
	if a.callInt == nil {
		return true
	}
	return !strings.HasPrefix(name, "$")
}

func (a *analysis) callOfInterest(n *node) bool {
	if n.lit != nil {
		return false
	}
	return a.callInt == nil || a.callInt[n.name]
}

func howOf(how string) string {
	switch how {
	case "go":
		return "HGo"
	case "defer":
		return "HDefer"
	}
	return "HCall"
}

// fieldName: "T.f" when e selects a field of a listed type, else "".
func (a *analysis) fieldName(e ast.Expr) string {
	for {
		if p, ok := e.(*ast.ParenExpr); ok {
			e = p.X
			continue
		}
		break
	}
	x, ok := e.(*ast.SelectorExpr)
	if !ok {
		return ""
	}
	sel := a.info().Selections[x]
	if sel == nil || sel.Kind() != types.FieldVal {
		return ""
	}
	owner, fv := fieldOwner(sel)
	tn, ok := a.typeName(owner)
	if !ok {
		return ""
	}
	return tn + "." + fv.Name()
}

func (a *analysis) unknown(what string, e ast.Node) {
	text := a.nodeText(e)
	u := unkFact{a.cur.name, what, text}
	a.unks[u.fn+"|"+u.what+"|"+u.text] = u
}

func (a *analysis) nodeText(e ast.Node) string {
	switch x := e.(type) {
	case *ast.Ident:
		return x.Name
	case *ast.SelectorExpr:
		return a.nodeText(x.X) + "." + x.Sel.Name
	case *ast.StarExpr:
		return "*" + a.nodeText(x.X)
	case *ast.UnaryExpr:
		return x.Op.String() + a.nodeText(x.X)
	case *ast.CallExpr:
		return a.nodeText(x.Fun) + "()"
	case *ast.ParenExpr:
		return "(" + a.nodeText(x.X) + ")"
	case *ast.IndexExpr:
		return a.nodeText(x.X) + "[]"
	case *ast.FuncLit:
		return "func-literal"
	}
	return fmt.Sprintf("%T", e)
}

// ----------------------------------------------------------------------------- expressions

type ctx int

const (
	cRead ctx = iota
	cWrite
	cAtomic   // argument of sync/atomic function or method of a sync typed field
	cAddrArg  // &x.f as a direct call argument, pointer-receiver call on a foreign struct field
	cAddrElse // &x.f anywhere else
	cPath     // struct-valued prefix of a longer selector: no access of its own
	cThrough  // write THROUGH a pointer / interface held in a field (or a local copy of it)
	cLockRecv // receiver of a Lock/Unlock call
	cSyncRecv // receiver of another sync.* / atomic.* method
)

func kindOf(c ctx) string {
	switch c {
	case cRead:
		return "KRead"
	case cWrite:
		return "KWrite"
	case cAtomic, cSyncRecv:
		return "KAtomic"
	case cThrough:
		return "KWriteThrough"
	case cAddrArg:
		return "KAddrArg"
	}
	return "KUnknown"
}

// fieldOwner resolves a field selection to (owner named type, field var) following
// embedded-field promotion.
func fieldOwner(sel *types.Selection) (*types.Named, *types.Var) {
	t := sel.Recv()
	var owner *types.Named
	var fv *types.Var
	for _, idx := range sel.Index() {
		owner = namedOf(t)
		st, ok := deref(t).Underlying().(*types.Struct)
		if !ok {
			return nil, nil
		}
		fv = st.Field(idx)
		t = fv.Type()
	}
	return owner, fv
}

// rootFresh: is the selector chain rooted (through struct-valued fields only) at a
// fresh local variable that has not escaped before pos?
func (a *analysis) rootFresh(e ast.Expr, pos token.Pos) bool {
	for {
		switch x := e.(type) {
		case *ast.ParenExpr:
			e = x.X
			continue
		case *ast.SelectorExpr:
			sel := a.info().Selections[x]
			if sel == nil || sel.Kind() != types.FieldVal {
				return false
			}
			// the selection x.X.f: fine when x.X is the fresh pointer/struct itself or a
			// struct-valued field path from it
			if _, isId := x.X.(*ast.Ident); !isId && isPointer(a.info().TypeOf(x.X)) {
				return false
			}
			e = x.X
			continue
		case *ast.Ident:
			v, ok := a.info().Uses[x].(*types.Var)
			if !ok {
				return false
			}
			esc, isFresh := a.fresh[v]
			return isFresh && pos < esc
		}
		return false
	}
}

// localValueRoot: the selector chain reaches, through struct-valued fields only, a local
// variable (or parameter) of struct VALUE type: the location lives in that variable.
func (a *analysis) localValueRoot(e ast.Expr) bool {
	for {
		switch x := e.(type) {
		case *ast.ParenExpr:
			e = x.X
			continue
		case *ast.SelectorExpr:
			sel := a.info().Selections[x]
			if sel == nil || sel.Kind() != types.FieldVal {
				return false
			}
			if t := a.info().TypeOf(x.X); t == nil || isPointer(t) {
				return false
			}
			e = x.X
			continue
		case *ast.Ident:
			v, ok := a.info().Uses[x].(*types.Var)
			if !ok || v.IsField() || v.Pkg() == nil || v.Parent() == v.Pkg().Scope() {
				return false
			}
			_, isStruct := v.Type().Underlying().(*types.Struct)
			return isStruct
		}
		return false
	}
}

// syncCallback: functions outside the analysed packages known to call their function
// argument synchronously, on the calling goroutine, without retaining it.
func syncCallback(f *types.Func) bool {
	if f == nil || f.Pkg() == nil {
		return false
	}
	name := f.Pkg().Path() + "." + f.Name()
	if sig, ok := f.Type().(*types.Signature); ok && sig.Recv() != nil {
		if n := namedOf(sig.Recv().Type()); n != nil {
			name = f.Pkg().Path() + "." + n.Obj().Name() + "." + f.Name()
		}
	}
	switch name {
	case "sort.Slice", "sort.SliceStable", "sort.Search", "sort.SliceIsSorted", "slices.SortFunc",
		"slices.SortStableFunc", "slices.IndexFunc", "slices.ContainsFunc", "strings.Map",
		"strings.IndexFunc", "strings.FieldsFunc", "bytes.IndexFunc", "sync.Once.Do":
		return true
	}
	return false
}

func (a *analysis) expr(e ast.Expr, c ctx) {
	if e == nil {
		return
	}
	switch x := e.(type) {
	case *ast.ParenExpr:
		a.expr(x.X, c)
	case *ast.Ident:
		a.ident(x, c)
	case *ast.SelectorExpr:
		a.selector(x, c)
	case *ast.StarExpr:
		if isWriteCtx(c) {
			a.pubWrite(x.X, x.Pos())
			a.throughWrite(x.X, x.Pos())
		}
		if id, isId := x.X.(*ast.Ident); isId {
			if v, ok := a.info().Uses[id].(*types.Var); ok {
				if al, ok := a.ptrAlias[v]; ok {
					kc := c
					if kc == cPath || kc == cLockRecv || kc == cSyncRecv {
						kc = cRead
					}
					a.record(al[0], al[1], kindOf(kc), x.Pos(), false)
				}
			}
		}
		a.expr(x.X, cRead)
	case *ast.UnaryExpr:
		switch x.Op {
		case token.AND:
			if _, ok := x.X.(*ast.CompositeLit); ok {
				a.expr(x.X, cRead)
			} else if c == cAddrArg || c == cAtomic {
				a.expr(x.X, c)
			} else {
				a.expr(x.X, cAddrElse)
			}
		case token.ARROW:
			a.chanOp(x.X, "CRecv", x.Pos())
			a.expr(x.X, cRead)
		default:
			a.expr(x.X, cRead)
		}
	case *ast.BinaryExpr:
		a.expr(x.X, cRead)
		a.expr(x.Y, cRead)
	case *ast.IndexExpr:
		// generic instantiation f[T] has a type operand
		if tv, ok := a.info().Types[x.Index]; ok && tv.IsType() {
			a.expr(x.X, c)
			return
		}
		xt := a.info().TypeOf(x.X)
		if c == cPath {
			c = cRead
		}
		if xt != nil {
			if _, isPtr := xt.Underlying().(*types.Pointer); isPtr {
				a.expr(x.X, cRead)
			} else {
				a.expr(x.X, c) // map / slice / array element: attributed to the field holding it
			}
		} else {
			a.expr(x.X, c)
		}
		a.expr(x.Index, cRead)
	case *ast.IndexListExpr:
		a.expr(x.X, c)
	case *ast.SliceExpr:
		a.expr(x.X, cRead)
		a.expr(x.Low, cRead)
		a.expr(x.High, cRead)
		a.expr(x.Max, cRead)
	case *ast.TypeAssertExpr:
		a.expr(x.X, cRead)
	case *ast.KeyValueExpr:
		a.expr(x.Key, cRead)
		a.expr(x.Value, cRead)
	case *ast.CompositeLit:
		t := a.info().TypeOf(x)
		_, isStruct := deref(t).Underlying().(*types.Struct)
		for _, el := range x.Elts {
			if kv, ok := el.(*ast.KeyValueExpr); ok {
				if !isStruct {
					a.expr(kv.Key, cRead)
				}
				a.argOrExpr(kv.Value)
			} else {
				a.argOrExpr(el)
			}
		}
	case *ast.CallExpr:
		a.call(x, "call")
	case *ast.FuncLit:
		// a literal in a position we do not understand: it escapes
		n := a.litNode(x)
		a.force(n, "literal used as a value")
		a.analyseLit(n)
	case *ast.BasicLit, *ast.ArrayType, *ast.MapType, *ast.ChanType, *ast.FuncType, *ast.StructType, *ast.InterfaceType, *ast.Ellipsis:
	default:
		a.unknown("expression", e)
	}
}

// argOrExpr: a value stored somewhere (composite literal element, assignment RHS):
// function literals and function references escape.
func (a *analysis) argOrExpr(e ast.Expr) { a.expr(e, cRead) }

func (a *analysis) ident(x *ast.Ident, c ctx) {
	obj := a.info().Uses[x]
	if obj == nil {
		obj = a.info().Defs[x]
	}
	switch o := obj.(type) {
	case *types.Var:
		if isWriteCtx(c) {
			a.pubWrite(x, x.Pos())
		}
		if pp := a.params[o]; pp != nil {
			// a func-typed parameter used other than by calling/forwarding it
			pp.forced = true
		}
		if n := a.litVar[o]; n != nil {
			a.force(n, "literal variable used as a value")
		}
		if !o.IsField() && o.Parent() != nil && o.Pkg() != nil && o.Parent() == o.Pkg().Scope() && a.pkgOf[o.Pkg()] != nil {
			a.global(o, c, x.Pos())
		}
	case *types.Func:
		if n := a.byFunc[o]; n != nil {
			a.force(n, "function used as a value")
			if a.callOfInterest(n) {
				a.recordCall(n.name, "HValue", x.Pos())
			}
		}
	}
}

// publish: x.Store(v) on an atomic.Value / atomic.Pointer x (a field of a listed type or a
// package-level variable) with v a local variable: from here on the object v refers to is
// shared, so a write THROUGH v later in this function (v[i] = .., v.f = .., *v = ..,
// copy(v, ..)) is a plain write to published data: it is recorded as a KWrite access of x.
func (a *analysis) publish(recv ast.Expr, arg ast.Expr) {
	for {
		switch x := arg.(type) {
		case *ast.ParenExpr:
			arg = x.X
			continue
		case *ast.UnaryExpr:
			if x.Op == token.AND {
				arg = x.X
				continue
			}
		}
		break
	}
	id, ok := arg.(*ast.Ident)
	if !ok {
		return
	}
	v, ok := a.info().Uses[id].(*types.Var)
	if !ok || v.IsField() || v.Pkg() == nil || v.Parent() == v.Pkg().Scope() {
		return
	}
	var loc [2]string
	if fn := a.fieldName(recv); fn != "" {
		i := strings.LastIndex(fn, ".")
		loc = [2]string{fn[:i], fn[i+1:]}
	} else {
		for {
			if p, ok := recv.(*ast.ParenExpr); ok {
				recv = p.X
				continue
			}
			break
		}
		var gid *ast.Ident
		switch x := recv.(type) {
		case *ast.Ident:
			gid = x
		case *ast.SelectorExpr:
			if a.info().Selections[x] == nil {
				gid = x.Sel
			}
		}
		if gid == nil {
			return
		}
		g, ok := a.info().Uses[gid].(*types.Var)
		if !ok || g.Pkg() == nil || g.Parent() != g.Pkg().Scope() || a.pkgOf[g.Pkg()] == nil {
			return
		}
		loc = [2]string{"$" + g.Pkg().Name(), g.Name()}
	}
	key := fmt.Sprintf("!pub:%d", v.Pos())
	a.pubLoc[key] = loc
	a.st.may[key] = true
}

// throughWrite: base.g = .. / *base = .. where base is a pointer (or interface) that is
//   (a) a field of a listed type whose pointee is NOT a listed type:  x.f.g = ..      or
//   (b) a local variable that may still hold a copy of such a field:  p := x.f; p.g = ..
// (a reassignment of p, e.g. p = p.Clone(), ends (b)).  Recorded as a KWriteThrough access
// of x.f: the object behind a caller-supplied pointer is being modified.
func (a *analysis) throughWrite(base ast.Expr, pos token.Pos) {
	for {
		if p, ok := base.(*ast.ParenExpr); ok {
			base = p.X
			continue
		}
		break
	}
	t := a.info().TypeOf(base)
	if t == nil {
		return
	}
	if !isPointer(t) {
		if _, isIface := t.Underlying().(*types.Interface); !isIface {
			return
		}
	}
	if n := namedOf(t); n != nil {
		if _, listed := a.typeName(n); listed {
			return // the pointee's own fields are recorded as accesses of the listed type
		}
	}
	switch x := base.(type) {
	case *ast.SelectorExpr:
		if fn := a.fieldName(x); fn != "" {
			i := strings.LastIndex(fn, ".")
			a.record(fn[:i], fn[i+1:], "KWriteThrough", pos, a.rootFresh(x, x.Pos()))
		}
	case *ast.Ident:
		if v, ok := a.info().Uses[x].(*types.Var); ok {
			key := fmt.Sprintf("!from:%d", v.Pos())
			if a.st.may[key] {
				loc := a.aliasLoc[key]
				a.record(loc[0], loc[1], "KWriteThrough", pos, false)
			}
		}
	}
}

// aliasAssign: v := x.f / v = x.f with x.f a pointer- or interface-typed field of a listed
// type starts the alias, any other assignment to v ends it (on this path).
func (a *analysis) aliasAssign(lhs ast.Expr, rhs ast.Expr) {
	id, ok := lhs.(*ast.Ident)
	if !ok || id.Name == "_" {
		return
	}
	obj := a.info().Defs[id]
	if obj == nil {
		obj = a.info().Uses[id]
	}
	v, ok := obj.(*types.Var)
	if !ok || v.IsField() || v.Pkg() == nil || v.Parent() == v.Pkg().Scope() {
		return
	}
	key := fmt.Sprintf("!from:%d", v.Pos())
	for rhs != nil {
		if p, ok := rhs.(*ast.ParenExpr); ok {
			rhs = p.X
			continue
		}
		break
	}
	if se, ok := rhs.(*ast.SelectorExpr); ok {
		if fn := a.fieldName(se); fn != "" {
			if t := a.info().TypeOf(se); t != nil {
				_, isIface := t.Underlying().(*types.Interface)
				if isPointer(t) || isIface {
					i := strings.LastIndex(fn, ".")
					a.aliasLoc[key] = [2]string{fn[:i], fn[i+1:]}
					a.st.may[key] = true
					return
				}
			}
		}
	}
	delete(a.st.may, key)
}

// pubWrite: a write through the local id; if the local may have been published, record it.
func (a *analysis) pubWrite(e ast.Expr, pos token.Pos) {
	for {
		if p, ok := e.(*ast.ParenExpr); ok {
			e = p.X
			continue
		}
		break
	}
	id, ok := e.(*ast.Ident)
	if !ok {
		return
	}
	v, ok := a.info().Uses[id].(*types.Var)
	if !ok {
		return
	}
	key := fmt.Sprintf("!pub:%d", v.Pos())
	if a.st.may[key] {
		loc := a.pubLoc[key]
		a.record(loc[0], loc[1], "KWrite", pos, false)
	}
}

func isWriteCtx(c ctx) bool { return c == cWrite || c == cAddrArg || c == cAddrElse }

func (a *analysis) global(o *types.Var, c ctx, pos token.Pos) {
	if !a.globalsW[o] {
		return // never written after package initialisation: immutable
	}
	if k := syncKind(o.Type()); k != "" && (c == cLockRecv || c == cAtomic || c == cSyncRecv || c == cPath) {
		if k == "sync" {
			a.record("$"+o.Pkg().Name(), o.Name(), "KAtomic", pos, false)
		}
		return
	}
	if c == cPath || c == cLockRecv {
		return
	}
	a.record("$"+o.Pkg().Name(), o.Name(), kindOf(c), pos, false)
}

func (a *analysis) selector(x *ast.SelectorExpr, c ctx) {
	sel := a.info().Selections[x]
	if sel == nil {
		// qualified identifier pkg.Name
		a.ident(x.Sel, c)
		return
	}
	switch sel.Kind() {
	case types.FieldVal:
		owner, fv := fieldOwner(sel)
		tname, ok := a.typeName(owner)
		ft := fv.Type()
		_, ftIsStruct := ft.Underlying().(*types.Struct)
		sk := syncKind(ft)
		if isPointer(ft) {
			sk = "" // a pointer to a sync value: the field itself is an ordinary location
		}
		recordHere := ok
		if ok {
			switch {
			case c == cPath && ftIsStruct:
				recordHere = false // prefix of a longer path into an interest or sync struct
			case c == cLockRecv && !isPointer(ft):
				recordHere = false
			}
		}
		if recordHere && a.localValueRoot(x) {
			recordHere = false // a field of a struct VALUE held in a local variable (a copy)
		}
		if recordHere {
			kc := c
			if kc == cPath || kc == cLockRecv {
				kc = cRead
			}
			if sk != "" && (c == cAtomic || c == cPath) {
				kc = cAtomic
			}
			if c == cSyncRecv {
				// receiver of a method of a sync.* type: through a pointer field it is a read
				// of the field, on a value field it is a synchronisation operation on it
				if isPointer(ft) {
					kc = cRead
				} else {
					kc = cAtomic
				}
			}
			a.record(tname, fv.Name(), kindOf(kc), x.Sel.Pos(), a.rootFresh(x, x.Pos()))
		}
		// the operand
		xt := a.info().TypeOf(x.X)
		if isWriteCtx(c) {
			a.pubWrite(x.X, x.Sel.Pos())
			a.throughWrite(x.X, x.Sel.Pos())
		}
		if id, isId := x.X.(*ast.Ident); isId {
			if v, ok := a.info().Uses[id].(*types.Var); ok {
				if al, ok := a.ptrAlias[v]; ok {
					// p.g where p := &y.f[...] : also an access of y.f
					kc := c
					if kc == cPath || kc == cLockRecv || kc == cSyncRecv {
						kc = cRead
					}
					a.record(al[0], al[1], kindOf(kc), x.Sel.Pos(), false)
				}
			}
		}
		if xt != nil && isPointer(xt) {
			a.expr(x.X, cRead)
		} else if ok {
			a.expr(x.X, cPath)
		} else {
			// owner not of interest: the access belongs to the enclosing field, if any
			if c == cLockRecv {
				c = cPath
			}
			a.expr(x.X, c)
		}
	case types.MethodVal:
		// method value (not in call position)
		if f, ok := sel.Obj().(*types.Func); ok {
			if n := a.byFunc[f]; n != nil {
				a.force(n, "method value")
				if a.callOfInterest(n) {
					a.recordCall(n.name, "HValue", x.Pos())
				}
			}
		}
		a.unknown("method-value", x)
		a.expr(x.X, cRead)
	default:
		a.expr(x.X, cRead)
	}
}

func (a *analysis) chanOp(e ast.Expr, kind string, pos token.Pos) { a.chanOpHow(e, kind, pos, "call") }

func (a *analysis) chanOpHow(e ast.Expr, kind string, pos token.Pos, how string) {
	for {
		if p, ok := e.(*ast.ParenExpr); ok {
			e = p.X
			continue
		}
		break
	}
	x, ok := e.(*ast.SelectorExpr)
	if !ok {
		return
	}
	sel := a.info().Selections[x]
	if sel == nil || sel.Kind() != types.FieldVal {
		return
	}
	owner, fv := fieldOwner(sel)
	tname, ok := a.typeName(owner)
	if !ok {
		return
	}
	if _, isChan := fv.Type().Underlying().(*types.Chan); !isChan {
		return
	}
	a.recordCall(map[string]string{"CSend": "send", "CRecv": "recv", "CClose": "close"}[kind]+"("+tname+"."+fv.Name()+")", howOf(how), pos)
	f := chanFact{tname, fv.Name(), kind, a.cur.name, a.posStr(pos)}
	a.chans[f.typ+"|"+f.field+"|"+f.kind+"|"+f.fn] = f
}

// ----------------------------------------------------------------------------- calls

func (a *analysis) force(n *node, why string) {
	if !n.forced {
		n.forced = true
		n.why = why
	}
}

func (a *analysis) litNode(l *ast.FuncLit) *node {
	if n := a.byLit[l]; n != nil {
		return n
	}
	root := a.cur
	for root.parent != nil {
		root = root.parent
	}
	root.nlits++
	n := &node{name: fmt.Sprintf("%s$%d", root.name, root.nlits), lit: l, pkg: a.cur.pkg, parent: a.cur}
	a.byLit[l] = n
	a.nodes = append(a.nodes, n)
	// parameters of the literal
	a.declareParams(n, l.Type)
	return n
}

func (a *analysis) declareParams(n *node, ft *ast.FuncType) {
	if ft.Params == nil {
		return
	}
	i := 0
	for _, f := range ft.Params.List {
		names := f.Names
		if len(names) == 0 {
			i++
			continue
		}
		for _, id := range names {
			if v, ok := n.pkg.TypesInfo.Defs[id].(*types.Var); ok {
				if _, isFn := v.Type().Underlying().(*types.Signature); isFn {
					a.params[v] = &pparam{owner: n, index: i}
				}
			}
			i++
		}
	}
}

// lockName resolves the receiver of a Lock/Unlock call to a lock name, or "".
func (a *analysis) lockName(recv ast.Expr, promoted []int, recvT types.Type) string {
	for {
		if p, ok := recv.(*ast.ParenExpr); ok {
			recv = p.X
			continue
		}
		break
	}
	if len(promoted) > 1 {
		// x.Lock() with an embedded mutex: walk the embedding path
		t := recvT
		var owner *types.Named
		var fv *types.Var
		for _, idx := range promoted[:len(promoted)-1] {
			owner = namedOf(t)
			st, ok := deref(t).Underlying().(*types.Struct)
			if !ok {
				return ""
			}
			fv = st.Field(idx)
			if isPointer(fv.Type()) {
				return ""
			}
			t = fv.Type()
		}
		if owner == nil {
			return ""
		}
		return a.displayName(owner) + "." + fv.Name()
	}
	switch x := recv.(type) {
	case *ast.SelectorExpr:
		sel := a.info().Selections[x]
		if sel == nil {
			// pkg.Var
			if v, ok := a.info().Uses[x.Sel].(*types.Var); ok && !isPointer(v.Type()) {
				return "$" + v.Pkg().Name() + "." + v.Name()
			}
			return ""
		}
		if sel.Kind() != types.FieldVal {
			return ""
		}
		owner, fv := fieldOwner(sel)
		if owner == nil || isPointer(fv.Type()) {
			return ""
		}
		return a.displayName(owner) + "." + fv.Name()
	case *ast.Ident:
		v, ok := a.info().Uses[x].(*types.Var)
		if !ok || isPointer(v.Type()) {
			return ""
		}
		if v.Parent() == v.Pkg().Scope() {
			return "$" + v.Pkg().Name() + "." + v.Name()
		}
		root := a.cur
		for root.parent != nil {
			root = root.parent
		}
		return "$local." + root.name + "." + v.Name()
	}
	return ""
}

// calleeOf classifies the function expression of a call.
type callee struct {
	kind   string // "conv","builtin","atomicfn","lock","syncmethod","node","iface","foreign","litcall","param","litvar","funcvalue"
	name   string
	nodes  []*node
	pp     *pparam
	sel    *ast.SelectorExpr
	fn     *types.Func
	lockOp string
}

func (a *analysis) classify(c *ast.CallExpr) callee {
	fun := c.Fun
	for {
		if p, ok := fun.(*ast.ParenExpr); ok {
			fun = p.X
			continue
		}
		break
	}
	if tv, ok := a.info().Types[fun]; ok && tv.IsType() {
		return callee{kind: "conv"}
	}
	switch x := fun.(type) {
	case *ast.FuncLit:
		return callee{kind: "litcall"}
	case *ast.IndexExpr: // generic instantiation
		fun = x.X
	case *ast.IndexListExpr:
		fun = x.X
	}
	switch x := fun.(type) {
	case *ast.Ident:
		switch o := a.info().Uses[x].(type) {
		case *types.Builtin:
			return callee{kind: "builtin", name: o.Name()}
		case *types.Func:
			return a.funcCallee(o, nil)
		case *types.Var:
			if pp := a.params[o]; pp != nil {
				return callee{kind: "param", pp: pp}
			}
			if n := a.litVar[o]; n != nil {
				return callee{kind: "litvar", nodes: []*node{n}}
			}
			return callee{kind: "funcvalue"}
		}
	case *ast.SelectorExpr:
		sel := a.info().Selections[x]
		if sel == nil {
			if o, ok := a.info().Uses[x.Sel].(*types.Func); ok {
				return a.funcCallee(o, nil)
			}
			return callee{kind: "funcvalue", sel: x}
		}
		switch sel.Kind() {
		case types.MethodVal:
			f := sel.Obj().(*types.Func)
			sig := f.Type().(*types.Signature)
			if sig.Recv() != nil {
				if _, isIface := sig.Recv().Type().Underlying().(*types.Interface); isIface {
					return a.ifaceCallee(f, x)
				}
				if k := syncKind(sig.Recv().Type()); k == "mutex" || k == "rwmutex" {
					return callee{kind: "lock", lockOp: f.Name(), sel: x, fn: f}
				} else if k == "sync" {
					return callee{kind: "syncmethod", sel: x, fn: f, name: f.Name()}
				}
			}
			cl := a.funcCallee(f, x)
			return cl
		case types.FieldVal:
			return callee{kind: "funcvalue", sel: x}
		}
	}
	return callee{kind: "funcvalue"}
}

func (a *analysis) funcCallee(f *types.Func, sel *ast.SelectorExpr) callee {
	f = f.Origin()
	if n := a.byFunc[f]; n != nil {
		return callee{kind: "node", nodes: []*node{n}, sel: sel, fn: f}
	}
	if f.Pkg() != nil && f.Pkg().Path() == "sync/atomic" {
		return callee{kind: "atomicfn", fn: f, sel: sel}
	}
	return callee{kind: "foreign", fn: f, sel: sel}
}

func (a *analysis) ifaceCallee(f *types.Func, sel *ast.SelectorExpr) callee {
	it, _ := f.Type().(*types.Signature).Recv().Type().Underlying().(*types.Interface)
	var ns []*node
	if it != nil {
		for _, nt := range a.named {
			if _, isI := nt.Underlying().(*types.Interface); isI {
				continue
			}
			for _, t := range []types.Type{nt, types.NewPointer(nt)} {
				if types.Implements(t, it) {
					ms := types.NewMethodSet(t)
					if m := ms.Lookup(f.Pkg(), f.Name()); m != nil {
						if mf, ok := m.Obj().(*types.Func); ok {
							if n := a.byFunc[mf.Origin()]; n != nil {
								ns = append(ns, n)
							}
						}
					}
					break
				}
			}
		}
	}
	return callee{kind: "iface", nodes: ns, sel: sel, fn: f}
}

// how: "call", "go", "defer"
func (a *analysis) call(c *ast.CallExpr, how string) {
	cl := a.classify(c)
	// the state with which a callee starts
	siteState := func() *rel {
		switch how {
		case "go":
			r := newRel()
			r.killAll = true
			return r
		case "defer":
			r := newRel()
			r.killAll = true
			for k := range a.st.gen {
				if a.deferred[k] {
					r.gen[k] = true
				}
			}
			return r
		}
		return a.st.clone()
	}

	switch cl.kind {
	case "conv":
		for _, arg := range c.Args {
			a.expr(arg, cRead)
		}
		return
	case "builtin":
		switch cl.name {
		case "close":
			if len(c.Args) == 1 {
				a.chanOpHow(c.Args[0], "CClose", c.Pos(), how)
			}
			a.args(c, nil, cRead)
		case "delete", "clear":
			if len(c.Args) > 0 {
				a.expr(c.Args[0], cWrite)
				for _, x := range c.Args[1:] {
					a.expr(x, cRead)
				}
			}
		case "copy":
			if len(c.Args) == 2 {
				a.expr(c.Args[0], cWrite)
				a.expr(c.Args[1], cRead)
			}
		case "panic":
			a.args(c, nil, cRead)
			if how == "call" {
				a.st = bottom()
			}
		case "new", "make":
			if cl.name == "make" && len(c.Args) >= 1 {
				if t := a.info().TypeOf(c.Args[0]); t != nil {
					if _, isChan := t.Underlying().(*types.Chan); isChan {
						capText := "0"
						if len(c.Args) >= 2 {
							capText = "?"
							if tv, ok := a.info().Types[c.Args[1]]; ok && tv.Value != nil {
								capText = tv.Value.ExactString()
							}
						}
						a.recordCall("makechan("+types.TypeString(t, func(p *types.Package) string { return "" })+","+capText+")", "HCall", c.Pos())
					}
				}
			}
			for _, x := range c.Args[1:] {
				a.expr(x, cRead)
			}
		default:
			a.args(c, nil, cRead)
		}
		return
	case "atomicfn":
		for i, arg := range c.Args {
			if i == 0 {
				if u, ok := arg.(*ast.UnaryExpr); ok && u.Op == token.AND {
					a.expr(u.X, cAtomic)
					continue
				}
			}
			a.expr(arg, cRead)
		}
		if cl.sel != nil && a.info().Selections[cl.sel] != nil {
			a.expr(cl.sel.X, cAtomic) // method of an atomic.* value reached through funcCallee
		}
		return
	case "lock":
		sel := a.info().Selections[cl.sel]
		name := a.lockName(cl.sel.X, sel.Index(), sel.Recv())
		// the path to the mutex
		if len(sel.Index()) > 1 {
			a.expr(cl.sel.X, cRead)
		} else {
			a.expr(cl.sel.X, cLockRecv)
		}
		if how == "go" {
			a.unknown("lock-op-in-go", c)
			return
		}
		op := cl.lockOp
		if name == "" {
			a.recordCall(strings.ToLower(op)+"(?"+a.nodeText(cl.sel.X)+")", howOf(how), c.Pos())
			a.unknown("lock-via-alias:"+op, cl.sel.X)
			if (op == "Unlock" || op == "RUnlock") && how == "call" {
				a.st.unlockUnknown()
			}
			if (op == "Unlock" || op == "RUnlock") && how == "defer" {
				// a deferred release through an alias releases nothing we track
			}
			return
		}
		a.universe[name+"/W"] = true
		a.universe[name+"/R"] = true
		if a.lockOfInterest(name) {
			a.recordCall(strings.ToLower(op)+"("+name+")", howOf(how), c.Pos())
		}
		switch op {
		case "Lock":
			if how == "call" {
				a.st.lock(name + "/W")
			}
		case "RLock":
			if how == "call" {
				a.st.lock(name + "/R")
			}
		case "Unlock":
			if how == "call" {
				a.st.unlock(name + "/W")
			} else if how == "defer" {
				a.deferred[name+"/W"] = true
			}
		case "RUnlock":
			if how == "call" {
				a.st.unlock(name + "/R")
			} else if how == "defer" {
				a.deferred[name+"/R"] = true
			}
		case "TryLock", "TryRLock":
			a.unknown("trylock", c) // not counted as an acquisition
		case "RLocker":
			a.unknown("rlocker", c)
		}
		return
	case "syncmethod":
		// method of a sync.* / atomic.* value: a synchronisation operation on the field
		a.expr(cl.sel.X, cSyncRecv)
		if fn := a.fieldName(cl.sel.X); fn != "" {
			a.recordCall(fn+"."+cl.name, howOf(how), c.Pos())
		}
		if how == "call" && (cl.name == "Store" || cl.name == "Swap" || cl.name == "CompareAndSwap") && len(c.Args) > 0 {
			a.publish(cl.sel.X, c.Args[len(c.Args)-1])
		}
		if syncCallback(cl.fn) && how == "call" {
			a.syncArgs(c)
		} else {
			a.args(c, nil, cRead)
		}
		return
	case "litcall":
		fun := c.Fun
		for {
			if p, ok := fun.(*ast.ParenExpr); ok {
				fun = p.X
				continue
			}
			break
		}
		n := a.litNode(fun.(*ast.FuncLit))
		a.args(c, nil, cRead)
		n.sites = append(n.sites, site{a.cur, siteState()})
		if how == "go" {
			n.goBody = true
			a.recordCall("go:"+n.name, "HGo", c.Pos())
			g := goFact{a.cur.name, n.name, a.posStr(c.Pos())}
			a.gos[g.spawner+"|"+g.body] = g
		}
		a.analyseLit(n)
		return
	case "param":
		a.args(c, nil, cRead)
		if how == "call" {
			cl.pp.sites = append(cl.pp.sites, site{a.cur, a.st.clone()})
		} else {
			cl.pp.forced = true
		}
		return
	case "litvar":
		a.args(c, nil, cRead)
		cl.nodes[0].sites = append(cl.nodes[0].sites, site{a.cur, siteState()})
		if how == "go" {
			cl.nodes[0].goBody = true
			g := goFact{a.cur.name, cl.nodes[0].name, a.posStr(c.Pos())}
			a.gos[g.spawner+"|"+g.body] = g
		}
		return
	case "funcvalue":
		if cl.sel != nil {
			if fn := a.fieldName(cl.sel); fn != "" {
				a.recordCall(fn+"()", howOf(how), c.Pos()) // x.f(...) with f a func-typed field
			}
			a.expr(cl.sel, cRead)
		} else {
			a.expr(c.Fun, cRead)
		}
		a.args(c, nil, cRead)
		if how == "go" {
			g := goFact{a.cur.name, "<func value " + a.nodeText(c.Fun) + ">", a.posStr(c.Pos())}
			a.gos[g.spawner+"|"+g.body] = g
		}
		return
	}

	// node / iface / foreign: receiver, arguments, call edges
	if cl.sel != nil && a.info().Selections[cl.sel] != nil {
		if cl.kind == "iface" && cl.fn != nil {
			if fn := a.fieldName(cl.sel.X); fn != "" {
				a.recordCall(fn+"."+cl.fn.Name(), howOf(how), c.Pos()) // x.f.M() with f an interface-typed field
			}
		}
		a.receiver(cl)
	}
	var target []*node
	if cl.kind == "node" || cl.kind == "iface" {
		target = cl.nodes
	}
	if cl.kind == "foreign" && syncCallback(cl.fn) && how == "call" {
		a.syncArgs(c)
	} else {
		a.args(c, target, cAddrArg)
	}
	st := siteState()
	for _, n := range target {
		n.sites = append(n.sites, site{a.cur, st})
		if a.callOfInterest(n) {
			a.recordCall(n.name, howOf(how), c.Pos())
		}
		if how == "go" {
			n.goBody = true
			g := goFact{a.cur.name, n.name, a.posStr(c.Pos())}
			a.gos[g.spawner+"|"+g.body] = g
		}
	}
	if how == "go" && len(target) == 0 {
		g := goFact{a.cur.name, "<" + a.nodeText(c.Fun) + ">", a.posStr(c.Pos())}
		a.gos[g.spawner+"|"+g.body] = g
	}
}

// receiver of a method call x.m(...)
func (a *analysis) receiver(cl callee) {
	x := cl.sel.X
	xt := a.info().TypeOf(x)
	sig, _ := cl.fn.Type().(*types.Signature)
	ptrRecv := sig != nil && sig.Recv() != nil && isPointer(sig.Recv().Type())
	if xt == nil || isPointer(xt) || !ptrRecv {
		if xt != nil && !isPointer(xt) && !ptrRecv {
			a.expr(x, cRead) // value receiver: the value is copied
			return
		}
		a.expr(x, cRead)
		return
	}
	if _, isIface := xt.Underlying().(*types.Interface); isIface {
		a.expr(x, cRead)
		return
	}
	// pointer-receiver method on an addressable value: &x is passed to the callee
	if n := namedOf(xt); n != nil {
		if _, ok := a.typeName(n); ok {
			if _, isStruct := n.Underlying().(*types.Struct); isStruct {
				a.expr(x, cPath) // the callee's accesses are recorded in the callee
				return
			}
		}
	}
	a.expr(x, cAddrArg)
}

// args walks the arguments of a call; target: analysed callee(s) (for binding function
// literals and forwarded parameters), addr: context for &x.f arguments.
func (a *analysis) args(c *ast.CallExpr, target []*node, addr ctx) {
	for i, arg := range c.Args {
		for {
			if p, ok := arg.(*ast.ParenExpr); ok {
				arg = p.X
				continue
			}
			break
		}
		switch x := arg.(type) {
		case *ast.FuncLit:
			n := a.litNode(x)
			if pp := a.targetParam(target, i); pp != nil && !n.forced && n.param == nil {
				n.param = pp
				n.bind = &site{a.cur, a.st.clone()}
			} else if n.param != nil && n.param == a.targetParam(target, i) {
				n.bind = &site{a.cur, a.st.clone()} // re-analysis in a loop fixpoint: latest state
			} else if !(n.param != nil && n.param == a.targetParam(target, i)) {
				a.force(n, "literal passed to a function that is not analysed")
			}
			a.analyseLit(n)
			continue
		case *ast.Ident:
			if v, ok := a.info().Uses[x].(*types.Var); ok {
				if pp := a.params[v]; pp != nil {
					if tp := a.targetParam(target, i); tp != nil {
						found := false
						for _, f := range pp.forwards {
							if f == tp {
								found = true
							}
						}
						if !found {
							pp.forwards = append(pp.forwards, tp)
						}
					} else {
						pp.forced = true
					}
					continue
				}
				if n := a.litVar[v]; n != nil {
					if tp := a.targetParam(target, i); tp != nil && n.param == nil && !n.forced && len(n.sites) == 0 {
						n.param = tp
					} else if !(n.param != nil && n.param == a.targetParam(target, i)) {
						a.force(n, "literal variable passed on")
					}
					continue
				}
			}
		case *ast.UnaryExpr:
			if x.Op == token.AND {
				if _, isLit := x.X.(*ast.CompositeLit); !isLit {
					a.expr(x.X, addr)
					continue
				}
			}
		}
		a.expr(arg, cRead)
	}
}

// syncArgs: arguments of a call to a foreign function that runs its callback synchronously:
// a function literal argument is analysed as if called in place.
func (a *analysis) syncArgs(c *ast.CallExpr) {
	for _, arg := range c.Args {
		if fl, ok := arg.(*ast.FuncLit); ok {
			n := a.litNode(fl)
			n.sites = append(n.sites, site{a.cur, a.st.clone()})
			a.analyseLit(n)
			continue
		}
		a.expr(arg, cRead)
	}
}

func (a *analysis) targetParam(target []*node, i int) *pparam {
	if len(target) != 1 {
		return nil // dynamic dispatch or foreign: not followed
	}
	n := target[0]
	var ft *ast.FuncType
	if n.decl != nil {
		ft = n.decl.Type
	} else {
		ft = n.lit.Type
	}
	if ft.Params == nil {
		return nil
	}
	k := 0
	for _, f := range ft.Params.List {
		cnt := len(f.Names)
		if cnt == 0 {
			cnt = 1
		}
		for j := 0; j < cnt; j++ {
			if k == i && len(f.Names) > 0 {
				if _, variadic := f.Type.(*ast.Ellipsis); variadic {
					return nil
				}
				if v, ok := n.pkg.TypesInfo.Defs[f.Names[j]].(*types.Var); ok {
					return a.params[v]
				}
			}
			k++
		}
	}
	return nil
}

// ----------------------------------------------------------------------------- statements

func (a *analysis) analyseLit(n *node) {
	if n.analysed {
		// re-analysed on every pass of an enclosing loop fixpoint: facts are keyed by position
	}
	n.analysed = true
	saveCur, saveSt, saveFrames, saveDef, saveGotos := a.cur, a.st, a.frames, a.deferred, a.gotos
	a.cur, a.st, a.frames, a.deferred, a.gotos = n, newRel(), nil, map[string]bool{}, map[string][]*rel{}
	a.block(n.lit.Body.List)
	a.cur, a.st, a.frames, a.deferred, a.gotos = saveCur, saveSt, saveFrames, saveDef, saveGotos
}

func (a *analysis) block(list []ast.Stmt) {
	for i, s := range list {
		if ls, ok := s.(*ast.LabeledStmt); ok && a.isGotoTarget(ls.Label.Name) {
			// a label that is the target of a goto: the rest of the block is iterated to a
			// fixpoint with the states of all gotos joined in at the label
			lbl := ls.Label.Name
			in := a.st.clone()
			h := in.clone()
			for _, g := range a.gotos[lbl] {
				h = meet(h, g)
			}
			for iter := 0; iter < 50; iter++ {
				a.gotos[lbl] = nil
				a.st = h.clone()
				a.stmt(ls.Stmt, lbl)
				for _, r := range list[i+1:] {
					a.stmt(r, "")
				}
				h2 := in.clone()
				for _, g := range a.gotos[lbl] {
					h2 = meet(h2, g)
				}
				h2 = meet(h2, h)
				if h2.equal(h) {
					return
				}
				h = h2
			}
			a.unknown("goto-fixpoint-not-reached", ls.Label)
			a.st = newRel()
			a.st.unlockUnknown()
			return
		}
		a.stmt(s, "")
	}
}

func (a *analysis) isGotoTarget(label string) bool {
	root := a.cur
	for root.parent != nil {
		root = root.parent
	}
	var body *ast.BlockStmt
	if a.cur.lit != nil {
		body = a.cur.lit.Body
	} else {
		body = root.decl.Body
	}
	found := false
	ast.Inspect(body, func(n ast.Node) bool {
		if b, ok := n.(*ast.BranchStmt); ok && b.Tok == token.GOTO && b.Label != nil && b.Label.Name == label {
			found = true
		}
		return !found
	})
	return found
}

func (a *analysis) findFrame(label string, needLoop bool) *frame {
	for i := len(a.frames) - 1; i >= 0; i-- {
		f := a.frames[i]
		if label != "" {
			if f.label == label {
				return f
			}
			continue
		}
		if !needLoop || f.isLoop {
			return f
		}
	}
	return nil
}

func (a *analysis) assignLHS(e ast.Expr, define bool) {
	if id, ok := e.(*ast.Ident); ok {
		if id.Name == "_" {
			return
		}
		obj := a.info().Defs[id]
		if obj == nil {
			obj = a.info().Uses[id]
		}
		if v, ok := obj.(*types.Var); ok {
			if n := a.litVar[v]; n != nil && !define {
				a.force(n, "literal variable reassigned")
			}
			if pp := a.params[v]; pp != nil {
				pp.forced = true
			}
			if v.Pkg() != nil && v.Parent() == v.Pkg().Scope() {
				a.global(v, cWrite, id.Pos())
			}
		}
		return
	}
	a.expr(e, cWrite)
}

func (a *analysis) stmt(s ast.Stmt, label string) {
	if s == nil {
		return
	}
	switch x := s.(type) {
	case *ast.BlockStmt:
		a.block(x.List)
	case *ast.ExprStmt:
		a.expr(x.X, cRead)
	case *ast.EmptyStmt:
	case *ast.LabeledStmt:
		a.stmt(x.Stmt, x.Label.Name)
	case *ast.SendStmt:
		a.chanOp(x.Chan, "CSend", x.Pos())
		a.expr(x.Chan, cRead)
		a.expr(x.Value, cRead)
	case *ast.IncDecStmt:
		a.assignLHS(x.X, false)
	case *ast.AssignStmt:
		// binding of function literals to local variables
		for i, r := range x.Rhs {
			if fl, ok := r.(*ast.FuncLit); ok && len(x.Lhs) == len(x.Rhs) {
				if id, ok := x.Lhs[i].(*ast.Ident); ok {
					obj := a.info().Defs[id]
					if obj == nil {
						obj = a.info().Uses[id]
					}
					if v, ok := obj.(*types.Var); ok && v.Parent() != v.Pkg().Scope() {
						n := a.litNode(fl)
						if old := a.litVar[v]; old != nil && old != n {
							a.force(old, "literal variable reassigned")
							a.force(n, "literal variable reassigned")
						}
						a.litVar[v] = n
						a.analyseLit(n)
						continue
					}
				}
			}
			if a.aliasDef(x, i, r) {
				continue
			}
			a.expr(r, cRead)
		}
		for i, l := range x.Lhs {
			if i < len(x.Rhs) && len(x.Lhs) == len(x.Rhs) {
				if _, ok := x.Rhs[i].(*ast.FuncLit); ok {
					if _, isId := l.(*ast.Ident); isId {
						continue
					}
				}
			}
			a.assignLHS(l, x.Tok == token.DEFINE)
		}
		if !a.st.bottom {
			for i, l := range x.Lhs {
				if len(x.Lhs) == len(x.Rhs) {
					a.aliasAssign(l, x.Rhs[i])
				} else {
					a.aliasAssign(l, nil)
				}
			}
		}
	case *ast.GoStmt:
		a.call(x.Call, "go")
	case *ast.DeferStmt:
		a.call(x.Call, "defer")
	case *ast.ReturnStmt:
		for _, r := range x.Results {
			a.expr(r, cRead)
		}
		// return statements of listed functions are call facts too ("return(F)"): their lockset and
		// must-/may-have-called sets say what every exit of F has done (C12: Transport.grabPool)
		if a.cur != nil && returnsOfInterest[a.cur.name] {
			a.recordCall("return("+a.cur.name+")", "HCall", x.Pos())
		}
		a.st = bottom()
	case *ast.BranchStmt:
		lbl := ""
		if x.Label != nil {
			lbl = x.Label.Name
		}
		switch x.Tok {
		case token.BREAK:
			if f := a.findFrame(lbl, false); f != nil {
				f.breaks = append(f.breaks, a.st.clone())
			}
			a.st = bottom()
		case token.CONTINUE:
			if f := a.findFrame(lbl, true); f != nil {
				f.continues = append(f.continues, a.st.clone())
			}
			a.st = bottom()
		case token.GOTO:
			a.gotos[lbl] = append(a.gotos[lbl], a.st.clone())
			a.st = bottom()
		case token.FALLTHROUGH:
			a.unknown("fallthrough", x)
		}
	case *ast.IfStmt:
		a.stmt(x.Init, "")
		a.expr(x.Cond, cRead)
		in := a.st.clone()
		a.block(x.Body.List)
		thenOut := a.st
		a.st = in
		if x.Else != nil {
			a.stmt(x.Else, "")
		}
		a.st = meet(thenOut, a.st)
		if thenOut.bottom && a.st.bottom {
			a.st = bottom()
		}
	case *ast.ForStmt:
		a.stmt(x.Init, "")
		a.loop(label, func() {
			a.expr(x.Cond, cRead)
		}, func() {
			a.block(x.Body.List)
		}, func() { a.stmt(x.Post, "") }, x.Cond == nil)
	case *ast.RangeStmt:
		a.expr(x.X, cRead)
		if t := a.info().TypeOf(x.X); t != nil {
			if _, isChan := t.Underlying().(*types.Chan); isChan {
				a.chanOp(x.X, "CRecv", x.Pos())
			}
		}
		a.loop(label, func() {
			if x.Key != nil {
				a.assignLHS(x.Key, x.Tok == token.DEFINE)
			}
			if x.Value != nil {
				a.assignLHS(x.Value, x.Tok == token.DEFINE)
			}
		}, func() { a.block(x.Body.List) }, func() {}, false)
	case *ast.SwitchStmt:
		a.stmt(x.Init, "")
		a.expr(x.Tag, cRead)
		a.clauses(label, x.Body.List, false)
	case *ast.TypeSwitchStmt:
		a.stmt(x.Init, "")
		a.stmt(x.Assign, "")
		a.clauses(label, x.Body.List, false)
	case *ast.SelectStmt:
		a.clauses(label, x.Body.List, true)
	case *ast.DeclStmt:
		if gd, ok := x.Decl.(*ast.GenDecl); ok {
			for _, sp := range gd.Specs {
				if vs, ok := sp.(*ast.ValueSpec); ok {
					for i, v := range vs.Values {
						if fl, ok := v.(*ast.FuncLit); ok && i < len(vs.Names) {
							if vv, ok := a.info().Defs[vs.Names[i]].(*types.Var); ok {
								n := a.litNode(fl)
								a.litVar[vv] = n
								a.analyseLit(n)
								continue
							}
						}
						a.expr(v, cRead)
					}
				}
			}
		}
	default:
		a.unknown("statement", s)
	}
}

// aliasDef: p := &y.f / &y.f[i] / &y.f.g where p never escapes the function (it is only
// dereferenced or used to select fields).  The definition is then a read of the path, and
// every use of p is recorded as an access of the field as well (see selector / StarExpr).
func (a *analysis) aliasDef(as *ast.AssignStmt, i int, r ast.Expr) bool {
	if as.Tok != token.DEFINE || len(as.Lhs) != len(as.Rhs) {
		return false
	}
	u, ok := r.(*ast.UnaryExpr)
	if !ok || u.Op != token.AND {
		return false
	}
	id, ok := as.Lhs[i].(*ast.Ident)
	if !ok {
		return false
	}
	v, ok := a.info().Defs[id].(*types.Var)
	if !ok {
		return false
	}
	// the field of interest the address points into: the outermost interest field on the path
	var typ, field string
	e := u.X
	for e != nil {
		switch x := e.(type) {
		case *ast.ParenExpr:
			e = x.X
		case *ast.IndexExpr:
			e = x.X
		case *ast.SelectorExpr:
			sel := a.info().Selections[x]
			if sel == nil || sel.Kind() != types.FieldVal {
				e = nil
				break
			}
			if typ == "" {
				owner, fv := fieldOwner(sel)
				if tn, ok := a.typeName(owner); ok {
					typ, field = tn, fv.Name()
				}
			}
			if t := a.info().TypeOf(x.X); t != nil && isPointer(t) {
				e = nil
			} else {
				e = x.X
			}
		default:
			e = nil
		}
	}
	if typ == "" {
		return false
	}
	// every use of p must be *p or p.g (a field), outside function literals
	root := a.cur
	for root.parent != nil {
		root = root.parent
	}
	if a.cur.lit != nil || root.decl == nil {
		return false
	}
	okUse := true
	var stack []ast.Node
	ast.Inspect(root.decl.Body, func(nd ast.Node) bool {
		if nd == nil {
			stack = stack[:len(stack)-1]
			return true
		}
		stack = append(stack, nd)
		uid, isId := nd.(*ast.Ident)
		if !isId || a.info().Uses[uid] != v {
			return true
		}
		for _, s := range stack {
			if _, isLit := s.(*ast.FuncLit); isLit {
				okUse = false
			}
		}
		if len(stack) < 2 {
			okUse = false
			return true
		}
		switch par := stack[len(stack)-2].(type) {
		case *ast.StarExpr:
		case *ast.SelectorExpr:
			if sel := a.info().Selections[par]; par.X != uid || sel == nil || sel.Kind() != types.FieldVal {
				okUse = false
			}
		default:
			okUse = false
		}
		return true
	})
	if !okUse {
		return false
	}
	a.ptrAlias[v] = [2]string{typ, field}
	a.expr(u.X, cRead)
	return true
}

func (a *analysis) loop(label string, head, body, post func(), noCond bool) {
	in := a.st.clone()
	h := in.clone()
	var f *frame
	for iter := 0; iter < 50; iter++ {
		f = &frame{label: label, isLoop: true}
		a.frames = append(a.frames, f)
		a.st = h.clone()
		head()
		afterHead := a.st.clone()
		body()
		out := a.st
		for _, c := range f.continues {
			out = meet(out, c)
		}
		a.st = out
		post()
		out = a.st
		a.frames = a.frames[:len(a.frames)-1]
		h2 := meet(in, out)
		if in.bottom {
			h2 = in.clone()
		}
		// exit state
		var exit *rel
		if noCond {
			exit = bottom()
		} else {
			exit = afterHead
		}
		for _, b := range f.breaks {
			exit = meet(exit, b)
		}
		if h2.equal(h) {
			a.st = exit
			return
		}
		h = h2
	}
	a.unknown("loop-fixpoint-not-reached", &ast.Ident{Name: label})
	a.st = newRel()
	a.st.unlockUnknown()
}

func (a *analysis) clauses(label string, list []ast.Stmt, isSelect bool) {
	if isSelect {
		// Go evaluates the channel operands (and send values) of every case on entry, before
		// choosing one: calls such as r.stctx.Done() happen whichever case is taken
		for _, cs := range list {
			cc, ok := cs.(*ast.CommClause)
			if !ok || cc.Comm == nil {
				continue
			}
			var arrow ast.Expr
			switch x := cc.Comm.(type) {
			case *ast.SendStmt:
				a.callsIn(x.Chan)
				a.callsIn(x.Value)
			case *ast.ExprStmt:
				arrow = x.X
			case *ast.AssignStmt:
				if len(x.Rhs) == 1 {
					arrow = x.Rhs[0]
				}
			}
			if u, ok := arrow.(*ast.UnaryExpr); ok && u.Op == token.ARROW {
				a.callsIn(u.X)
			}
		}
	}
	in := a.st.clone()
	f := &frame{label: label}
	a.frames = append(a.frames, f)
	out := bottom()
	hasDefault := false
	for _, cs := range list {
		a.st = in.clone()
		switch cc := cs.(type) {
		case *ast.CaseClause:
			if cc.List == nil {
				hasDefault = true
			}
			for _, e := range cc.List {
				if tv, ok := a.info().Types[e]; ok && tv.IsType() {
					continue
				}
				a.expr(e, cRead)
			}
			a.block(cc.Body)
		case *ast.CommClause:
			if cc.Comm == nil {
				hasDefault = true
			}
			a.stmt(cc.Comm, "")
			a.block(cc.Body)
		}
		out = meet(out, a.st)
	}
	a.frames = a.frames[:len(a.frames)-1]
	if !hasDefault && !isSelect {
		out = meet(out, in)
	}
	for _, b := range f.breaks {
		out = meet(out, b)
	}
	if isSelect && len(list) == 0 {
		out = bottom() // select {} blocks forever
	}
	a.st = out
}

// callsIn walks an expression only if it contains a call (operand of a select case).
func (a *analysis) callsIn(e ast.Expr) {
	if e == nil {
		return
	}
	has := false
	ast.Inspect(e, func(n ast.Node) bool {
		if _, ok := n.(*ast.CallExpr); ok {
			has = true
		}
		if _, ok := n.(*ast.FuncLit); ok {
			return false
		}
		return !has
	})
	if has {
		a.expr(e, cRead)
	}
}

// ----------------------------------------------------------------------------- fresh locals

// computeFresh finds, in one top-level function, the local variables initialised with a
// new object (&T{}, T{}, new(T), var x T) and the position at which each first escapes.
func (a *analysis) computeFresh(n *node) {
	a.fresh = map[*types.Var]token.Pos{}
	info := n.pkg.TypesInfo
	body := n.decl.Body
	isNew := func(e ast.Expr) bool {
		for {
			if p, ok := e.(*ast.ParenExpr); ok {
				e = p.X
				continue
			}
			break
		}
		switch x := e.(type) {
		case *ast.UnaryExpr:
			if x.Op == token.AND {
				_, ok := x.X.(*ast.CompositeLit)
				return ok
			}
		case *ast.CompositeLit:
			return true
		case *ast.CallExpr:
			if id, ok := x.Fun.(*ast.Ident); ok {
				if b, ok := info.Uses[id].(*types.Builtin); ok && b.Name() == "new" {
					return true
				}
			}
		}
		return false
	}
	cands := map[*types.Var]token.Pos{}
	ast.Inspect(body, func(nd ast.Node) bool {
		switch x := nd.(type) {
		case *ast.AssignStmt:
			if x.Tok == token.DEFINE && len(x.Lhs) == len(x.Rhs) {
				for i, l := range x.Lhs {
					if id, ok := l.(*ast.Ident); ok && isNew(x.Rhs[i]) {
						if v, ok := info.Defs[id].(*types.Var); ok {
							cands[v] = id.Pos()
						}
					}
				}
			}
		case *ast.ValueSpec:
			for i, id := range x.Names {
				if v, ok := info.Defs[id].(*types.Var); ok {
					if len(x.Values) == 0 {
						if _, isStruct := v.Type().Underlying().(*types.Struct); isStruct {
							cands[v] = id.Pos()
						}
					} else if i < len(x.Values) && isNew(x.Values[i]) {
						cands[v] = id.Pos()
					}
				}
			}
		}
		return true
	})
	if len(cands) == 0 {
		return
	}
	const never = token.Pos(1 << 40)
	esc := map[*types.Var]token.Pos{}
	for v := range cands {
		esc[v] = never
	}
	var stack []ast.Node
	mark := func(v *types.Var, pos token.Pos) {
		// an escape inside a loop that does not contain the declaration counts from the loop start;
		// an escape inside a function literal counts from the literal
		for i := len(stack) - 1; i >= 0; i-- {
			switch l := stack[i].(type) {
			case *ast.ForStmt, *ast.RangeStmt:
				if !(l.Pos() <= cands[v] && cands[v] < l.End()) && l.Pos() < pos {
					pos = l.Pos()
				}
			case *ast.FuncLit:
				if l.Pos() < pos {
					pos = l.Pos()
				}
			}
		}
		if pos < esc[v] {
			esc[v] = pos
		}
	}
	ast.Inspect(body, func(nd ast.Node) bool {
		if nd == nil {
			stack = stack[:len(stack)-1]
			return true
		}
		stack = append(stack, nd)
		id, ok := nd.(*ast.Ident)
		if !ok {
			return true
		}
		v, ok := info.Uses[id].(*types.Var)
		if !ok {
			return true
		}
		if _, isCand := cands[v]; !isCand {
			return true
		}
		// allowed use: X of a field selection (not a method call), outside function literals
		inLit := false
		for _, s := range stack {
			if _, ok := s.(*ast.FuncLit); ok {
				inLit = true
			}
		}
		if len(stack) >= 2 && !inLit {
			if se, ok := stack[len(stack)-2].(*ast.SelectorExpr); ok && se.X == id {
				if sel := info.Selections[se]; sel != nil && sel.Kind() == types.FieldVal {
					// x.f used as &x.f or as a pointer-receiver call receiver still counts as
					// an access of x.f, not as an escape of x
					return true
				}
				// x.m(...) where m is a method of the analysed packages that does not let its
				// receiver escape
				if sel := info.Selections[se]; sel != nil && sel.Kind() == types.MethodVal && len(stack) >= 3 {
					if ce, ok := stack[len(stack)-3].(*ast.CallExpr); ok && ce.Fun == se {
						spawned := false
						if len(stack) >= 4 {
							switch stack[len(stack)-4].(type) {
							case *ast.GoStmt, *ast.DeferStmt:
								spawned = true
							}
						}
						if f, ok := sel.Obj().(*types.Func); ok && !spawned {
							if leak, known := a.leaks[f.Origin()]; known && !leak {
								return true
							}
						}
					}
				}
			}
		}
		mark(v, id.Pos())
		return true
	})
	for v, p := range esc {
		a.fresh[v] = p
	}
}

// computeLeaks: which methods may let their receiver escape (stored, passed on, captured by
// a function literal, used by a go statement).  Greatest fixpoint: a method is non-leaking
// when its receiver is only used to select fields or to call non-leaking methods.
func (a *analysis) computeLeaks() {
	a.leaks = map[*types.Func]bool{}
	type m struct {
		f    *types.Func
		n    *node
		recv *types.Var
	}
	var ms []m
	for f, n := range a.byFunc {
		if n.decl == nil || n.decl.Recv == nil || len(n.decl.Recv.List) == 0 || len(n.decl.Recv.List[0].Names) == 0 {
			if n.decl != nil && n.decl.Recv != nil {
				a.leaks[f] = false // receiver unnamed: never used
			}
			continue
		}
		rv, _ := n.pkg.TypesInfo.Defs[n.decl.Recv.List[0].Names[0]].(*types.Var)
		if rv == nil {
			continue
		}
		a.leaks[f] = false
		ms = append(ms, m{f, n, rv})
	}
	for changed := true; changed; {
		changed = false
		for _, x := range ms {
			if a.leaks[x.f] {
				continue
			}
			info := x.n.pkg.TypesInfo
			leak := false
			var stack []ast.Node
			ast.Inspect(x.n.decl.Body, func(nd ast.Node) bool {
				if nd == nil {
					stack = stack[:len(stack)-1]
					return true
				}
				stack = append(stack, nd)
				id, ok := nd.(*ast.Ident)
				if !ok || info.Uses[id] != x.recv {
					return true
				}
				for _, s := range stack {
					switch s.(type) {
					case *ast.FuncLit, *ast.GoStmt, *ast.DeferStmt:
						leak = true
					}
				}
				if len(stack) >= 2 {
					if se, ok := stack[len(stack)-2].(*ast.SelectorExpr); ok && se.X == id {
						sel := info.Selections[se]
						if sel != nil && sel.Kind() == types.FieldVal {
							// &r.f taken or stored still counts as an access of the field, not of r
							return true
						}
						if sel != nil && sel.Kind() == types.MethodVal && len(stack) >= 3 {
							if ce, ok := stack[len(stack)-3].(*ast.CallExpr); ok && ce.Fun == se {
								if f, ok := sel.Obj().(*types.Func); ok {
									if l, known := a.leaks[f.Origin()]; known && !l {
										return true
									}
								}
							}
						}
					}
				}
				leak = true
				return true
			})
			if leak {
				a.leaks[x.f] = true
				changed = true
			}
		}
	}
}

// ----------------------------------------------------------------------------- driver

type config struct {
	repo     string
	patterns []string
	tags     string
	interest map[string][]string // package path suffix ("" = root) -> type names
}

func load(dir string, patterns []string, tags string) ([]*packages.Package, error) {
	cfg := &packages.Config{
		Mode: packages.NeedName | packages.NeedFiles | packages.NeedSyntax | packages.NeedTypes |
			packages.NeedTypesInfo | packages.NeedImports | packages.NeedDeps,
		Dir: dir,
		Env: append(os.Environ(), "GOFLAGS=-mod=mod", "GOPROXY=off", "GOSUMDB=off", "GOTOOLCHAIN=local"),
	}
	if tags != "" {
		cfg.BuildFlags = []string{"-tags=" + tags}
	}
	pkgs, err := packages.Load(cfg, patterns...)
	if err != nil {
		return nil, err
	}
	for _, p := range pkgs {
		if len(p.Errors) > 0 {
			return nil, fmt.Errorf("package %s: %v", p.PkgPath, p.Errors[0])
		}
	}
	sort.Slice(pkgs, func(i, j int) bool { return pkgs[i].PkgPath < pkgs[j].PkgPath })
	return pkgs, nil
}

func recvTypeName(fd *ast.FuncDecl) string {
	if fd.Recv == nil || len(fd.Recv.List) == 0 {
		return ""
	}
	t := fd.Recv.List[0].Type
	for {
		switch x := t.(type) {
		case *ast.StarExpr:
			t = x.X
			continue
		case *ast.ParenExpr:
			t = x.X
			continue
		case *ast.IndexExpr:
			t = x.X
			continue
		case *ast.Ident:
			return x.Name
		}
		return ""
	}
}

func run(pkgs []*packages.Package, interest map[*types.TypeName]string, allStruct bool) *analysis {
	a := &analysis{
		fset: pkgs[0].Fset, pkgs: pkgs, pkgOf: map[*types.Package]*packages.Package{},
		interest: interest, allStruct: allStruct,
		byFunc: map[*types.Func]*node{}, byLit: map[*ast.FuncLit]*node{},
		params: map[*types.Var]*pparam{}, litVar: map[*types.Var]*node{},
		facts: map[string]*rawFact{}, chans: map[string]chanFact{}, gos: map[string]goFact{},
		unks: map[string]unkFact{}, globalsW: map[*types.Var]bool{}, universe: map[string]bool{},
		ptrAlias: map[*types.Var][2]string{}, calls: map[string]*rawCall{}, callInt: callsOfInterest, pubLoc: map[string][2]string{}, aliasLoc: map[string][2]string{},
	}
	if allStruct {
		a.callInt = nil
	}
	root := pkgs[0]
	for _, p := range pkgs {
		a.pkgOf[p.Types] = p
		if len(p.PkgPath) < len(root.PkgPath) {
			root = p
		}
	}
	// root package first
	sort.SliceStable(a.pkgs, func(i, j int) bool { return a.pkgs[i] == root && a.pkgs[j] != root })
	prefix := func(p *packages.Package) string {
		if p == root {
			return ""
		}
		return p.Name + "."
	}
	// nodes for declared functions
	for _, p := range a.pkgs {
		sc := p.Types.Scope()
		for _, nm := range sc.Names() {
			if tn, ok := sc.Lookup(nm).(*types.TypeName); ok {
				if n, ok := tn.Type().(*types.Named); ok {
					a.named = append(a.named, n)
				}
			}
		}
		for _, f := range p.Syntax {
			for _, d := range f.Decls {
				fd, ok := d.(*ast.FuncDecl)
				if !ok || fd.Body == nil {
					continue
				}
				obj, _ := p.TypesInfo.Defs[fd.Name].(*types.Func)
				if obj == nil {
					continue
				}
				name := prefix(p) + fd.Name.Name
				if r := recvTypeName(fd); r != "" {
					name = prefix(p) + r + "." + fd.Name.Name
				}
				n := &node{name: name, decl: fd, pkg: p}
				if fd.Name.IsExported() || fd.Name.Name == "init" || fd.Name.Name == "main" {
					n.forced, n.why = true, "exported"
				}
				a.nodes = append(a.nodes, n)
				a.byFunc[obj] = n
				a.declareParams(n, fd.Type)
			}
		}
	}
	// package-level variables written outside package initialisation
	for _, p := range a.pkgs {
		for _, f := range p.Syntax {
			for _, d := range f.Decls {
				fd, ok := d.(*ast.FuncDecl)
				if !ok || fd.Body == nil || fd.Name.Name == "init" {
					continue
				}
				ast.Inspect(fd.Body, func(nd ast.Node) bool {
					markW := func(e ast.Expr) {
						for {
							switch x := e.(type) {
							case *ast.ParenExpr:
								e = x.X
								continue
							case *ast.IndexExpr:
								e = x.X
								continue
							case *ast.SelectorExpr:
								if p.TypesInfo.Selections[x] == nil {
									e = x.Sel
								} else if s := p.TypesInfo.Selections[x]; s.Kind() == types.FieldVal && !isPointer(p.TypesInfo.TypeOf(x.X)) {
									e = x.X
								} else {
									return
								}
								continue
							case *ast.Ident:
								if v, ok := p.TypesInfo.Uses[x].(*types.Var); ok && v.Pkg() != nil && v.Parent() == v.Pkg().Scope() && a.pkgOf[v.Pkg()] != nil {
									a.globalsW[v] = true
								}
							}
							return
						}
					}
					switch x := nd.(type) {
					case *ast.AssignStmt:
						if x.Tok != token.DEFINE {
							for _, l := range x.Lhs {
								markW(l)
							}
						}
					case *ast.IncDecStmt:
						markW(x.X)
					case *ast.UnaryExpr:
						if x.Op == token.AND {
							markW(x.X)
						}
					case *ast.CallExpr:
						// pointer-receiver method call on a global value, delete(global, k)
						if se, ok := x.Fun.(*ast.SelectorExpr); ok {
							if s := p.TypesInfo.Selections[se]; s != nil && s.Kind() == types.MethodVal {
								if sig, ok := s.Obj().Type().(*types.Signature); ok && sig.Recv() != nil && isPointer(sig.Recv().Type()) {
									if t := p.TypesInfo.TypeOf(se.X); t != nil && !isPointer(t) {
										markW(se.X)
									}
								}
							}
						}
						if id, ok := x.Fun.(*ast.Ident); ok && len(x.Args) > 0 {
							if b, ok := p.TypesInfo.Uses[id].(*types.Builtin); ok && (b.Name() == "delete" || b.Name() == "clear") {
								markW(x.Args[0])
							}
						}
					}
					return true
				})
			}
		}
	}
	a.computeLeaks()
	// analyse bodies
	for _, n := range append([]*node{}, a.nodes...) {
		if n.decl == nil {
			continue
		}
		a.cur, a.st, a.frames, a.deferred, a.gotos = n, newRel(), nil, map[string]bool{}, map[string][]*rel{}
		a.computeFresh(n)
		a.block(n.decl.Body.List)
		n.analysed = true
	}
	a.fixpoint()
	return a
}

func (a *analysis) universeList() []string {
	var u []string
	for k := range a.universe {
		u = append(u, k)
	}
	sort.Strings(u)
	return u
}

func (a *analysis) fixpoint() {
	u := a.universeList()
	var pps []*pparam
	for _, pp := range a.params {
		pps = append(pps, pp)
	}
	for _, n := range a.nodes {
		n.entry = nil
		if n.forced {
			n.entry = lockset{}
		}
	}
	for _, pp := range pps {
		pp.entry = nil
		if pp.forced {
			pp.entry = lockset{}
		}
	}
	for changed, iter := true, 0; changed && iter < 200; iter++ {
		changed = false
		for _, pp := range pps {
			if pp.forced {
				continue
			}
			var e lockset // TOP
			for _, s := range pp.sites {
				e = lsMeet(e, s.st.apply(s.from.entry, u))
			}
			for _, f := range pp.forwards {
				e = lsMeet(e, f.entry)
			}
			if len(pp.sites) == 0 && len(pp.forwards) == 0 {
				e = lockset{} // never called as far as we can see: claim nothing
			}
			if !lsEq(e, pp.entry) {
				pp.entry = e
				changed = true
			}
		}
		for _, n := range a.nodes {
			if n.forced {
				continue
			}
			var e lockset
			if n.param != nil {
				e = n.param.entry
				if n.bind != nil && !n.param.forced && len(n.param.forwards) == 0 && len(n.param.sites) > 0 {
					// one level of context: the parameter is only called inside its owner, whose
					// entry is, for this literal, the state at the call that passes the literal
					local := true
					for _, s := range n.param.sites {
						if s.from != n.param.owner {
							local = false
						}
					}
					if local && !n.param.owner.forcedByValueUse() {
						at := n.bind.st.apply(n.bind.from.entry, u)
						if n.bind.from.entry == nil {
							at = nil
						}
						var e2 lockset
						for _, s := range n.param.sites {
							e2 = lsMeet(e2, s.st.apply(at, u))
						}
						e = e2
					}
				}
			} else if len(n.sites) == 0 {
				e = lockset{} // no static call site: claim nothing
			}
			for _, s := range n.sites {
				e = lsMeet(e, s.st.apply(s.from.entry, u))
			}
			if !lsEq(e, n.entry) {
				n.entry = e
				changed = true
			}
		}
	}
	// anything still TOP is unreachable from an entry point (mutual recursion without
	// an outside caller): claim nothing
	for _, n := range a.nodes {
		if n.entry == nil {
			n.entry = lockset{}
		}
	}
}

// ----------------------------------------------------------------------------- output

type outFact struct {
	Type, Field, Kind, Func string
	Locks                   []string
	Fresh                   bool
	Pos                     string
}

// splitState separates the lock names from the must-have-written markers.
func splitState(ls lockset) (locks, written []string) {
	for k := range ls {
		if strings.HasPrefix(k, calledPrefix) {
			continue
		}
		if strings.HasPrefix(k, wrotePrefix) {
			written = append(written, k[len(wrotePrefix):])
		} else {
			locks = append(locks, k)
		}
	}
	sort.Strings(locks)
	sort.Strings(written)
	return
}

type outCall struct {
	Caller, Callee, How string
	Locks, Written      []string
	After, Maybe        []string // calls that must / may have been executed before this one
	InGo                bool
	Pos                 string
}

// inGo: the function (literal) is the operand of a go statement, is nested in one, or is a
// literal bound to a parameter that is only called from such places (w.spawn(func(){...})).
func (a *analysis) inGo(n *node, seen map[*node]bool) bool {
	if n == nil || seen[n] {
		return false
	}
	seen[n] = true
	if n.goBody {
		return true
	}
	if n.param != nil && len(n.param.sites) > 0 && len(n.param.forwards) == 0 {
		all := true
		for _, s := range n.param.sites {
			if !a.inGo(s.from, seen) {
				all = false
			}
		}
		if all {
			return true
		}
	}
	return a.inGo(n.parent, seen)
}

func (a *analysis) outCalls() []outCall {
	u := a.universeList()
	var raw []*rawCall
	for _, c := range a.calls {
		raw = append(raw, c)
	}
	sort.Slice(raw, func(i, j int) bool {
		if raw[i].pos != raw[j].pos {
			return raw[i].pos < raw[j].pos
		}
		return raw[i].callee+raw[i].how < raw[j].callee+raw[j].how
	})
	var out []outCall
	for _, c := range raw {
		full := c.st.apply(c.caller.entry, u)
		locks, written := splitState(full)
		var after, maybe []string
		for k := range full {
			if strings.HasPrefix(k, calledPrefix) {
				after = append(after, k[len(calledPrefix):])
			}
		}
		for k := range c.st.may {
			if !strings.HasPrefix(k, "!") {
				maybe = append(maybe, k)
			}
		}
		sort.Strings(after)
		sort.Strings(maybe)
		inGo := a.inGo(c.caller, map[*node]bool{})
		out = append(out, outCall{c.caller.name, c.callee, c.how, locks, written, after, maybe, inGo, a.posStr(c.pos)})
	}
	sort.SliceStable(out, func(i, j int) bool {
		if out[i].Callee != out[j].Callee {
			return out[i].Callee < out[j].Callee
		}
		return out[i].Caller < out[j].Caller
	})
	return out
}

func (a *analysis) outFacts() []outFact {
	u := a.universeList()
	seen := map[string]bool{}
	var raw []*rawFact
	for _, f := range a.facts {
		raw = append(raw, f)
	}
	sort.Slice(raw, func(i, j int) bool {
		if raw[i].pos != raw[j].pos {
			return raw[i].pos < raw[j].pos
		}
		return raw[i].kind+raw[i].field < raw[j].kind+raw[j].field
	})
	var out []outFact
	for _, f := range raw {
		ls := f.st.apply(f.n.entry, u)
		locks, _ := splitState(ls)
		o := outFact{f.typ, f.field, f.kind, f.n.name, locks, f.fresh, a.posStr(f.pos)}
		key := fmt.Sprint(o.Type, "|", o.Field, "|", o.Kind, "|", o.Func, "|", o.Locks, "|", o.Fresh)
		if seen[key] {
			continue
		}
		seen[key] = true
		out = append(out, o)
	}
	sort.SliceStable(out, func(i, j int) bool {
		if out[i].Type != out[j].Type {
			return out[i].Type < out[j].Type
		}
		if out[i].Field != out[j].Field {
			return out[i].Field < out[j].Field
		}
		return out[i].Func < out[j].Func
	})
	return out
}

func q(s string) string { return "\"" + strings.ReplaceAll(s, "\"", "\"\"") + "\"" }

func coqLocks(ls []string) string {
	var parts []string
	for _, l := range ls {
		name, mode := l[:len(l)-2], "MW"
		if strings.HasSuffix(l, "/R") {
			mode = "MR"
		}
		parts = append(parts, "("+q(name)+", "+mode+")")
	}
	return "[" + strings.Join(parts, "; ") + "]"
}

func coqBool(b bool) string {
	if b {
		return "true"
	}
	return "false"
}

func chunked(w *strings.Builder, name, typ string, items []string) {
	const sz = 150
	var parts []string
	for i := 0; i < len(items); i += sz {
		j := i + sz
		if j > len(items) {
			j = len(items)
		}
		pn := fmt.Sprintf("%s_%d", name, i/sz)
		fmt.Fprintf(w, "Definition %s : list %s := [\n  %s\n].\n", pn, typ, strings.Join(items[i:j], ";\n  "))
		parts = append(parts, pn)
	}
	if len(parts) == 0 {
		fmt.Fprintf(w, "Definition %s : list %s := [].\n\n", name, typ)
		return
	}
	fmt.Fprintf(w, "Definition %s : list %s := %s.\n\n", name, typ, strings.Join(parts, " ++ "))
}

func header() string {
	return `(* Gen/Skeleton.v — GENERATED by harness/cmd/vskel from /repo's current source.  Do not edit.

   What the translator tracks.  For every function and function literal of packages kafka,
   protocol and compress/... (build tag verif OFF) a must-hold lockset at every statement:
   sequence; if/switch/select join by intersection; loops to a fixpoint; break/continue/
   return/panic; x.Lock()/x.RLock()/x.Unlock()/x.RUnlock() where x is a chain of fields
   ending in a sync.Mutex/sync.RWMutex VALUE (or a package-level / local mutex variable);
   defer x.Unlock() keeps x to the end of the function; an unexported function or a
   function literal starts with the intersection of the locksets at its static call
   sites (calls through interfaces are resolved to every implementing type of the
   analysed packages); a literal passed as an argument to an analysed function starts
   with the intersection over the places where that parameter is called (followed through
   forwarding); exported functions, go targets, functions/literals used as values or handed
   to code that is not analysed start with the empty lockset; a deferred call starts with
   the locks whose deferred Unlock was registered before it.

   What it does NOT track (all on the safe side unless noted):
   - object identity: lock "T.f" means the f of SOME T (the policy check assumes it is the f
     of the object whose field is accessed)  [not on the safe side: trusted];
   - locks reached through a pointer (a *sync.Mutex field, parameter or local, e.g. the
     read lock that Conn.waitResponse returns): Lock is ignored, Unlock empties the
     lockset, and the site is listed in [unknowns];
   - locals shared with goroutines/closures, heap objects reached through pointers, map
     and slice elements (attributed to the field holding the map/slice);
   - calls of exported-named methods of unexported types from outside the analysed packages
     (they are treated as entry points, i.e. empty lockset: safe);
   - panics as control flow (a deferred function is assumed to run after a normal return);
   Publication: after x.Store(v) / Swap / CompareAndSwap on an atomic.Value or atomic.Pointer
   x (field of a listed type or package-level variable) with v a local variable, a write
   through v in the same function (v[i] = .., v.f = .., *v = .., copy(v, ..)) is recorded as
   a KWrite access of x ("written after publish"); passing v on to another function is not
   followed.
   Writes through pointers held in fields: x.f.g = .. / *x.f = .. with f a pointer- or
   interface-typed field of a listed type whose pointee is not itself a listed type, and the
   same through a local copy p := x.f (until p is reassigned), are KWriteThrough accesses of
   x.f (method calls on the pointee and copies of p are not followed).
   Further rules: a label that is the target of a goto is treated as a loop head; a
   function literal handed to sort.Slice & co. or sync.Once.Do runs in place; a local
   p := &x.f[i] that is only dereferenced makes every use of p an access of x.f; fields of a
   struct VALUE held in a local variable (a copy) are not accesses; &x.f passed directly as
   a call argument and pointer-receiver calls on struct-valued foreign fields are KAddrArg
   (a write during the call); any other &x.f, method values and unresolvable lock receivers
   are KUnknown / listed in [unknowns].
   [fresh] = the object was allocated by a composite literal/new/var in the same function
   and has not been used other than through field selections before this access. *)
`
}

func (a *analysis) emit(typesSeen []string, fields [][2]string, exported [][2]string) (string, map[string]int) {
	var w strings.Builder
	w.WriteString(header())
	w.WriteString("From Coq Require Import List String.\nFrom KV Require Import Model.DRF.\nImport ListNotations.\nOpen Scope string_scope.\n\n")
	var it []string
	for _, t := range typesSeen {
		it = append(it, q(t))
	}
	chunked(&w, "types_seen", "string", it)
	it = nil
	for _, f := range fields {
		it = append(it, "("+q(f[0])+", "+q(f[1])+")")
	}
	chunked(&w, "fields", "(string * string)", it)
	facts := a.outFacts()
	it = nil
	nfresh := 0
	byKind := map[string]int{}
	for _, f := range facts {
		it = append(it, fmt.Sprintf("mkAcc %s %s %s %s %s %s %s", q(f.Type), q(f.Field), f.Kind, q(f.Func), coqLocks(f.Locks), coqBool(f.Fresh), q(f.Pos)))
		if f.Fresh {
			nfresh++
		}
		byKind[f.Kind]++
	}
	chunked(&w, "accesses", "access_fact", it)
	var gl []goFact
	for _, g := range a.gos {
		gl = append(gl, g)
	}
	sort.Slice(gl, func(i, j int) bool { return gl[i].spawner+gl[i].body < gl[j].spawner+gl[j].body })
	it = nil
	for _, g := range gl {
		it = append(it, fmt.Sprintf("mkGo %s %s %s", q(g.spawner), q(g.body), q(g.pos)))
	}
	chunked(&w, "gos", "go_fact", it)
	var cl []chanFact
	for _, c := range a.chans {
		cl = append(cl, c)
	}
	sort.Slice(cl, func(i, j int) bool {
		return cl[i].typ+cl[i].field+cl[i].kind+cl[i].fn < cl[j].typ+cl[j].field+cl[j].kind+cl[j].fn
	})
	it = nil
	for _, c := range cl {
		it = append(it, fmt.Sprintf("mkChan %s %s %s %s %s", q(c.typ), q(c.field), c.kind, q(c.fn), q(c.pos)))
	}
	chunked(&w, "chans", "chan_fact", it)
	var ul []unkFact
	for _, u := range a.unks {
		ul = append(ul, u)
	}
	sort.Slice(ul, func(i, j int) bool { return ul[i].fn+ul[i].what+ul[i].text < ul[j].fn+ul[j].what+ul[j].text })
	it = nil
	for _, u := range ul {
		it = append(it, fmt.Sprintf("mkUnk %s %s %s", q(u.fn), q(u.what), q(u.text)))
	}
	chunked(&w, "unknowns", "unknown_fact", it)
	it = nil
	calls := a.outCalls()
	for _, c := range calls {
		var wr []string
		for _, x := range c.Written {
			wr = append(wr, q(x))
		}
		ql := func(xs []string) string {
			var o []string
			for _, x := range xs {
				o = append(o, q(x))
			}
			return "[" + strings.Join(o, "; ") + "]"
		}
		it = append(it, fmt.Sprintf("mkCall %s %s %s %s [%s] %s %s %s %s", q(c.Caller), q(c.Callee), c.How, coqLocks(c.Locks), strings.Join(wr, "; "), ql(c.After), ql(c.Maybe), coqBool(c.InGo), q(c.Pos)))
	}
	chunked(&w, "calls", "call_fact", it)
	it = nil
	for _, e := range exported {
		it = append(it, "("+q(e[0])+", "+q(e[1])+")")
	}
	chunked(&w, "exported_methods", "(string * string)", it)
	it = nil
	nfun, nlit := 0, 0
	for _, n := range a.nodes {
		if n.analysed {
			it = append(it, q(n.name))
			if n.lit != nil {
				nlit++
			} else {
				nfun++
			}
		}
	}
	sort.Strings(it)
	chunked(&w, "functions", "string", it)
	counts := map[string]int{
		"types": len(typesSeen), "fields": len(fields), "access_facts": len(facts), "fresh_facts": nfresh,
		"functions": nfun, "function_literals": nlit, "go_statements": len(gl), "channel_ops": len(cl),
		"unknowns": len(ul), "exported_methods": len(exported), "call_facts": len(calls), "lock_names": len(a.universe) / 2,
	}
	for k, v := range byKind {
		counts["kind_"+k] = v
	}
	return w.String(), counts
}

// calls of interest (names as in [functions]): every static call / go / defer / value use of
// these is emitted into [calls].  Sync-method calls on fields of listed types (w.group.Add,
// r.join.Wait, ...) and channel operations on such fields are emitted as well.
var callsOfInterest = map[string]bool{
	// Writer (Model/Writer.v)
	"batchQueue.Put": true, "batchQueue.Get": true, "batchQueue.Close": true,
	"partitionWriter.close": true, "newPartitionWriter": true, "partitionWriter.writeBatches": true,
	"partitionWriter.writeBatch": true, "partitionWriter.awaitBatch": true, "partitionWriter.writeMessages": true,
	"partitionWriter.newWriteBatch": true, "newWriteBatch": true, "newBatchQueue": true,
	"writeBatch.add": true, "writeBatch.full": true, "writeBatch.trigger": true, "writeBatch.complete": true,
	"Writer.spawn": true, "Writer.enter": true, "Writer.leave": true, "Writer.batchMessages": true,
	"Writer.produce": true,
	// consumer group (Model/ConsumerGroup.v)
	"Generation.Start": true, "Generation.close": true, "ConsumerGroup.nextGeneration": true,
	"ConsumerGroup.run": true, "ConsumerGroup.leaveGroup": true,
	// Reader (Model/Lifecycle.v, Model/GroupReader.v, Model/ReaderModel.v)
	"Reader.start": true, "Reader.unsubscribe": true, "Reader.subscribe": true, "Reader.run": true,
	"Reader.commitLoop": true, "Reader.commitLoopImmediate": true, "Reader.commitLoopInterval": true,
	"Reader.commitOffsetsWithRetry": true, "Reader.activateReadLag": true, "Reader.readLag": true,
	"Reader.getTopicPartitionOffset": true,
	// the leader lookup of a partition reader (Model/Lifecycle.v LFDial / LFLookup / LFSeeCancel): where the
	// lookup connection is closed
	"Conn.Close": true, "Dialer.LookupPartition": true, "Dialer.LookupPartitions": true,
	"reader.run": true, "reader.initialize": true, "reader.read": true, "reader.sendMessage": true, "reader.sendError": true,
	// Conn (Model/ConnMux.v, Model/ConnOps.v)
	"Conn.enter": true, "Conn.leave": true, "Conn.concurrency": true, "Conn.do": true, "Conn.doRequest": true,
	"Conn.waitResponse": true, "Conn.readOperation": true, "Conn.writeOperation": true,
	"Conn.peekResponseSizeAndID": true, "Conn.skipResponseSizeAndID": true, "Batch.close": true,
	"connDeadline.setConnReadDeadline": true, "connDeadline.unsetConnReadDeadline": true,
	"connDeadline.setConnWriteDeadline": true, "connDeadline.unsetConnWriteDeadline": true,
	// Transport (Model/TransportPool.v)
	"connGroup.grabConnOrConnect": true, "connGroup.grabConn": true, "connGroup.grabConnTo": true,
	"connGroup.removeConn": true, "connGroup.releaseConn": true, "connGroup.closeIdleConns": true,
	"connGroup.connect": true, "conn.close": true, "conn.run": true, "conn.roundTrip": true,
	"connPool.sendRequest": true, "connPool.roundTrip": true, "connPool.grabBrokerConn": true,
	"connPool.grabClusterConn": true, "connPool.update": true, "connPool.setState": true,
	"connPool.grabState": true, "connPool.discover": true, "connPool.unref": true, "connPool.setReady": true,
	"async.await": true, "async.resolve": true, "async.reject": true, "reject": true,
	// the pool's reference count (Model/Routing.v rpool, C12)
	"connPool.ref": true,
}

// functions whose return statements are emitted as call facts "return(F)"
var returnsOfInterest = map[string]bool{
	"Transport.grabPool": true,
}

// interest table: package (path suffix after the module path) -> type names
var interestTable = map[string][]string{
	"": {"Conn", "connDeadline", "Batch", "Writer", "partitionWriter", "writeBatch", "batchQueue", "writerStats",
		"Reader", "reader", "readerStats", "Transport", "connPool", "connPoolState", "connGroup", "conn", "Client",
		"RoundRobin", "LeastBytes", "leastBytesCounter", "Hash", "ReferenceHash", "randomBalancer",
		"CRC32Balancer", "Murmur2Balancer", "summary", "Generation", "ConsumerGroup", "Dialer"},
	"/protocol":        {"pageBuffer", "page", "pageRef"},
	"/compress/gzip":   {"Codec", "reader", "writer"},
	"/compress/snappy": {"Codec", "reader", "writer", "xerialReader", "xerialWriter"},
	"/compress/lz4":    {"Codec", "reader", "writer"},
	"/compress/zstd":   {"Codec", "reader", "writer"},
}

func main() {
	repo := flag.String("repo", "/repo", "kafka-go checkout")
	out := flag.String("out", "", "output .v file")
	jsonOut := flag.String("json", "", "counts / facts as JSON")
	selftest := flag.Bool("selftest", false, "run the embedded self-test")
	flag.Parse()
	if *selftest {
		os.Exit(selfTest())
	}
	pkgs, err := load(*repo, []string{".", "./protocol", "./compress/..."}, "")
	if err != nil {
		fmt.Fprintln(os.Stderr, "vskel: load:", err)
		os.Exit(1)
	}
	root := pkgs[0]
	for _, p := range pkgs {
		if len(p.PkgPath) < len(root.PkgPath) {
			root = p
		}
	}
	interest := map[*types.TypeName]string{}
	var typesSeen []string
	var fields, exported [][2]string
	var fieldTypes [][3]string
	var missing []string
	var sufs []string
	for s := range interestTable {
		sufs = append(sufs, s)
	}
	sort.Strings(sufs)
	for _, suf := range sufs {
		var pkg *packages.Package
		for _, p := range pkgs {
			if p.PkgPath == root.PkgPath+suf {
				pkg = p
			}
		}
		for _, tn := range interestTable[suf] {
			if pkg == nil {
				missing = append(missing, suf+"."+tn)
				continue
			}
			obj, ok := pkg.Types.Scope().Lookup(tn).(*types.TypeName)
			if !ok {
				missing = append(missing, suf+"."+tn)
				continue
			}
			disp := tn
			if suf != "" {
				disp = pkg.Name + "." + tn
			}
			interest[obj] = disp
			typesSeen = append(typesSeen, disp)
			if st, ok := obj.Type().Underlying().(*types.Struct); ok {
				for i := 0; i < st.NumFields(); i++ {
					fields = append(fields, [2]string{disp, st.Field(i).Name()})
					fieldTypes = append(fieldTypes, [3]string{disp, st.Field(i).Name(), types.TypeString(st.Field(i).Type(), func(p *types.Package) string { return p.Name() })})
				}
			}
			ms := types.NewMethodSet(types.NewPointer(obj.Type()))
			for i := 0; i < ms.Len(); i++ {
				m := ms.At(i)
				if m.Obj().Exported() && len(m.Index()) == 1 {
					exported = append(exported, [2]string{disp, m.Obj().Name()})
				}
			}
		}
	}
	a := run(pkgs, interest, false)
	// written package-level variables are locations too
	var gv []string
	for v := range a.globalsW {
		gv = append(gv, "$"+v.Pkg().Name()+"\x00"+v.Name())
	}
	sort.Strings(gv)
	for _, g := range gv {
		p := strings.SplitN(g, "\x00", 2)
		fields = append(fields, [2]string{p[0], p[1]})
	}
	text, counts := a.emit(typesSeen, fields, exported)
	counts["missing_types"] = len(missing)
	if *out != "" {
		if err := os.WriteFile(*out, []byte(text), 0o644); err != nil {
			fmt.Fprintln(os.Stderr, err)
			os.Exit(1)
		}
	} else {
		fmt.Print(text)
	}
	if *jsonOut != "" {
		b, _ := json.MarshalIndent(map[string]interface{}{"counts": counts, "missing": missing, "facts": a.outFacts(), "calls": a.outCalls(), "fields": fieldTypes, "globals": gv}, "", " ")
		os.WriteFile(*jsonOut, b, 0o644)
	}
	cb, _ := json.Marshal(counts)
	fmt.Fprintln(os.Stderr, string(cb))
	if len(missing) > 0 {
		fmt.Fprintln(os.Stderr, "vskel: listed types not found in the source:", missing)
	}
}
