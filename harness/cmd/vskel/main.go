package main

import (
	"fmt"
	"os"

	"golang.org/x/tools/go/packages"
)

func main() {
	cfg := &packages.Config{
		Mode:       packages.NeedName | packages.NeedFiles | packages.NeedSyntax | packages.NeedTypes | packages.NeedTypesInfo | packages.NeedImports | packages.NeedDeps,
		Dir:        os.Args[1],
		BuildFlags: []string{"-tags=verif"},
	}
	pkgs, err := packages.Load(cfg, ".", "./protocol", "./compress/...")
	if err != nil {
		panic(err)
	}
	for _, p := range pkgs {
		fmt.Println(p.PkgPath, len(p.Syntax), len(p.Errors))
	}
}
