// c15: correspondence driver for ConsumerGroup generations (property C15).
//
// One PRNG (-seed) generates three kinds of cases, all run on the REAL code of /repo:
//
//	gen   step-level: a Generation built through the verif hook; Start / function exit /
//	      close in a scripted order; the accounting fields are read after every step.
//	e2e   the real kafka.ConsumerGroup against a gated, scripted coordinator (the
//	      unexported `coordinator` interface seam, through VerifNewConsumerGroup).  A driver
//	      executes one atomic model label at a time, synchronising on observable effects,
//	      and prints the label sequence it executed plus what it observed.
//	wire  the F5 scenario against a wire-level fake coordinator over net.Pipe
//	      (Dialer.DialFunc, protocol.ReadRequest / WriteResponse).
//	soak  free-running concurrent use; the recorded timeline goes to the extracted monitors.
//
// Output: <id> <op> <args...> | <go result> | <feature tags>
package main

import (
	"bufio"
	"context"
	"errors"
	"flag"
	"fmt"
	"io"
	"math/rand"
	"os"
	"runtime"
	"sort"
	"strings"
	"sync"
	"sync/atomic"
	"time"

	kafka "github.com/segmentio/kafka-go"
)

var out *bufio.Writer
var caseID int

// A healthy Close / Next / exit handler returns within microseconds, so the watchdog costs
// nothing when generous.  It is wall-clock time: on an oversubscribed machine a process can
// be kept off the CPU for seconds, so one expiry is not a verdict (see runCase).
var watchdog = 30 * time.Second

type caseOut struct{ op, args, res, feats string }

var capture *caseOut // while a scenario is being attempted, emit stores instead of printing

func emit(op, args, res, feats string) {
	if capture != nil {
		*capture = caseOut{op, args, res, feats}
		return
	}
	caseID++
	fmt.Fprintf(out, "%d %s %s | %s | %s\n", caseID, op, args, res, feats)
}

var lastHangSig string

// noteHang is called when a watchdog expires: all goroutine stacks go to stderr (checks/c15.py
// attaches them to the failure) and a signature of the blocked library goroutines is kept.
func noteHang(what string) {
	buf := make([]byte, 4<<20)
	buf = buf[:runtime.Stack(buf, true)]
	var sig []string
	for _, g := range strings.Split(string(buf), "\n\n") {
		lines := strings.Split(g, "\n")
		if len(lines) < 2 || !strings.HasPrefix(lines[0], "goroutine ") {
			continue
		}
		state := lines[0]
		if i := strings.Index(state, "["); i >= 0 {
			state = strings.TrimSuffix(strings.SplitN(state[i+1:], ",", 2)[0], "]:")
		}
		for _, l := range lines[1:] {
			if strings.HasPrefix(l, "github.com/segmentio/kafka-go.") && !strings.Contains(l, "Verif") && !strings.Contains(l, "verifCoord") {
				fn := strings.TrimPrefix(l, "github.com/segmentio/kafka-go.")
				if i := strings.LastIndex(fn, "("); i > 0 {
					fn = fn[:i]
				}
				sig = append(sig, state+"@"+fn)
				break
			}
		}
	}
	sort.Strings(sig)
	lastHangSig = strings.ReplaceAll(strings.Join(sig, ";"), " ", "_")
	fmt.Fprintf(os.Stderr, "=== HANG %s\nsignature: %s\n%s\n=== END HANG\n", what, lastHangSig, buf)
}

// runCase runs one scenario from its own seed.  A scenario that hits the watchdog is re-run
// once, alone, with the same seed: hanging again is reported as HANG (a violation); hanging only
// the first time is reported with the feature hang-once-under-load (a note in the evidence).
func runCase(r *rand.Rand, f func(rr *rand.Rand)) {
	seed := r.Int63()
	runSeeded(seed, f)
}

// Three-strikes breaker: once a family of scenarios (gen / e2e / soak / wire) has had a scenario
// hang twice in a row, or three scenarios hit the watchdog, the rest of the family is emitted as
// NOT-RUN, so that a systematically blocking tree is reported within about a minute.
var family string
var strikes = map[string]int{}
var tripped = map[string]bool{}
var systematic bool
var definite bool // a scenario ended on an observation that is a violation whatever the timing (ABORT)

func runSeeded(seed int64, f func(rr *rand.Rand)) {
	fam := family
	if tripped[fam] {
		emit(fam, "-", "NOT-RUN", "not-run")
		return
	}
	defer func() {
		if strikes[fam] >= 3 && !tripped[fam] {
			tripped[fam] = true
			fmt.Fprintf(os.Stderr, "=== BREAKER family %s: watchdog hit %d times, remaining scenarios not run\n", fam, strikes[fam])
		}
	}()
	var a caseOut
	lastHangSig = ""
	capture = &a
	f(rand.New(rand.NewSource(seed)))
	capture = nil
	tag := func(c caseOut, extra string) {
		fs := c.feats
		if fs != "" {
			fs += ","
		}
		emit(c.op, c.args, c.res, fs+"seed="+fmt.Sprintf("%x", seed)+extra)
	}
	if !strings.Contains(a.res, "HANG") {
		if strings.HasPrefix(a.res, "ABORT:") {
			definite = true
		}
		tag(a, "")
		return
	}
	sig1 := lastHangSig
	strikes[fam]++
	if systematic || definite {
		// another scenario has already blocked twice on its own in this run, or the run already
		// has a violation that does not depend on time: no second 30 s
		a.res += " [not re-run: the run already has a confirmed failure; blocked: " + sig1 + "]"
		tag(a, ",hang-noretry")
		strikes[fam] = 3
		return
	}
	fmt.Fprintf(os.Stderr, "=== RETRY %s seed=%x after %s\n", a.op, seed, a.res[:min(len(a.res), 120)])
	time.Sleep(200 * time.Millisecond)
	var b caseOut
	lastHangSig = ""
	capture = &b
	f(rand.New(rand.NewSource(seed)))
	capture = nil
	if strings.Contains(b.res, "HANG") {
		b.res += " [twice; blocked: " + sig1 + " / " + lastHangSig + "]"
		tag(b, ",hang-twice")
		strikes[fam] = 3 // the same scenario blocked again on its own: systematic
		systematic = true
		return
	}
	tag(b, ",hang-once-under-load")
}

func hx(n int) string { return fmt.Sprintf("%x", n) }

type hang struct{ what string }

// abort ends a scenario at once on an observation that already is a violation (no watchdog)
type abort struct{ what string }

func waitFor(what string, cond func() bool) {
	deadline := time.Now().Add(watchdog)
	for i := 0; !cond(); i++ {
		if time.Now().After(deadline) {
			panic(hang{what})
		}
		if i < 50 {
			time.Sleep(20 * time.Microsecond)
		} else {
			time.Sleep(200 * time.Microsecond)
		}
	}
}

// =============================================================================== gen (step level)

func b01(b bool) string {
	if b {
		return "1"
	}
	return "0"
}

func stateStr(st kafka.VerifGenState, ret bool) string {
	return b01(st.Closed) + "," + fmt.Sprintf("%x", st.Routines) + "," + b01(st.Done) + "," + b01(st.Joined) + "," + b01(ret)
}

func runGenCase(r *rand.Rand) {
	family = "gen"
	runCase(r, genCase)
}

func genCase(r *rand.Rand) {
	g := kafka.VerifNewGeneration(7, "grp", "m1")
	type ufn struct {
		exit     chan struct{}
		returned atomic.Bool
		acc      bool
		running  bool
		sawDone  atomic.Bool
	}
	var fns []*ufn
	var ops, obs []string
	var closeRet atomic.Bool
	closed := false
	feats := map[string]bool{}
	res := func() string {
		defer func() {
			if h, ok := recover().(hang); ok {
				noteHang("gen: " + h.what)
				obs = append(obs, "HANG:"+h.what)
			}
		}()
		step := func(op string) {
			ops = append(ops, op)
			switch op[0] {
			case 'S':
				f := &ufn{exit: make(chan struct{}), running: true}
				before := g.VerifState()
				g.Start(func(ctx context.Context) {
					<-f.exit
					select {
					case <-ctx.Done():
						f.sawDone.Store(true)
					default:
					}
					f.returned.Store(true)
				})
				after := g.VerifState()
				f.acc = after.Routines == before.Routines+1
				if f.acc {
					feats["acc"] = true
				} else {
					feats["late"] = true
				}
				fns = append(fns, f)
			case 'R':
				var i int
				fmt.Sscanf(op[1:], "%x", &i)
				f := fns[i]
				before := g.VerifState()
				close(f.exit)
				f.running = false
				if f.acc {
					waitFor("exit handler of fn "+op[1:], func() bool { return g.VerifState().Routines == before.Routines-1 })
					if !before.Closed {
						feats["exit-ends-gen"] = true
					}
				} else {
					waitFor("late fn return", func() bool { return f.returned.Load() })
				}
			case 'C':
				closed = true
				go func() { g.VerifClose(); closeRet.Store(true) }()
				waitFor("close critical section", func() bool { return g.VerifState().Closed })
				if g.VerifState().Routines > 0 {
					feats["close-waits"] = true
				} else {
					feats["close-nowait"] = true
				}
			}
			st := g.VerifState()
			if closed && st.Routines == 0 {
				waitFor("close() to return (routines is 0)", func() bool { return closeRet.Load() })
			}
			obs = append(obs, stateStr(g.VerifState(), closeRet.Load()))
		}
		n := 1 + r.Intn(10)
		for s := 0; s < n; s++ {
			var running []int
			for i, f := range fns {
				if f.running {
					running = append(running, i)
				}
			}
			switch x := r.Intn(10); {
			case x < 4 || len(running) == 0 && (closed || x < 8):
				step("S")
			case x < 8 && len(running) > 0:
				step("R" + hx(running[r.Intn(len(running))]))
			case !closed:
				step("C")
			default:
				step("S")
			}
		}
		if !closed && r.Intn(2) == 0 {
			step("C")
		}
		for i, f := range fns {
			if f.running {
				step("R" + hx(i))
			}
		}
		return strings.Join(obs, ";")
	}()
	if strings.Contains(res, "HANG") {
		feats["hang"] = true
	}
	emit("gen", strings.Join(ops, " "), res, featStr(feats))
}

func featStr(m map[string]bool) string {
	var l []string
	for k := range m {
		l = append(l, k)
	}
	sort.Strings(l)
	return strings.Join(l, ",")
}

// =============================================================================== gated coordinator

type reply struct {
	code    int16
	asField bool
	err     error
	join    kafka.VerifJoinAnswer
	assign  map[string][]int32
	raw     []byte
	parts   []kafka.Partition
}

type call struct {
	api    string // connect find join sync fetch leave hb readparts commit
	member string
	gen    int32
	topics []string
	at     time.Time
	reply  chan reply
}

type gate struct {
	mu      sync.Mutex
	pending []*call
	auto    func(c *call) reply // soak mode: answer immediately
}

func (g *gate) do(c *call) reply {
	c.at = time.Now()
	if g.auto != nil {
		return g.auto(c)
	}
	c.reply = make(chan reply, 1)
	g.mu.Lock()
	g.pending = append(g.pending, c)
	g.mu.Unlock()
	return <-c.reply
}

func (g *gate) peek(match func(*call) bool) *call {
	g.mu.Lock()
	defer g.mu.Unlock()
	for _, c := range g.pending {
		if match(c) {
			return c
		}
	}
	return nil
}

func (g *gate) take(c *call) {
	g.mu.Lock()
	defer g.mu.Unlock()
	for i, x := range g.pending {
		if x == c {
			g.pending = append(g.pending[:i], g.pending[i+1:]...)
			return
		}
	}
}

type coord struct{ g *gate }

func (c coord) Close() error { return nil }
func (c coord) FindCoordinator(key string) (string, int32, int16, bool, error) {
	r := c.g.do(&call{api: "find"})
	return "coordinator.test", 9092, r.code, r.asField, r.err
}
func (c coord) JoinGroup(group, member string, protocols []string) (kafka.VerifJoinAnswer, bool, error) {
	r := c.g.do(&call{api: "join", member: member})
	return r.join, r.asField, r.err
}
func (c coord) SyncGroup(group string, generation int32, member string, nassign int) (int16, bool, map[string][]int32, []byte, error) {
	r := c.g.do(&call{api: "sync", member: member, gen: generation})
	return r.code, r.asField, r.assign, r.raw, r.err
}
func (c coord) LeaveGroup(group, member string) (int16, error) {
	r := c.g.do(&call{api: "leave", member: member})
	return r.code, r.err
}
func (c coord) Heartbeat(group string, generation int32, member string) (int16, error) {
	r := c.g.do(&call{api: "hb", member: member, gen: generation})
	return r.code, r.err
}
func (c coord) OffsetFetch(group string, topics map[string][]int32) (map[string]map[int32]int64, int16, error) {
	r := c.g.do(&call{api: "fetch"})
	return map[string]map[int32]int64{}, r.code, r.err
}
func (c coord) OffsetCommit(group string, generation int32, member string) (int16, error) {
	return 0, nil
}
func (c coord) ReadPartitions(topics ...string) ([]kafka.Partition, error) {
	r := c.g.do(&call{api: "readparts", topics: topics})
	if r.err != nil {
		return r.parts, r.err
	}
	if r.code != 0 {
		return r.parts, kafka.Error(r.code)
	}
	return r.parts, nil
}

func memberStr(m int) string { return "m" + hx(m) }
func memberTok(s string) string {
	if s == "" {
		return "-"
	}
	return strings.TrimPrefix(s, "m")
}

func errClassOf(err error) string {
	var ke kafka.Error
	switch {
	case errors.Is(err, kafka.RebalanceInProgress):
		return "rb"
	case errors.As(err, &ke):
		return "ka"
	default:
		return "dr"
	}
}

// =============================================================================== e2e driver

// the driver's mirror of the run loop, used only to decide what can be done next; the
// extracted Coq model re-validates the emitted label sequence.
type mfn struct {
	gen          int
	kind         byte // 'u' 'h' 'w'
	acc, running bool
	init         bool
	exit         chan struct{}
	returned     atomic.Bool
	topic        string
}
type mgen struct {
	closed, joined, pub bool
	routines            int
	mid                 int
	ptr                 *kafka.Generation
	wireID              int32
}

type nextRes struct {
	gen *kafka.Generation
	err error
}

type driver struct {
	r        *rand.Rand
	cg       *kafka.ConsumerGroup
	g        *gate
	topics   []string
	nwatch   int
	longBack bool
	backoff  time.Duration

	pc      string // connect join sync fetch publish wait closewait leaveconn leavereq offer backoff exited
	why     string // closed | ended          (closewait)
	after   string // exit | report           (leave*)
	offErr  string
	offBack bool
	held    int // member id held by run, -1 none
	cgDone  bool
	gens    []*mgen
	fns     []*mfn
	byWire  map[int32]int
	joinGen int32 // generation id of the last successful join

	nextPending map[int]chan nextRes
	nextCancel  map[int]context.CancelFunc
	nextSeq     int
	closeCh     chan struct{}
	closeCalled bool
	closeRet    bool

	script   []string // forced answers (regression scenarios)
	scripted bool

	labels []string
	obs    []string
	feats  map[string]bool

	// the harness's own reading of leave-on-close, from what the coordinator saw
	cHeld      string
	cLeaveSeen bool
	lastFail   time.Time
	failBack   bool
}

func (d *driver) lab(l string) { d.labels = append(d.labels, l) }
func (d *driver) ob(o string)  { d.obs = append(d.obs, o) }

func (d *driver) await(api string, match func(*call) bool) *call {
	var c *call
	waitFor("coordinator call "+api, func() bool {
		c = d.g.peek(func(x *call) bool { return x.api == api && (match == nil || match(x)) })
		return c != nil
	})
	d.g.take(c)
	return c
}

func ansTok(a string) string { return a }

func errFor(cls string, r *rand.Rand) (int16, error) {
	switch cls {
	case "rb":
		return 27, nil
	case "ka":
		return []int16{15, 16, 25, 22, 14, 30, 7}[r.Intn(7)], nil
	default:
		return 0, []error{io.ErrUnexpectedEOF, io.EOF, errors.New("connection reset by peer"), context.DeadlineExceeded}[r.Intn(4)]
	}
}

func (d *driver) randAns(pOk int) string {
	if len(d.script) > 0 {
		a := d.script[0]
		d.script = d.script[1:]
		return a
	}
	if d.r.Intn(100) < pOk {
		return "ok"
	}
	return []string{"rb", "ka", "dr"}[d.r.Intn(3)]
}

// coordinator(): connect, FindCoordinator, connect.  Returns false if it failed.
func (d *driver) serveCoordinator(a string) {
	if a == "ok" {
		d.await("connect", nil).reply <- reply{}
		d.await("find", nil).reply <- reply{}
		d.await("connect", nil).reply <- reply{}
		return
	}
	switch {
	case a == "dr" && d.r.Intn(3) == 0:
		d.feats["connect1-fail"] = true
		d.await("connect", nil).reply <- reply{err: errors.New("dial tcp: connection refused")}
	case a == "dr" && d.r.Intn(2) == 0:
		d.feats["connect2-fail"] = true
		d.await("connect", nil).reply <- reply{}
		d.await("find", nil).reply <- reply{}
		d.await("connect", nil).reply <- reply{err: errors.New("dial tcp: connection refused")}
	default:
		d.feats["find-"+a] = true
		code, err := errFor(a, d.r)
		d.await("connect", nil).reply <- reply{}
		d.await("find", nil).reply <- reply{code: code, asField: d.r.Intn(2) == 0, err: err}
	}
}

func (d *driver) noteFail(cls string) {
	d.lastFail = time.Now()
	d.failBack = cls != "rb"
}

// what the run loop does with an error returned by nextGeneration
func (d *driver) failNG(cls string) {
	d.feats["fail-"+cls] = true
	if cls == "rb" {
		d.pc, d.offErr, d.offBack = "offer", cls, false
		return
	}
	d.enterLeave("report", cls)
}

func (d *driver) enterLeave(after, cls string) {
	d.after, d.offErr = after, cls
	if d.held < 0 {
		d.finishLeave()
		return
	}
	d.pc = "leaveconn"
}

func (d *driver) finishLeave() {
	if d.after == "exit" {
		d.pc = "exited"
		return
	}
	d.held = -1
	d.cHeld = ""
	d.pc, d.offBack = "offer", true
}

func (d *driver) cur() *mgen { return d.gens[len(d.gens)-1] }

// one step of the run goroutine that needs a coordinator answer
func (d *driver) serveRun() {
	switch d.pc {
	case "connect":
		a := d.randAns(80)
		c := d.g.peek(func(x *call) bool { return x.api == "connect" })
		if c == nil {
			waitFor("connect call", func() bool { c = d.g.peek(func(x *call) bool { return x.api == "connect" }); return c != nil })
		}
		bk := "c"
		if d.failBack {
			if c.at.Sub(d.lastFail) >= d.backoff {
				bk = "bc"
			} else {
				bk = "EARLYc"
			}
			d.failBack = false
		}
		d.serveCoordinator(a)
		d.lab("Co:" + a)
		d.ob(bk)
		if a == "ok" {
			d.pc = "join"
		} else {
			d.noteFail(a)
			d.failNG(a)
		}
	case "join":
		c := d.await("join", nil)
		seen := memberTok(c.member)
		if c.member == "" && d.cHeld != "" && !d.cLeaveSeen {
			// the client came back without the id it was given and never tried to leave with it
			d.ob("DROPPEDID")
		}
		a := d.randAns(80)
		if a != "ok" {
			code, err := errFor(a, d.r)
			d.feats["join-"+a] = true
			d.noteFail(a)
			c.reply <- reply{join: kafka.VerifJoinAnswer{ErrorCode: code}, asField: d.r.Intn(2) == 0, err: err}
			d.lab("Je:" + a)
			d.ob("j" + seen)
			// joinGroup returns the id it was given: run leaves with it (unless RebalanceInProgress)
			d.failNG(a)
			return
		}
		m := 1 + d.r.Intn(6)
		if d.held >= 0 && d.r.Intn(3) > 0 {
			m = d.held
		}
		if d.scripted {
			m = 1
		}
		d.joinGen++
		ja := kafka.VerifJoinAnswer{GenerationID: 100 + d.joinGen, GroupProtocol: "range", LeaderID: "m0", MemberID: memberStr(m)}
		ld := "n"
		lfail := ""
		if !d.scripted && d.r.Intn(2) == 0 {
			ld = "l"
			ja.LeaderID = ja.MemberID
			ja.Members = []kafka.VerifMember{{ID: ja.MemberID, Topics: d.topics}, {ID: "m0", Topics: d.topics}}
			switch d.r.Intn(8) {
			case 0:
				ja.GroupProtocol = "no-such-balancer"
				lfail = "dr"
				d.feats["leader-nobalancer"] = true
			case 1:
				ja.Members[0].RawMeta = []byte{0, 1, 0}
				lfail = "dr"
				d.feats["leader-badmeta"] = true
			}
		}
		c.reply <- reply{join: ja}
		d.held = m
		d.cHeld, d.cLeaveSeen = ja.MemberID, false
		leaderLab := ""
		reads := 0
		if ld == "l" && lfail == "" {
			// assignTopicPartitions: one readPartitions for all topics; when that answers
			// UnknownTopicOrPartition and there are >= 2 topics, one readPartitions per topic
			// (unknown topics skipped, any other error returned).  The coordinator answers
			// consistently with its cluster: which topics exist is drawn per join.
			nt := len(d.topics)
			missing := make([]bool, nt)
			anyMissing := false
			if d.r.Intn(3) == 0 {
				for i := range missing {
					if d.r.Intn(2) == 0 {
						missing[i], anyMissing = true, true
					}
				}
			}
			first := "ok"
			rp := d.await("readparts", func(x *call) bool { return len(x.topics) == nt })
			reads = 1
			switch {
			case d.r.Intn(8) == 0:
				first = []string{"rb", "ka", "dr"}[d.r.Intn(3)]
				lfail = first
				code, err := errFor(first, d.r)
				d.feats["leader-readparts-"+first] = true
				rp.reply <- reply{code: code, err: err}
			case anyMissing:
				first = "un"
				d.feats["leader-unknown-topic"] = true
				rp.reply <- reply{code: 3}
			default:
				d.feats["leader"] = true
				var ps []kafka.Partition
				for _, t := range d.topics {
					ps = append(ps, partsOf(t, 3)...)
				}
				rp.reply <- reply{parts: ps}
			}
			var per []string
			if first == "un" && nt >= 2 {
				d.feats["leader-per-topic-reads"] = true
				for i, t := range d.topics {
					t := t
					rp := d.await("readparts", func(x *call) bool { return len(x.topics) == 1 && x.topics[0] == t })
					reads++
					if d.r.Intn(10) == 0 {
						e := []string{"rb", "ka", "dr"}[d.r.Intn(3)]
						code, err := errFor(e, d.r)
						d.feats["leader-per-topic-"+e] = true
						per = append(per, e)
						lfail = e
						rp.reply <- reply{code: code, err: err}
						break
					}
					if missing[i] {
						per = append(per, "un")
						rp.reply <- reply{code: 3}
					} else {
						per = append(per, "ok")
						rp.reply <- reply{parts: partsOf(t, 3)}
					}
				}
			}
			ps := "-"
			if len(per) > 0 {
				ps = strings.Join(per, ".")
			}
			leaderLab = "Jo:" + hx(m) + ":L:" + hx(nt) + ":" + first + ":" + ps
		}
		if reads > 0 {
			d.ob("j" + seen + "r" + hx(reads))
		} else {
			d.ob("j" + seen)
		}
		if lfail != "" {
			if leaderLab != "" {
				d.lab(leaderLab)
			} else {
				d.lab("Jo:" + hx(m) + ":f" + lfail)
			}
			d.noteFail(lfail)
			d.failNG(lfail)
			return
		}
		if leaderLab != "" {
			d.lab(leaderLab)
		} else {
			d.lab("Jo:" + hx(m) + ":" + ld)
		}
		d.pc = "sync"
	case "sync":
		c := d.await("sync", nil)
		a := d.randAns(80)
		d.ob("s" + memberTok(c.member))
		if c.gen != 100+d.joinGen {
			d.ob("BADGEN")
		}
		if a == "ok" {
			// the member assignment of the answer is part of the input space: empty (stand-by
			// member), not covering every configured topic, every topic, a topic that is not
			// configured, a topic with no partition
			asg := map[string][]int32{}
			var toks []string
			kind := d.r.Intn(6)
			if d.scripted {
				kind = 1
			}
			switch kind {
			case 0:
				d.feats["assign-empty"] = true
			case 1:
				asg[d.topics[0]] = []int32{0, 1}
				toks = append(toks, "0=0.1")
				if len(d.topics) > 1 {
					d.feats["assign-partial"] = true
				}
			case 2:
				for i, t := range d.topics {
					asg[t] = []int32{int32(i), int32(i + 2)}
					toks = append(toks, hx(i)+"="+hx(i)+"."+hx(i+2))
				}
				if len(d.topics) > 1 {
					d.feats["assign-several-topics"] = true
				}
			case 3:
				last := len(d.topics) - 1
				asg[d.topics[last]] = []int32{5}
				toks = append(toks, hx(last)+"=5")
				if last > 0 {
					d.feats["assign-partial"] = true
				}
			case 4:
				asg["not-configured"] = []int32{0}
				toks = append(toks, "9=0")
				d.feats["assign-foreign-topic"] = true
			default:
				asg[d.topics[0]] = []int32{}
				toks = append(toks, "0=")
				d.feats["assign-topic-without-partitions"] = true
			}
			c.reply <- reply{assign: asg}
			if len(toks) == 0 {
				d.lab("Sy:ok:e")
			} else {
				d.lab("Sy:ok:" + strings.Join(toks, ","))
			}
			d.pc = "fetch"
			return
		}
		d.feats["sync-"+a] = true
		d.noteFail(a)
		if a == "dr" && d.r.Intn(3) == 0 {
			d.feats["sync-badbytes"] = true
			c.reply <- reply{raw: []byte{0, 1, 0, 0, 0}}
		} else {
			code, err := errFor(a, d.r)
			c.reply <- reply{code: code, asField: d.r.Intn(2) == 0, err: err}
		}
		d.lab("Sy:" + a)
		d.failNG(a)
	case "fetch":
		c := d.await("fetch", nil)
		a := d.randAns(85)
		d.ob("f")
		if a != "ok" {
			d.feats["fetch-"+a] = true
			d.noteFail(a)
			code, err := errFor(a, d.r)
			c.reply <- reply{code: code, err: err}
			d.lab("Fe:" + a)
			d.failNG(a)
			return
		}
		c.reply <- reply{}
		d.lab("Fe:ok")
		k := len(d.gens)
		g := &mgen{mid: d.held, wireID: 100 + d.joinGen}
		d.gens = append(d.gens, g)
		d.byWire[g.wireID] = k
		// gen.heartbeatLoop, gen.partitionWatcher × n: Start critical sections on the fresh generation
		d.lab("SH")
		d.fns = append(d.fns, &mfn{gen: k, kind: 'h', acc: true, running: true})
		g.routines++
		for i := 0; i < d.nwatch; i++ {
			d.lab("SW")
			d.fns = append(d.fns, &mfn{gen: k, kind: 'w', acc: true, running: true, topic: d.topics[i]})
			g.routines++
		}
		d.pc = "publish"
	case "leaveconn":
		a := d.randAns(75)
		if a == "rb" || a == "ka" {
			d.feats["leave-find-"+a] = true
		}
		d.serveCoordinator(a)
		d.lab("LC:" + a)
		if a == "ok" {
			d.pc = "leavereq"
			return
		}
		d.feats["leave-unreachable"] = true
		d.ob("u" + hx(d.held))
		d.cLeaveSeen = true
		d.finishLeave()
	case "leavereq":
		c := d.await("leave", nil)
		a := d.randAns(70)
		d.ob("l" + memberTok(c.member))
		if c.member == d.cHeld {
			d.cLeaveSeen = true
		}
		code, err := int16(0), error(nil)
		if a != "ok" {
			code, err = errFor(a, d.r)
			d.feats["leave-"+a] = true
		}
		c.reply <- reply{code: code, err: err}
		d.lab("LR:" + a)
		d.feats["leave"] = true
		d.finishLeave()
	}
}

func (d *driver) parts(n int) []kafka.Partition {
	var ps []kafka.Partition
	for i := 0; i < n; i++ {
		ps = append(ps, kafka.Partition{Topic: d.topics[0], ID: i})
	}
	return ps
}

func partsOf(topic string, n int) []kafka.Partition {
	var ps []kafka.Partition
	for i := 0; i < n; i++ {
		ps = append(ps, kafka.Partition{Topic: topic, ID: i})
	}
	return ps
}

func (d *driver) atGate() bool {
	switch d.pc {
	case "connect", "join", "sync", "fetch", "leaveconn", "leavereq":
		return true
	}
	return false
}

// answer calls of heartbeat / watcher functions of generation k that are blocked in the gate
func (d *driver) serveInternal(k int) bool {
	g := d.gens[k]
	c := d.g.peek(func(x *call) bool { return (x.api == "hb" && x.gen == g.wireID) || x.api == "readparts" })
	if c == nil {
		return false
	}
	d.g.take(c)
	if c.api == "hb" {
		for i, f := range d.fns {
			if f.gen == k && f.kind == 'h' {
				d.lab("HB:" + hx(i) + ":ok")
				d.ob("h" + hx(d.byWire[c.gen]) + "." + hx(i) + "." + memberTok(c.member))
			}
		}
		c.reply <- reply{}
		d.feats["heartbeat"] = true
		return true
	}
	for i, f := range d.fns {
		if f.gen == k && f.kind == 'w' && f.running && len(c.topics) == 1 && f.topic == c.topics[0] {
			if !f.init {
				f.init = true
				d.lab("WI:" + hx(i) + ":ok")
			} else {
				d.lab("WT:" + hx(i) + ":s")
				d.feats["watch-same"] = true
			}
		}
	}
	c.reply <- reply{parts: d.parts(3)}
	return true
}

// answer one pending heartbeat of generation k with ok
func (d *driver) serveInternalHB(k int) bool {
	g := d.gens[k]
	c := d.g.peek(func(x *call) bool { return x.api == "hb" && x.gen == g.wireID })
	if c == nil {
		return false
	}
	d.g.take(c)
	for i, f := range d.fns {
		if f.gen == k && f.kind == 'h' {
			d.lab("HB:" + hx(i) + ":ok")
			d.ob("h" + hx(d.byWire[c.gen]) + "." + hx(i) + "." + memberTok(c.member))
		}
	}
	c.reply <- reply{}
	d.feats["heartbeat"] = true
	return true
}

// generation k has ended (done closed): its heartbeat and watchers leave on ctx.Done();
// wait until they all have, answering whatever they still ask the coordinator.
func (d *driver) drainInternal(k int) {
	g := d.gens[k]
	var internal []int
	users := 0
	for i, f := range d.fns {
		if f.gen == k && f.running && f.acc {
			if f.kind == 'u' {
				users++
			} else {
				internal = append(internal, i)
			}
		}
	}
	if len(internal) == 0 {
		return
	}
	if g.ptr == nil && d.pc == "publish" {
		// not handed out and run is not closing it yet: nothing observable; the functions are
		// drained when close() or Next gets to this generation
		d.feats["ended-before-publish"] = true
		return
	}
	cond := func() bool { return g.ptr.VerifState().Routines == users }
	if g.ptr == nil {
		// never handed out: only close() waits for it; run then goes on to a coordinator call
		cond = func() bool { return d.g.peek(func(x *call) bool { return x.api == "connect" }) != nil }
	}
	waitFor("heartbeat/watchers of an ended generation to exit", func() bool {
		if cond() {
			return true
		}
		d.serveInternal(k)
		return false
	})
	for _, i := range internal {
		f := d.fns[i]
		if f.kind == 'w' && !f.init {
			// its first readPartitions was answered above, or it is still to come: the
			// watcher cannot leave before it; serveInternal has set init if it was served
			d.feats["watch-late-init"] = true
		}
		d.lab("FD:" + hx(i))
		d.fnGone(i)
	}
}

// bookkeeping of "function i returned and its exit handler ran" (labels FH)
func (d *driver) fnGone(i int) {
	f := d.fns[i]
	f.running = false
	if !f.acc {
		return
	}
	g := d.gens[f.gen]
	d.lab("FH:" + hx(i))
	g.closed = true
	g.routines--
	if g.routines == 0 {
		g.joined = true
	}
}

// forced internal steps of the run goroutine
func (d *driver) settle() {
	for {
		switch d.pc {
		case "publish":
			if len(d.nextPending) > 0 && !d.cgDone {
				for n := range d.nextPending {
					d.recvNext(n, "gen")
				}
				continue
			}
			if d.cgDone && len(d.nextPending) == 0 {
				d.lab("PA")
				d.feats["publish-abort"] = true
				d.closeGen("closed")
				continue
			}
			return
		case "wait":
			if d.cgDone {
				d.lab("WC")
				d.feats["close-reaches-live-gen"] = true
				d.closeGen("closed")
				continue
			}
			if d.cur().closed {
				d.lab("WD")
				d.closeGen("ended")
				continue
			}
			return
		case "closewait":
			if d.cur().joined {
				d.lab("GJ")
				d.afterClose()
				continue
			}
			return
		case "offer":
			if len(d.nextPending) > 0 && !d.cgDone {
				for n := range d.nextPending {
					d.recvNext(n, "err")
				}
				continue
			}
			if d.cgDone && len(d.nextPending) == 0 {
				d.lab("OA")
				d.feats["offer-abort-"+d.offErr] = true
				// leaveGroup(memberID) on the way out (no-op without a member id)
				d.enterLeave("exit", d.offErr)
				continue
			}
			return
		case "backoff":
			if d.longBack {
				if d.cgDone {
					d.lab("BA")
					d.feats["backoff-abort"] = true
					d.pc = "exited"
					continue
				}
				return
			}
			d.lab("BF")
			d.feats["backoff"] = true
			d.pc = "connect"
			continue
		case "exited":
			if d.closeCalled && !d.closeRet {
				select {
				case <-d.closeCh:
				case <-time.After(watchdog):
					panic(hang{"Close to return after run exited"})
				}
				d.closeRet = true
				d.lab("CR:0")
				d.ob("CR")
				continue
			}
			return
		default:
			return
		}
	}
}

// gen.close() by the run goroutine: critical section, then possibly <-joined
func (d *driver) closeGen(why string) {
	g := d.cur()
	k := len(d.gens) - 1
	d.why = why
	d.lab("GL")
	wasClosed := g.closed
	g.closed = true
	if g.routines > 0 {
		d.pc = "closewait"
		d.feats["close-waits"] = true
		if !wasClosed {
			// done was closed by close(): the internal functions leave now
			if g.ptr != nil {
				waitFor("gen.done closed by close()", func() bool { return g.ptr.VerifState().Done })
			}
		}
		d.drainInternal(k)
		return
	}
	d.feats["close-nowait"] = true
	d.afterClose()
}

func (d *driver) afterClose() {
	if d.why == "closed" {
		d.enterLeave("exit", "")
		return
	}
	d.pc = "connect"
}

func (d *driver) callNext() int {
	n := d.nextSeq
	d.nextSeq++
	ctx, cancel := context.WithCancel(context.Background())
	ch := make(chan nextRes, 1)
	d.nextPending[n] = ch
	d.nextCancel[n] = cancel
	d.lab("NC:" + hx(n))
	go func() {
		g, err := d.cg.Next(ctx)
		ch <- nextRes{g, err}
	}()
	return n
}

func (d *driver) recvNext(n int, want string) {
	ch := d.nextPending[n]
	var res nextRes
	select {
	case res = <-ch:
	case <-time.After(watchdog):
		panic(hang{"Next to return (" + want + ")"})
	}
	delete(d.nextPending, n)
	d.nextCancel[n]()
	switch {
	case res.err == nil && res.gen != nil:
		k, ok := d.byWire[res.gen.ID]
		if !ok {
			d.ob("N" + hx(n) + "g?")
			return
		}
		d.ob("N" + hx(n) + "g" + hx(k))
		d.gens[k].ptr = res.gen
		d.gens[k].pub = true
		{
			// what happened to the generation before it was handed out could not be observed:
			// catch up with it now
			g := d.gens[k]
			if !g.closed {
				// nothing of this generation has ended: the run goroutine started the heartbeat and one
				// watcher per configured topic BEFORE handing it out, whatever was assigned
				if st := res.gen.VerifState(); !st.Closed && st.Routines != g.routines {
					d.ob(fmt.Sprintf("BADSTARTS:%x/%x", st.Routines, g.routines))
					panic(abort{fmt.Sprintf("generation handed out by Next with %d accounted functions, expected %d (heartbeat + one watcher per configured topic)", st.Routines, g.routines)})
				}
			}
			waitFor("published generation to reach the expected accounting state", func() bool {
				st := res.gen.VerifState()
				// (its heartbeat / watchers may already have left on ctx.Done(); they are
				// accounted for when the driver drains them)
				return st.Closed == g.closed && st.Routines <= g.routines && (g.closed || st.Routines == g.routines)
			})
		}
		if want == "gen" {
			d.lab("NG:" + hx(n))
			d.pc = "wait"
			d.feats["next-gen"] = true
		} else {
			d.lab("UNEXPECTED-NG:" + hx(n))
		}
	case errors.Is(res.err, kafka.ErrGroupClosed):
		d.ob("N" + hx(n) + "x")
		d.lab("NX:" + hx(n))
		d.feats["next-closed"] = true
	case errors.Is(res.err, context.Canceled):
		d.ob("N" + hx(n) + "t")
		d.lab("NT:" + hx(n))
		d.feats["next-ctx"] = true
	default:
		d.ob("N" + hx(n) + "e" + errClassOf(res.err))
		if want == "err" {
			d.lab("NE:" + hx(n))
			d.feats["next-err"] = true
			if d.offBack {
				d.pc = "backoff"
			} else {
				d.pc = "connect"
			}
		} else {
			d.lab("UNEXPECTED-NE:" + hx(n))
		}
	}
}

func (d *driver) startUser(k int) {
	g := d.gens[k]
	i := len(d.fns)
	f := &mfn{gen: k, kind: 'u', running: true, exit: make(chan struct{})}
	before := g.ptr.VerifState()
	g.ptr.Start(func(ctx context.Context) {
		<-f.exit
		f.returned.Store(true)
	})
	after := g.ptr.VerifState()
	acc := after.Routines == before.Routines+1
	f.acc = !g.closed
	d.fns = append(d.fns, f)
	if f.acc {
		g.routines++
		d.feats["start-acc"] = true
	} else {
		d.feats["start-late"] = true
		if k < len(d.gens)-1 {
			d.feats["start-on-old-gen"] = true
		}
	}
	d.lab("St:" + hx(k))
	d.ob("S" + hx(k) + "." + hx(i) + "." + b01(acc))
}

func (d *driver) returnUser(i int) {
	f := d.fns[i]
	g := d.gens[f.gen]
	before := g.ptr.VerifState()
	close(f.exit)
	waitFor("user fn to return", func() bool { return f.returned.Load() })
	d.lab("FR:" + hx(i))
	d.ob("R" + hx(f.gen) + "." + hx(i))
	if f.acc {
		waitFor("exit handler", func() bool { return g.ptr.VerifState().Routines <= before.Routines-1 })
		if !before.Closed {
			d.feats["exit-ends-gen"] = true
			if !g.ptr.VerifState().Done {
				d.ob("NOTCANCELLED")
			}
		}
	}
	wasClosed := g.closed
	d.fnGone(i)
	if f.acc && !wasClosed {
		d.drainInternal(f.gen)
	}
}

func (d *driver) hbFail(k int) {
	g := d.gens[k]
	var idx = -1
	for i, f := range d.fns {
		if f.gen == k && f.kind == 'h' && f.running {
			idx = i
		}
	}
	if idx < 0 {
		return
	}
	c := d.await("hb", func(x *call) bool { return x.gen == g.wireID })
	a := []string{"rb", "ka", "dr"}[d.r.Intn(3)]
	if d.scripted {
		a = "rb"
	}
	code, err := errFor(a, d.r)
	d.lab("HB:" + hx(idx) + ":" + a)
	d.ob("h" + hx(k) + "." + hx(idx) + "." + memberTok(c.member))
	d.feats["heartbeat-"+a] = true
	before := -1
	if g.ptr != nil {
		before = g.ptr.VerifState().Routines
	}
	c.reply <- reply{code: code, err: err}
	if g.ptr != nil {
		waitFor("exit handler of heartbeat", func() bool { return g.ptr.VerifState().Routines <= before-1 })
		if !g.ptr.VerifState().Done {
			d.ob("NOTCANCELLED")
		}
	}
	wasClosed := g.closed
	d.fnGone(idx)
	if !wasClosed {
		d.drainInternal(k)
	}
}

func (d *driver) watcherEvent(k int) {
	g := d.gens[k]
	if d.pc == "join" {
		return
	}
	var cands []int
	for i, f := range d.fns {
		if f.gen == k && f.kind == 'w' && f.running {
			cands = append(cands, i)
		}
	}
	if len(cands) == 0 {
		return
	}
	idx := cands[d.r.Intn(len(cands))]
	f := d.fns[idx]
	// the watcher asks for the partitions when it starts and at every tick
	c := d.await("readparts", func(x *call) bool { return len(x.topics) == 1 && x.topics[0] == f.topic })
	exits := false
	if !f.init {
		if d.r.Intn(3) == 0 {
			a := []string{"rb", "ka", "dr"}[d.r.Intn(3)]
			code, err := errFor(a, d.r)
			d.lab("WI:" + hx(idx) + ":" + a)
			d.feats["watch-init-"+a] = true
			c.reply <- reply{code: code, err: err}
			exits = true
		} else {
			f.init = true
			d.lab("WI:" + hx(idx) + ":ok")
			c.reply <- reply{parts: d.parts(3)}
		}
	} else {
		switch d.r.Intn(5) {
		case 0:
			d.lab("WT:" + hx(idx) + ":c")
			d.feats["watch-changed"] = true
			c.reply <- reply{parts: d.parts(4)}
			exits = true
		case 1:
			d.lab("WT:" + hx(idx) + ":c")
			d.feats["watch-unknown-topic-changed"] = true
			c.reply <- reply{code: 3}
			exits = true
		case 2:
			d.lab("WT:" + hx(idx) + ":k")
			d.feats["watch-kafka-err"] = true
			c.reply <- reply{code: 5}
		case 3:
			d.lab("WT:" + hx(idx) + ":d")
			d.feats["watch-dropped"] = true
			c.reply <- reply{err: io.ErrUnexpectedEOF}
			exits = true
		default:
			d.lab("WT:" + hx(idx) + ":s")
			d.feats["watch-same"] = true
			c.reply <- reply{parts: d.parts(3)}
		}
	}
	if !exits {
		return
	}
	if g.ptr != nil {
		users, internal := 0, 0
		for _, x := range d.fns {
			if x.gen == k && x.running && x.acc {
				if x.kind == 'u' {
					users++
				} else {
					internal++
				}
			}
		}
		waitFor("exit handler of watcher", func() bool {
			// once the watcher is gone the generation is done and the other internal functions
			// follow; serve them while waiting
			if g.ptr.VerifState().Done {
				return true
			}
			return false
		})
	}
	wasClosed := g.closed
	d.fnGone(idx)
	if !wasClosed {
		d.drainInternal(k)
	}
}

func (d *driver) callClose() {
	d.closeCalled = true
	d.closeCh = make(chan struct{})
	go func() { d.cg.Close(); close(d.closeCh) }()
	waitFor("cg.done closed", func() bool { return d.cg.VerifDoneClosed() })
	d.cgDone = true
	d.lab("CC:0")
	d.ob("CC")
	// Next callers that are blocked now return ErrGroupClosed (run is not offering anything)
	for n := range d.nextPending {
		d.recvNext(n, "closed")
	}
}

// can Close be called now with a determined outcome?
func (d *driver) closeSafe() bool {
	if d.closeCalled {
		return false
	}
	switch d.pc {
	case "publish", "offer":
		return len(d.nextPending) == 0
	case "wait":
		return !d.cur().closed
	case "backoff":
		return d.longBack
	case "exited":
		return true
	case "closewait":
		return false
	}
	// at a coordinator gate: the call must have arrived
	return d.g.peek(func(x *call) bool {
		return x.api == "connect" || x.api == "join" || x.api == "sync" || x.api == "fetch" || x.api == "leave"
	}) != nil
}

func (d *driver) leaveFull() string {
	if d.cHeld == "" || d.cLeaveSeen {
		return "1"
	}
	return "0"
}

func runE2E(r *rand.Rand, forced string) {
	family = "e2e"
	runCase(r, func(rr *rand.Rand) { e2eCase(rr, forced) })
}

func e2eCase(r *rand.Rand, forced string) {
	d := &driver{r: r, g: &gate{}, pc: "connect", held: -1, byWire: map[int32]int{},
		nextPending: map[int]chan nextRes{}, nextCancel: map[int]context.CancelFunc{}, feats: map[string]bool{}}
	d.nwatch = []int{0, 0, 1, 2}[r.Intn(4)]
	d.longBack = r.Intn(4) == 0
	if forced != "" {
		d.nwatch, d.longBack = 0, false
	}
	d.backoff = 3 * time.Millisecond
	if d.longBack {
		d.backoff = time.Hour
		d.feats["long-backoff"] = true
	}
	d.topics = []string{"t0", "t1"}[:max(1, d.nwatch)]
	if d.nwatch == 0 && forced == "" && r.Intn(2) == 0 {
		d.topics = []string{"t0", "t1"} // two configured topics, no watchers
		d.feats["topics=2"] = true
	}
	cfg := kafka.ConsumerGroupConfig{
		ID: "grp", Brokers: []string{"bootstrap.test:9092"}, Topics: d.topics,
		HeartbeatInterval: 2 * time.Millisecond, PartitionWatchInterval: 2 * time.Millisecond,
		WatchPartitionChanges: d.nwatch > 0, JoinGroupBackoff: d.backoff, Timeout: time.Second,
	}
	if d.nwatch > 0 {
		d.feats["watchers="+hx(d.nwatch)] = true
	}
	cg, err := kafka.VerifNewConsumerGroup(cfg, func(brokers ...string) (kafka.VerifCoordinator, error) {
		rp := d.g.do(&call{api: "connect"})
		if rp.err != nil {
			return nil, rp.err
		}
		return coord{d.g}, nil
	})
	if err != nil {
		emit("e2e", hx(d.nwatch), "NEWFAIL:"+err.Error(), "")
		return
	}
	d.cg = cg
	hung := ""
	aborted := ""
	func() {
		defer func() {
			if x := recover(); x != nil {
				if a, ok := x.(abort); ok {
					aborted = a.what
					return
				}
				h, ok := x.(hang)
				if !ok {
					panic(x)
				}
				hung = h.what
				noteHang("e2e: " + h.what)
			}
		}()
		if forced == "f5" {
			// regression for the former defect F5: FindCoordinator, JoinGroup ok as member 1,
			// SyncGroup -> 27, nobody calls Next, Close: LeaveGroup for member 1 must be sent
			d.serveCoordinator("ok")
			d.lab("Co:ok")
			d.ob("c")
			d.pc = "join"
			c := d.await("join", nil)
			d.ob("j" + memberTok(c.member))
			c.reply <- reply{join: kafka.VerifJoinAnswer{GenerationID: 101, GroupProtocol: "range", LeaderID: "m0", MemberID: "m1"}}
			d.joinGen = 1
			d.held, d.cHeld = 1, "m1"
			d.lab("Jo:1:n")
			c = d.await("sync", nil)
			d.ob("s" + memberTok(c.member))
			c.reply <- reply{code: 27}
			d.lab("Sy:rb")
			d.noteFail("rb")
			d.failNG("rb")
			d.callClose()
			d.settle() // OA: run leaves the group before it returns
			if d.pc == "leaveconn" {
				d.serveCoordinator("ok")
				d.lab("LC:ok")
				d.pc = "leavereq"
				c = d.await("leave", nil)
				d.ob("l" + memberTok(c.member))
				if c.member == d.cHeld {
					d.cLeaveSeen = true
				}
				c.reply <- reply{}
				d.lab("LR:ok")
				d.feats["leave"] = true
				d.finishLeave()
			}
			d.settle()
			return
		}
		if forced == "joinerr" {
			// regression for the second fixed defect: generation 0 of member 1 ends on a heartbeat
			// answered RebalanceInProgress, the re-join with id 1 gets a dropped connection; the
			// coordinator must see LeaveGroup for 1; then Close while the error is offered
			d.scripted = true
			d.script = []string{"ok", "ok", "ok", "ok", "ok", "dr", "ok", "ok"}
			for i := 0; i < 4; i++ {
				d.serveRun() // coordinator, join, sync, fetch
			}
			d.settle()
			d.callNext()
			d.settle()
			d.hbFail(0)
			d.settle()
			d.serveRun() // coordinator
			d.serveRun() // join: dropped
			d.serveRun() // leave: coordinator
			d.serveRun() // leave: request
			d.callClose()
			d.settle()
			return
		}
		steps := 4 + r.Intn(30)
		for s := 0; s < steps; s++ {
			d.settle()
			if d.pc == "exited" && d.closeRet {
				break
			}
			var acts []func()
			if d.atGate() {
				acts = append(acts, d.serveRun, d.serveRun, d.serveRun)
			}
			if len(d.nextPending) == 0 && !d.cgDone && d.pc != "closewait" {
				acts = append(acts, func() { d.callNext() }, func() { d.callNext() })
			}
			if d.cgDone && len(d.nextPending) == 0 && (d.pc == "exited" || d.atGate() && d.closeSafeGateOnly()) {
				acts = append(acts, func() { n := d.callNext(); d.recvNext(n, "closed") })
			}
			if len(d.nextPending) > 0 && d.atGate() {
				acts = append(acts, func() {
					for n := range d.nextPending {
						d.nextCancel[n]()
						d.recvNext(n, "ctx")
					}
				})
			}
			if d.closeSafe() && r.Intn(6) == 0 {
				acts = append(acts, d.callClose)
			}
			for k, g := range d.gens {
				k := k
				if g.ptr != nil {
					acts = append(acts, func() { d.startUser(k) })
				}
			}
			for i, f := range d.fns {
				i := i
				if f.kind == 'u' && f.running {
					acts = append(acts, func() { d.returnUser(i) })
				}
			}
			if (d.pc == "wait" || d.pc == "publish") && !d.cur().closed {
				k := len(d.gens) - 1
				acts = append(acts, func() { d.hbFail(k) })
				if d.nwatch > 0 {
					acts = append(acts, func() { d.watcherEvent(k) }, func() { d.watcherEvent(k) })
				}
				acts = append(acts, func() {
					// a heartbeat tick answered ok
					g := d.gens[k]
					for _, f := range d.fns {
						if f.gen == k && f.kind == 'h' && f.running {
							waitFor("heartbeat request", func() bool {
								return d.g.peek(func(x *call) bool { return x.api == "hb" && x.gen == g.wireID }) != nil
							})
							for !d.serveInternalHB(k) {
							}
						}
					}
				})
			}
			if len(acts) == 0 {
				break
			}
			acts[r.Intn(len(acts))]()
		}
		// wind down: let every function go, close, serve the run loop until it exits
		for guard := 0; guard < 200; guard++ {
			d.settle()
			if d.pc == "exited" && d.closeRet {
				break
			}
			done := false
			for i, f := range d.fns {
				if f.kind == 'u' && f.running {
					d.returnUser(i)
					done = true
					break
				}
			}
			if done {
				continue
			}
			if len(d.nextPending) > 0 && d.atGate() {
				for n := range d.nextPending {
					d.nextCancel[n]()
					d.recvNext(n, "ctx")
				}
				continue
			}
			if !d.closeCalled && d.closeSafe() {
				d.callClose()
				continue
			}
			if d.atGate() {
				d.serveRun()
				continue
			}
			if d.pc == "offer" && !d.cgDone && len(d.nextPending) == 0 {
				d.callNext()
				continue
			}
			if d.pc == "publish" && !d.cgDone && len(d.nextPending) == 0 {
				d.callNext()
				continue
			}
			if d.pc == "wait" && !d.closeCalled {
				d.callClose()
				continue
			}
			panic(hang{"wind-down stuck at " + d.pc})
		}
	}()
	var fin []string
	for k, g := range d.gens {
		if g.ptr != nil {
			st := g.ptr.VerifState()
			fin = append(fin, "G"+hx(k)+":"+b01(st.Closed)+","+fmt.Sprintf("%x", st.Routines)+","+b01(st.Done)+","+b01(st.Joined))
		}
	}
	res := strings.Join(d.obs, " ") + " # " + strings.Join(fin, " ") + " # exit=" + b01(d.pc == "exited") + " leavefull=" + d.leaveFull() + " mon=ok"
	if aborted != "" {
		hung = aborted
	}
	if hung != "" {
		res = "HANG:" + hung + " after " + strings.Join(d.obs, " ")
		d.feats["hang"] = true
		if aborted != "" {
			res = "ABORT:" + aborted + " after " + strings.Join(d.obs, " ")
			delete(d.feats, "hang")
			d.feats["abort"] = true
		}
		// unblock whatever is left so that goroutines do not pile up
		go func() {
			for i := 0; i < 2000; i++ {
				if c := d.g.peek(func(*call) bool { return true }); c != nil {
					d.g.take(c)
					c.reply <- reply{err: io.EOF}
				}
				time.Sleep(time.Millisecond)
			}
		}()
		go d.cg.Close()
	}
	if d.leaveFull() == "0" {
		d.feats["close-without-leave"] = true
	}
	op := "e2e"
	if forced != "" {
		op = "e2e-" + forced
	}
	emit(op, hx(d.nwatch)+" "+strings.Join(d.labels, " "), res, featStr(d.feats))
}

func (d *driver) closeSafeGateOnly() bool {
	return d.g.peek(func(x *call) bool {
		return x.api == "connect" || x.api == "join" || x.api == "sync" || x.api == "fetch" || x.api == "leave"
	}) != nil
}

// =============================================================================== main

func main() {
	seed := flag.Int64("seed", 1, "PRNG seed")
	n := flag.Int("n", 300, "number of generated cases")
	only := flag.String("only", "", "gen|e2e|wire|conn|soak|f5|joinerr")
	caseSeed := flag.String("caseseed", "", "with -only gen|e2e|soak: run just the scenario with this seed (hex, the seed= feature of a case)")
	reps := flag.Int("reps", 1, "with -caseseed: how many times")
	wd := flag.Duration("watchdog", watchdog, "watchdog per blocking wait")
	flag.Parse()
	watchdog = *wd
	out = bufio.NewWriter(os.Stdout)
	defer out.Flush()
	r := rand.New(rand.NewSource(*seed))
	if *caseSeed != "" {
		var cs int64
		fmt.Sscanf(*caseSeed, "%x", &cs)
		for i := 0; i < *reps; i++ {
			family = *only
			switch *only {
			case "gen":
				runSeeded(cs, genCase)
			case "e2e":
				runSeeded(cs, func(rr *rand.Rand) { e2eCase(rr, "") })
			case "soak":
				runSeeded(cs, soakCase)
			}
		}
		return
	}
	if *only == "" || *only == "f5" {
		runE2E(r, "f5")
	}
	if *only == "" || *only == "joinerr" {
		runE2E(r, "joinerr")
	}
	if *only == "" || *only == "wire" {
		runWireF5()
	}
	if *only == "" || *only == "conn" {
		runConnFamily()
	}
	for i := 0; i < *n; i++ {
		switch {
		case *only == "gen" || (*only == "" && i%3 != 0):
			runGenCase(r)
		case *only == "e2e" || (*only == "" && i%3 == 0):
			runE2E(r, "")
		}
	}
	if *only == "" || *only == "soak" {
		for i := 0; i < max(1, *n/30); i++ {
			runSoak(r)
		}
	}
}
