package main

// soak: the real ConsumerGroup used freely by concurrent goroutines against an
// auto-answering scripted coordinator; every observable event is appended to one
// globally ordered timeline, which the extracted monitors (mon_one_live, mon_heartbeat,
// mon_backoff) then judge.  No model run is attached (the schedule is not controlled).

import (
	"context"
	"errors"
	"io"
	"math/rand"
	"strings"
	"sync"
	"time"

	kafka "github.com/segmentio/kafka-go"
)

type timeline struct {
	mu  sync.Mutex
	evs []string
}

func (t *timeline) add(e string) {
	t.mu.Lock()
	t.evs = append(t.evs, e)
	t.mu.Unlock()
}

func runSoak(r *rand.Rand) {
	family = "soak"
	runCase(r, soakCase)
}

func soakCase(r *rand.Rand) {
	seed := r.Int63()
	tl := &timeline{}
	var mu sync.Mutex // protects sr and the script state
	sr := rand.New(rand.NewSource(seed))
	backoff := 3 * time.Millisecond
	pErr := 5 + sr.Intn(25)
	feats := map[string]bool{}
	var (
		joinSeq  int32
		nextMid  = 1
		held     = -1
		lastFail time.Time
		failBack bool
		byWire   = map[int32]int{}
		ngen     int
		cHeld    = ""
		cLeft    = false
		lastRB   = false
		hbOpen   = -1
	)
	cls := func() string { return []string{"rb", "ka", "dr"}[sr.Intn(3)] }
	fail := func(c string) (int16, error) {
		lastFail, failBack, lastRB = time.Now(), c != "rb", c == "rb"
		tl.add("F" + c)
		feats["fail-"+c] = true
		return errFor(c, sr)
	}
	g := &gate{}
	g.auto = func(c *call) reply {
		mu.Lock()
		defer mu.Unlock()
		switch c.api {
		case "connect", "find", "commit":
			return reply{}
		case "join":
			if failBack {
				if c.at.Sub(lastFail) >= backoff {
					tl.add("b")
				}
				failBack = false
			}
			if hbOpen >= 0 {
				// run is past gen.close() of the previous generation: its heartbeat function has
				// returned (any heartbeat for it after this point fails mon_heartbeat)
				tl.add("R" + hx(hbOpen) + "." + hx(100000+hbOpen))
				hbOpen = -1
			}
			tl.add("j" + memberTok(c.member))
			if c.member == "" && cHeld != "" && !cLeft {
				feats["dropped-id-without-leave"] = true
			}
			if sr.Intn(100) < pErr {
				code, err := fail(cls())
				if !lastRB {
					held = -1 // the client leaves with the id (seen by "leave") and forgets it
				}
				return reply{join: kafka.VerifJoinAnswer{ErrorCode: code}, asField: sr.Intn(2) == 0, err: err}
			}
			m := held
			if m < 0 || sr.Intn(4) == 0 {
				m = nextMid
				nextMid++
			}
			held, cHeld, cLeft = m, memberStr(m), false
			joinSeq++
			return reply{join: kafka.VerifJoinAnswer{GenerationID: 100 + joinSeq, GroupProtocol: "range", LeaderID: "m0", MemberID: memberStr(m)}}
		case "sync":
			tl.add("s" + memberTok(c.member))
			if sr.Intn(100) < pErr {
				code, err := fail(cls())
				if !lastRB {
					held = -1
				}
				return reply{code: code, asField: sr.Intn(2) == 0, err: err}
			}
			if sr.Intn(3) == 0 {
				feats["assign-empty"] = true
				return reply{assign: map[string][]int32{}} // stand-by member
			}
			return reply{assign: map[string][]int32{"t0": {0}}}
		case "fetch":
			tl.add("f")
			if sr.Intn(100) < pErr/2 {
				code, err := fail(cls())
				if !lastRB {
					held = -1
				}
				return reply{code: code, err: err}
			}
			k := ngen
			ngen++
			byWire[100+joinSeq] = k
			tl.add("G" + hx(k) + "." + hx(held))
			hbOpen = k
			tl.add("S" + hx(k) + "." + hx(100000+k) + ".1") // the heartbeat function's Start on the fresh generation
			return reply{}
		case "hb":
			k, ok := byWire[c.gen]
			if !ok {
				tl.add("h" + hx(99999) + ".0." + memberTok(c.member))
				return reply{}
			}
			tl.add("h" + hx(k) + "." + hx(100000+k) + "." + memberTok(c.member))
			feats["heartbeat"] = true
			if sr.Intn(100) < 8 {
				feats["heartbeat-fail"] = true
				code, err := errFor(cls(), sr)
				return reply{code: code, err: err}
			}
			return reply{}
		case "leave":
			if hbOpen >= 0 {
				tl.add("R" + hx(hbOpen) + "." + hx(100000+hbOpen))
				hbOpen = -1
			}
			tl.add("l" + memberTok(c.member))
			feats["leave"] = true
			if c.member == cHeld {
				cLeft = true
			}
			return reply{}
		case "readparts":
			return reply{parts: []kafka.Partition{{Topic: "t0", ID: 0}}}
		}
		return reply{err: io.EOF}
	}
	cg, err := kafka.VerifNewConsumerGroup(kafka.ConsumerGroupConfig{
		ID: "grp", Brokers: []string{"bootstrap.test:9092"}, Topics: []string{"t0"},
		HeartbeatInterval: time.Millisecond, JoinGroupBackoff: backoff, Timeout: time.Second,
	}, func(brokers ...string) (kafka.VerifCoordinator, error) { return coord{g}, nil })
	if err != nil {
		emit("soak", "-", "NEWFAIL", "")
		return
	}
	var wg sync.WaitGroup
	var fnSeq int
	var fmu sync.Mutex
	consumers := 1 + int(seed%2)
	for c := 0; c < consumers; c++ {
		wg.Add(1)
		cr := rand.New(rand.NewSource(seed + int64(c) + 1))
		go func(c int) {
			defer wg.Done()
			for {
				gen, err := cg.Next(context.Background())
				if errors.Is(err, kafka.ErrGroupClosed) {
					tl.add("N" + hx(c) + "x")
					return
				}
				if err != nil {
					tl.add("N" + hx(c) + "e" + errClassOf(err))
					continue
				}
				mu.Lock()
				k, ok := byWire[gen.ID]
				mu.Unlock()
				if !ok {
					tl.add("N" + hx(c) + "g" + hx(99998))
					continue
				}
				tl.add("N" + hx(c) + "g" + hx(k))
				if st := gen.VerifState(); !st.Closed && st.Routines < 1 {
					// still live, nothing started by us yet: the heartbeat must be running, whatever was assigned
					mu.Lock()
					feats["published-without-heartbeat"] = true
					mu.Unlock()
				}
				nf := 1 + cr.Intn(3)
				var fwg sync.WaitGroup
				for i := 0; i < nf; i++ {
					fmu.Lock()
					f := fnSeq
					fnSeq++
					fmu.Unlock()
					spont := time.Duration(cr.Intn(6000)) * time.Microsecond
					dawdle := time.Duration(cr.Intn(1500)) * time.Microsecond
					obedient := cr.Intn(5) > 0
					fwg.Add(1)
					gen.Start(func(ctx context.Context) {
						defer fwg.Done()
						if obedient {
							select {
							case <-ctx.Done():
							case <-time.After(spont):
							}
						} else {
							time.Sleep(spont)
						}
						time.Sleep(dawdle)
						tl.add("R" + hx(k) + "." + hx(f))
					})
					// accounted for certain iff the generation was still live after Start returned
					select {
					case <-gen.VerifDone():
						tl.add("S" + hx(k) + "." + hx(f) + ".0")
					default:
						tl.add("S" + hx(k) + "." + hx(f) + ".1")
					}
				}
				if cr.Intn(3) == 0 {
					fwg.Wait()
				}
			}
		}(c)
	}
	time.Sleep(time.Duration(5+r.Intn(40)) * time.Millisecond)
	tl.add("CC0")
	closed := make(chan struct{})
	go func() { cg.Close(); close(closed) }()
	res := "ok"
	select {
	case <-closed:
		tl.add("CR0")
	case <-time.After(watchdog):
		res = "HANG:Close"
		noteHang("soak: Close")
		mu.Lock()
		feats["hang"] = true
		mu.Unlock()
	}
	done := make(chan struct{})
	go func() { wg.Wait(); close(done) }()
	select {
	case <-done:
	case <-time.After(watchdog):
		res = "HANG:Next-after-Close"
		noteHang("soak: Next after Close")
		mu.Lock()
		feats["hang"] = true
		mu.Unlock()
	}
	mu.Lock()
	if cHeld != "" && !cLeft {
		feats["close-without-leave"] = true
		if lastRB {
			feats["offer-abort-rb"] = true
		}
	}
	feats["consumers="+hx(consumers)] = true
	fs := featStr(feats)
	mu.Unlock()
	tl.mu.Lock()
	args := strings.Join(tl.evs, " ")
	tl.mu.Unlock()
	emit("soak", args, res, fs)
}
