package main

// conn: the coordinator connection layer that the scripted `coordinator` of the other families
// replaces — makeConnect, timeoutCoordinator and *Conn — driven over net.Pipe
// (Dialer.DialFunc) against the scripted wire broker of wire.go.
//
//	conn dl <call>      an UNANSWERED request (accepted, never answered, connection left open) must
//	                    fail at the deadline the code arms for that call: Timeout for most,
//	                    Timeout+RebalanceTimeout for JoinGroup, Timeout+SessionTimeout for SyncGroup.
//	                    Result: the deadline class the measured failure time falls in.
//	conn boot <up...>   bootstrap list of 2-3 brokers, each subset down: a generation is reached
//	                    iff some broker is up; Close then sends LeaveGroup; the dial attempts are
//	                    the brokers in order up to the first reachable one.

import (
	"context"
	"errors"
	"fmt"
	"math/rand"
	"net"
	"strings"
	"sync"
	"time"

	kafka "github.com/segmentio/kafka-go"
)

const (
	connTimeout   = 250 * time.Millisecond
	connRebalance = 1500 * time.Millisecond
	connSession   = 3000 * time.Millisecond
	connMargin    = 1000 * time.Millisecond // a deadline may be noticed this late (loaded machine); the classes are 1.5 s apart
)

var apiKeyOf = map[string]int{"findCoordinator": 10, "joinGroup": 11, "syncGroup": 14, "leaveGroup": 13,
	"heartbeat": 12, "offsetFetch": 9, "offsetCommit": 8, "readPartitions": 3}

// the class a failure time falls in: T / TR / TS, or early / late-T etc. when it fits none
func deadlineClass(d time.Duration) string {
	classes := []struct {
		name string
		at   time.Duration
	}{{"T", connTimeout}, {"TR", connTimeout + connRebalance}, {"TS", connTimeout + connSession}}
	if d < connTimeout-20*time.Millisecond {
		return fmt.Sprintf("early(%dms)", d.Milliseconds())
	}
	for _, c := range classes {
		if d >= c.at-20*time.Millisecond && d < c.at+connMargin {
			return c.name
		}
	}
	return fmt.Sprintf("none(%dms)", d.Milliseconds())
}

func measureUnanswered(api string) (string, error) {
	j := &wireJournal{syncs: make(chan struct{}, 4), stall: map[int]bool{apiKeyOf[api]: true}}
	dialer := &kafka.Dialer{
		Timeout: 2 * time.Second,
		DialFunc: func(ctx context.Context, network, address string) (net.Conn, error) {
			a, b := net.Pipe()
			go j.serve(b)
			return a, nil
		},
	}
	cfg := kafka.ConsumerGroupConfig{ID: "grp", Brokers: []string{"b0.test:9092"}, Topics: []string{"t0"}, Dialer: dialer,
		Timeout: connTimeout, RebalanceTimeout: connRebalance, SessionTimeout: connSession}
	c, err := kafka.VerifConnectCoordinator(cfg, cfg.Brokers...)
	if err != nil {
		return "", err
	}
	defer c.Close()
	done := make(chan error, 1)
	t0 := time.Now()
	go func() { done <- c.Call(api) }()
	select {
	case err := <-done:
		el := time.Since(t0)
		if err == nil {
			return "answered?", nil
		}
		var ne net.Error
		if !(errors.As(err, &ne) && ne.Timeout()) {
			return "error:" + errClassOf(err) + fmt.Sprintf("(%dms)", el.Milliseconds()), nil
		}
		return deadlineClass(el), nil
	case <-time.After(connTimeout + connSession + 3*connMargin):
		return "never", nil
	}
}

func runConnFamily() {
	family = "conn"
	apis := []string{"findCoordinator", "joinGroup", "syncGroup", "leaveGroup", "heartbeat", "offsetFetch", "offsetCommit", "readPartitions"}
	// all calls at once, each on its own connection: the whole table costs one Timeout+SessionTimeout
	res := make([]string, len(apis))
	var wg sync.WaitGroup
	for i, api := range apis {
		wg.Add(1)
		go func(i int, api string) {
			defer wg.Done()
			r, err := measureUnanswered(api)
			if err != nil {
				r = "connect-error"
			}
			res[i] = r
		}(i, api)
	}
	wg.Wait()
	want := map[string]string{"joinGroup": "TR", "syncGroup": "TS"}
	for i, api := range apis {
		feats := "conn,unanswered"
		w := want[api]
		if w == "" {
			w = "T"
		}
		if res[i] != w {
			// a time class is a wall-clock observation: measure this call again, alone, before reporting it
			first := res[i]
			r, err := measureUnanswered(api)
			if err != nil {
				r = "connect-error"
			}
			if r == w {
				feats += ",timing-once-under-load,first=" + first
			} else {
				feats += ",timing-twice,first=" + first
			}
			res[i] = r
		}
		emit("conn", "dl "+api, res[i], feats)
	}
	for _, up := range [][]bool{{true, true}, {false, true}, {true, false}, {false, false},
		{false, true, true}, {false, false, true}, {true, false, false}, {false, false, false}} {
		runSeeded(0, func(*rand.Rand) { bootCase(up) })
	}
}

func bootCase(up []bool) {
	j := &wireJournal{syncs: make(chan struct{}, 4), standby: true, events: make(chan string, 16)}
	var mu sync.Mutex
	var dialed []string
	var brokers []string
	isUp := map[string]bool{"coordinator.test:9092": true}
	var toks []string
	for i, u := range up {
		a := fmt.Sprintf("b%d.test:9092", i)
		brokers = append(brokers, a)
		isUp[a] = u
		toks = append(toks, b01(u))
	}
	dialer := &kafka.Dialer{
		Timeout: 2 * time.Second,
		DialFunc: func(ctx context.Context, network, address string) (net.Conn, error) {
			mu.Lock()
			dialed = append(dialed, address)
			mu.Unlock()
			if !isUp[address] {
				return nil, errors.New("dial tcp " + address + ": connection refused")
			}
			a, b := net.Pipe()
			go j.serve(b)
			return a, nil
		},
	}
	cg, err := kafka.NewConsumerGroup(kafka.ConsumerGroupConfig{
		ID: "grp", Brokers: brokers, Topics: []string{"t0"}, Dialer: dialer,
		HeartbeatInterval: time.Second, JoinGroupBackoff: time.Hour, Timeout: 2 * time.Second,
		SessionTimeout: 2 * time.Second, RebalanceTimeout: 2 * time.Second,
	})
	if err != nil {
		emit("conn", "boot "+strings.Join(toks, " "), "NEWFAIL:"+err.Error(), "conn,boot")
		return
	}
	type nr struct {
		g   *kafka.Generation
		err error
	}
	nch := make(chan nr, 1)
	go func() { g, err := cg.Next(context.Background()); nch <- nr{g, err} }()
	gen := 0
	res := ""
	select {
	case r := <-nch:
		if r.err == nil && r.g != nil {
			gen = 1
		}
	case <-time.After(watchdog):
		res = "HANG:Next "
		noteHang("conn boot: Next")
	}
	// the dial attempts of the first connect: the bootstrap brokers in order up to the first reachable
	mu.Lock()
	first := "-"
	tried := 0
	for _, a := range dialed {
		if a == "coordinator.test:9092" {
			break
		}
		tried++
		if isUp[a] {
			first = strings.TrimSuffix(strings.TrimPrefix(a, "b"), ".test:9092")
			break
		}
	}
	mu.Unlock()
	closed := make(chan struct{})
	go func() { cg.Close(); close(closed) }()
	select {
	case <-closed:
	case <-time.After(watchdog):
		res += "HANG:Close "
		noteHang("conn boot: Close")
	}
	j.mu.Lock()
	left := 0
	for _, m := range j.members {
		if m == "leave:member-1" {
			left = 1
		}
	}
	j.mu.Unlock()
	res += fmt.Sprintf("first=%s tried=%d gen=%d leave=%d", first, tried, gen, left)
	emit("conn", "boot "+strings.Join(toks, " "), res, fmt.Sprintf("conn,boot,brokers=%d", len(up)))
}
