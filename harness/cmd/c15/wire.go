package main

// The F5 scenario at wire level: the real ConsumerGroup with its real Dialer/Conn/
// timeoutCoordinator, talking over net.Pipe to a scripted coordinator that decodes
// requests with protocol.ReadRequest and answers with protocol.WriteResponse.
//   FindCoordinator ok, (ApiVersions), JoinGroup ok as member-1, SyncGroup -> error 27,
//   nobody calls Next, Close.  The journal of api keys must then contain LeaveGroup (13)
//   for member-1 (regression for the former defect F5).

import (
	"context"
	"fmt"
	"math/rand"
	"net"
	"strings"
	"sync"
	"time"

	kafka "github.com/segmentio/kafka-go"
	"github.com/segmentio/kafka-go/protocol"
	"github.com/segmentio/kafka-go/protocol/apiversions"
	"github.com/segmentio/kafka-go/protocol/findcoordinator"
	"github.com/segmentio/kafka-go/protocol/heartbeat"
	"github.com/segmentio/kafka-go/protocol/joingroup"
	"github.com/segmentio/kafka-go/protocol/leavegroup"
	_ "github.com/segmentio/kafka-go/protocol/metadata"
	_ "github.com/segmentio/kafka-go/protocol/offsetcommit"
	"github.com/segmentio/kafka-go/protocol/offsetfetch"
	"github.com/segmentio/kafka-go/protocol/syncgroup"
)

type wireJournal struct {
	mu      sync.Mutex
	keys    []int
	members []string
	syncs   chan struct{}
	stall   map[int]bool // api keys whose requests are accepted and then neither answered nor closed
	standby bool         // SyncGroup answers ok with an EMPTY member assignment; the 2nd heartbeat answers 27
	hbs     int
	joins   int
	events  chan string
}

func (j *wireJournal) signal(e string) {
	if j.events != nil {
		select {
		case j.events <- e:
		default:
		}
	}
}

func (j *wireJournal) serve(c net.Conn) {
	defer c.Close()
	for {
		ver, corr, _, msg, err := protocol.ReadRequest(c)
		if err != nil {
			return
		}
		j.mu.Lock()
		j.keys = append(j.keys, int(msg.ApiKey()))
		j.mu.Unlock()
		if j.stall[int(msg.ApiKey())] {
			continue // accepted, never answered; the next read blocks until the client gives up
		}
		var res protocol.Message
		switch m := msg.(type) {
		case *apiversions.Request:
			res = &apiversions.Response{ApiKeys: []apiversions.ApiKeyResponse{
				{ApiKey: int16(protocol.FindCoordinator), MinVersion: 0, MaxVersion: 0},
				{ApiKey: int16(protocol.JoinGroup), MinVersion: 0, MaxVersion: 1},
				{ApiKey: int16(protocol.SyncGroup), MinVersion: 0, MaxVersion: 0},
				{ApiKey: int16(protocol.LeaveGroup), MinVersion: 0, MaxVersion: 0},
				{ApiKey: int16(protocol.Heartbeat), MinVersion: 0, MaxVersion: 0},
				{ApiKey: int16(protocol.OffsetFetch), MinVersion: 0, MaxVersion: 1},
				{ApiKey: int16(protocol.ApiVersions), MinVersion: 0, MaxVersion: 0},
				{ApiKey: int16(protocol.Metadata), MinVersion: 0, MaxVersion: 1},
				{ApiKey: int16(protocol.OffsetCommit), MinVersion: 0, MaxVersion: 2},
			}}
		case *findcoordinator.Request:
			res = &findcoordinator.Response{NodeID: 1, Host: "coordinator.test", Port: 9092}
		case *joingroup.Request:
			j.mu.Lock()
			j.members = append(j.members, "join:"+m.MemberID)
			j.joins++
			nj := j.joins
			j.mu.Unlock()
			if nj >= 2 {
				j.signal("rejoin")
			}
			res = &joingroup.Response{GenerationID: 1, ProtocolName: "range", LeaderID: "member-0", MemberID: "member-1"}
		case *syncgroup.Request:
			j.mu.Lock()
			j.members = append(j.members, "sync:"+m.MemberID)
			j.mu.Unlock()
			if j.standby {
				res = &syncgroup.Response{Assignments: []byte{}} // no partition for this member
			} else {
				res = &syncgroup.Response{ErrorCode: 27}
			}
		case *leavegroup.Request:
			j.mu.Lock()
			j.members = append(j.members, "leave:"+m.MemberID)
			j.mu.Unlock()
			res = &leavegroup.Response{}
		case *heartbeat.Request:
			j.mu.Lock()
			j.hbs++
			n := j.hbs
			j.mu.Unlock()
			if j.standby && n == 2 {
				res = &heartbeat.Response{ErrorCode: 27} // the rebalance signal
			} else {
				res = &heartbeat.Response{}
			}
		case *offsetfetch.Request:
			res = &offsetfetch.Response{}
		default:
			return
		}
		if err := protocol.WriteResponse(c, ver, corr, res); err != nil {
			return
		}
		if _, ok := msg.(*syncgroup.Request); ok {
			select {
			case j.syncs <- struct{}{}:
			default:
			}
		}
	}
}

func runWireF5() {
	family = "wire"
	runSeeded(0, func(*rand.Rand) { wireCase() })
	runSeeded(0, func(*rand.Rand) { wireStandby() })
}

// A stand-by member at wire level: SyncGroup hands it no partition.  It must heartbeat all the
// same; the second heartbeat is answered RebalanceInProgress, which must end the generation and
// make the member re-join; Close then leaves the group.
func wireStandby() {
	j := &wireJournal{syncs: make(chan struct{}, 4), standby: true, events: make(chan string, 16)}
	dialer := &kafka.Dialer{
		Timeout: 2 * time.Second,
		DialFunc: func(ctx context.Context, network, address string) (net.Conn, error) {
			a, b := net.Pipe()
			go j.serve(b)
			return a, nil
		},
	}
	cg, err := kafka.NewConsumerGroup(kafka.ConsumerGroupConfig{
		ID: "grp", Brokers: []string{"bootstrap.test:9092"}, Topics: []string{"t0"}, Dialer: dialer,
		HeartbeatInterval: 5 * time.Millisecond, JoinGroupBackoff: 5 * time.Millisecond, Timeout: 2 * time.Second,
		SessionTimeout: time.Second, RebalanceTimeout: time.Second,
	})
	if err != nil {
		emit("wire", "standby", "NEWFAIL:"+err.Error(), "wire")
		return
	}
	res := "standby"
	feats := "wire,assign-empty"
	type nr struct {
		g   *kafka.Generation
		err error
	}
	nch := make(chan nr, 1)
	go func() { g, err := cg.Next(context.Background()); nch <- nr{g, err} }()
	started := false
	select {
	case r := <-nch:
		if r.err != nil {
			res += " nexterr=" + errClassOf(r.err)
		} else if st := r.g.VerifState(); st.Closed || st.Routines >= 1 {
			started = true
		}
	case <-time.After(watchdog):
		res = "HANG:Next " + res
		noteHang("wire: Next (stand-by)")
	}
	res += " started=" + b01(started)
	rejoin := false
	if started {
		select {
		case <-j.events:
			rejoin = true
		case <-time.After(watchdog):
			res = "HANG:no re-join after a heartbeat answered RebalanceInProgress " + res
			noteHang("wire: re-join (stand-by)")
		}
	} else {
		feats += ",published-without-heartbeat"
	}
	closed := make(chan struct{})
	go func() { cg.Close(); close(closed) }()
	select {
	case <-closed:
	case <-time.After(watchdog):
		res = "HANG:Close " + res
		noteHang("wire: Close (stand-by)")
	}
	j.mu.Lock()
	defer j.mu.Unlock()
	left := 0
	for _, m := range j.members {
		if m == "leave:member-1" {
			left = 1
		}
	}
	res += fmt.Sprintf(" hb=%s rejoin=%s leave=%d closed=1", b01(j.hbs >= 2), b01(rejoin), left)
	emit("wire", "standby", res, feats+fmt.Sprintf(",heartbeats=%d", min(j.hbs, 3)))
}

func wireCase() {
	j := &wireJournal{syncs: make(chan struct{}, 4)}
	dialer := &kafka.Dialer{
		Timeout: 2 * time.Second,
		DialFunc: func(ctx context.Context, network, address string) (net.Conn, error) {
			a, b := net.Pipe()
			go j.serve(b)
			return a, nil
		},
	}
	cg, err := kafka.NewConsumerGroup(kafka.ConsumerGroupConfig{
		ID: "grp", Brokers: []string{"bootstrap.test:9092"}, Topics: []string{"t0"}, Dialer: dialer,
		HeartbeatInterval: 5 * time.Millisecond, JoinGroupBackoff: 5 * time.Millisecond, Timeout: 2 * time.Second,
		SessionTimeout: time.Second, RebalanceTimeout: time.Second,
	})
	if err != nil {
		emit("wire", "f5", "NEWFAIL:"+err.Error(), "wire")
		return
	}
	res := ""
	select {
	case <-j.syncs:
	case <-time.After(watchdog):
		res = "HANG:no SyncGroup request "
		noteHang("wire: no SyncGroup request")
	}
	// the answer 27 is on its way; run will block offering the error (nobody calls Next).
	// Close may also win earlier than that (then ErrGroupClosed is not involved either: the
	// error offer is the only select in this path).
	closed := make(chan struct{})
	go func() { cg.Close(); close(closed) }()
	select {
	case <-closed:
	case <-time.After(watchdog):
		res += "HANG:Close "
		noteHang("wire: Close")
	}
	j.mu.Lock()
	defer j.mu.Unlock()
	cnt := map[int]int{}
	for _, k := range j.keys {
		cnt[k]++
	}
	var ks []string
	for _, k := range j.keys {
		ks = append(ks, fmt.Sprint(k))
	}
	left := "-"
	for _, m := range j.members {
		if strings.HasPrefix(m, "leave:") {
			left = strings.TrimPrefix(m, "leave:")
		}
	}
	res += fmt.Sprintf("find=%d join=%d sync=%d leave=%d:%s closed=1", cnt[10], cnt[11], cnt[14], cnt[13], left)
	feats := "wire,journal=" + strings.Join(ks, "-") + "," + strings.Join(j.members, ";")
	if cnt[13] == 0 {
		feats += ",close-without-leave,offer-abort-rb"
	} else {
		feats += ",leave-after-rebalance-in-progress"
	}
	emit("wire", "f5", res, feats)
}
