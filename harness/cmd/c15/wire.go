package main

// The F5 scenario at wire level: the real ConsumerGroup with its real Dialer/Conn/
// timeoutCoordinator, talking over net.Pipe to a scripted coordinator that decodes
// requests with protocol.ReadRequest and answers with protocol.WriteResponse.
//   FindCoordinator ok, (ApiVersions), JoinGroup ok as member-1, SyncGroup -> error 27,
//   nobody calls Next, Close.  The journal of api keys must then contain LeaveGroup (13)
//   for member-1 (regression for the former defect F5).

import (
	"context"
	"fmt"
	"math/rand"
	"net"
	"strings"
	"sync"
	"time"

	kafka "github.com/segmentio/kafka-go"
	"github.com/segmentio/kafka-go/protocol"
	"github.com/segmentio/kafka-go/protocol/apiversions"
	"github.com/segmentio/kafka-go/protocol/findcoordinator"
	"github.com/segmentio/kafka-go/protocol/heartbeat"
	"github.com/segmentio/kafka-go/protocol/joingroup"
	"github.com/segmentio/kafka-go/protocol/leavegroup"
	"github.com/segmentio/kafka-go/protocol/offsetfetch"
	"github.com/segmentio/kafka-go/protocol/syncgroup"
)

type wireJournal struct {
	mu      sync.Mutex
	keys    []int
	members []string
	syncs   chan struct{}
}

func (j *wireJournal) serve(c net.Conn) {
	defer c.Close()
	for {
		ver, corr, _, msg, err := protocol.ReadRequest(c)
		if err != nil {
			return
		}
		j.mu.Lock()
		j.keys = append(j.keys, int(msg.ApiKey()))
		j.mu.Unlock()
		var res protocol.Message
		switch m := msg.(type) {
		case *apiversions.Request:
			res = &apiversions.Response{ApiKeys: []apiversions.ApiKeyResponse{
				{ApiKey: int16(protocol.FindCoordinator), MinVersion: 0, MaxVersion: 0},
				{ApiKey: int16(protocol.JoinGroup), MinVersion: 0, MaxVersion: 1},
				{ApiKey: int16(protocol.SyncGroup), MinVersion: 0, MaxVersion: 0},
				{ApiKey: int16(protocol.LeaveGroup), MinVersion: 0, MaxVersion: 0},
				{ApiKey: int16(protocol.Heartbeat), MinVersion: 0, MaxVersion: 0},
				{ApiKey: int16(protocol.OffsetFetch), MinVersion: 0, MaxVersion: 1},
				{ApiKey: int16(protocol.ApiVersions), MinVersion: 0, MaxVersion: 0},
			}}
		case *findcoordinator.Request:
			res = &findcoordinator.Response{NodeID: 1, Host: "coordinator.test", Port: 9092}
		case *joingroup.Request:
			j.mu.Lock()
			j.members = append(j.members, "join:"+m.MemberID)
			j.mu.Unlock()
			res = &joingroup.Response{GenerationID: 1, ProtocolName: "range", LeaderID: "member-0", MemberID: "member-1"}
		case *syncgroup.Request:
			j.mu.Lock()
			j.members = append(j.members, "sync:"+m.MemberID)
			j.mu.Unlock()
			res = &syncgroup.Response{ErrorCode: 27}
		case *leavegroup.Request:
			j.mu.Lock()
			j.members = append(j.members, "leave:"+m.MemberID)
			j.mu.Unlock()
			res = &leavegroup.Response{}
		case *heartbeat.Request:
			res = &heartbeat.Response{}
		case *offsetfetch.Request:
			res = &offsetfetch.Response{}
		default:
			return
		}
		if err := protocol.WriteResponse(c, ver, corr, res); err != nil {
			return
		}
		if _, ok := msg.(*syncgroup.Request); ok {
			select {
			case j.syncs <- struct{}{}:
			default:
			}
		}
	}
}

func runWireF5() {
	family = "wire"
	runSeeded(0, func(*rand.Rand) { wireCase() })
}

func wireCase() {
	j := &wireJournal{syncs: make(chan struct{}, 4)}
	dialer := &kafka.Dialer{
		Timeout: 2 * time.Second,
		DialFunc: func(ctx context.Context, network, address string) (net.Conn, error) {
			a, b := net.Pipe()
			go j.serve(b)
			return a, nil
		},
	}
	cg, err := kafka.NewConsumerGroup(kafka.ConsumerGroupConfig{
		ID: "grp", Brokers: []string{"bootstrap.test:9092"}, Topics: []string{"t0"}, Dialer: dialer,
		HeartbeatInterval: 5 * time.Millisecond, JoinGroupBackoff: 5 * time.Millisecond, Timeout: 2 * time.Second,
		SessionTimeout: time.Second, RebalanceTimeout: time.Second,
	})
	if err != nil {
		emit("wire", "f5", "NEWFAIL:"+err.Error(), "wire")
		return
	}
	res := ""
	select {
	case <-j.syncs:
	case <-time.After(watchdog):
		res = "HANG:no SyncGroup request "
		noteHang("wire: no SyncGroup request")
	}
	// the answer 27 is on its way; run will block offering the error (nobody calls Next).
	// Close may also win earlier than that (then ErrGroupClosed is not involved either: the
	// error offer is the only select in this path).
	closed := make(chan struct{})
	go func() { cg.Close(); close(closed) }()
	select {
	case <-closed:
	case <-time.After(watchdog):
		res += "HANG:Close "
		noteHang("wire: Close")
	}
	j.mu.Lock()
	defer j.mu.Unlock()
	cnt := map[int]int{}
	for _, k := range j.keys {
		cnt[k]++
	}
	var ks []string
	for _, k := range j.keys {
		ks = append(ks, fmt.Sprint(k))
	}
	left := "-"
	for _, m := range j.members {
		if strings.HasPrefix(m, "leave:") {
			left = strings.TrimPrefix(m, "leave:")
		}
	}
	res += fmt.Sprintf("find=%d join=%d sync=%d leave=%d:%s closed=1", cnt[10], cnt[11], cnt[14], cnt[13], left)
	feats := "wire,journal=" + strings.Join(ks, "-") + "," + strings.Join(j.members, ";")
	if cnt[13] == 0 {
		feats += ",close-without-leave,offer-abort-rb"
	} else {
		feats += ",leave-after-rebalance-in-progress"
	}
	emit("wire", "f5", res, feats)
}
