package main

import "math/rand"

func runWireF5()          {}
func runSoak(r *rand.Rand) {}
