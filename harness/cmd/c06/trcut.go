package main

// op trcut — the Transport half of "a response cut off at any byte yields an error" (C17) and
// of C06's "a connection that failed an exchange is not reused".
//
// One warmed kafka.Transport.  The broker writes only the first k bytes of the answer to call 0
// (k inside the size prefix, inside the correlation id, exactly 8, in the middle of the body,
// all but the last byte) and then closes that connection — or goes silent, so that the call's
// context deadline fires.  Then 1-3 follower calls of other APIs for the SAME connection group
// run one after the other, each under its own 300 ms deadline; a 2 s watchdog turns a call
// that ignores its deadline into class 4 (hang), calls after it are class 0 (not run).
// Predicates (harness + the monitors extracted from coq/Model/TransportPool.v):
//   cut   : call 0 returns an error, never a message; every follower returns a message
//   deliv : ... which is the broker's answer to ITS request
//   hang  : no call outlives the watchdog
//   ids / fail : as in trlate (the failed connection carries no further request)

import (
	"fmt"
	"math/rand"
	"strings"
	"sync"
	"time"

	kafka "github.com/segmentio/kafka-go"
	"kverif/muxfake"
)

func genTRCut(r *rand.Rand) job {
	K := 1 + r.Intn(3)
	calls := make([]trCall, 1+K)
	fs := map[string]bool{"follow=" + hx(int64(K)): true}
	used := map[int64]bool{}
	fresh := func() int64 {
		for {
			n := int64(0x10 + r.Intn(0xfff0))
			if !used[n] {
				used[n] = true
				return n
			}
		}
	}
	slowKind := []string{"fc", "lo", "of"}[r.Intn(3)]
	followKinds := []string{"lo", "of"}
	if slowKind == "fc" {
		followKinds = []string{"fc", "of"}
	}
	topics := []string{"prime"}
	for i := range calls {
		c := &calls[i]
		c.n = fresh()
		c.kind = slowKind
		if i > 0 {
			c.kind = followKinds[r.Intn(len(followKinds))]
		}
		if c.kind == "lo" {
			topics = append(topics, c.topic())
		}
		c.ctxMode, c.ctxDur = 2, 300*time.Millisecond
		fs["kind="+c.kind] = true
	}
	tags0 := calls[0].tags()
	cutTag := tags0[len(tags0)-1]
	act := muxfake.Action{Cut: muxfake.CutAt}
	switch r.Intn(6) {
	case 0:
		act.CutK = r.Intn(4) // inside the size prefix (0 = nothing at all)
		fs["k=size"] = true
	case 1:
		act.CutK = 4 + r.Intn(4) // inside the correlation id
		fs["k=corr"] = true
	case 2:
		act.CutK = 8
		fs["k=8"] = true
	case 3:
		act.CutK = 9 + r.Intn(3)
		fs["k=body0"] = true
	case 4:
		act.CutK = muxfake.CutKMid
		fs["k=mid"] = true
	default:
		act.CutK = muxfake.CutKLast
		fs["k=last"] = true
	}
	if r.Intn(3) == 0 {
		act.Cut = muxfake.CutSilent
		calls[0].ctxDur = time.Duration(50+r.Intn(40)) * time.Millisecond
		fs["silent"] = true
	} else {
		fs["close"] = true
	}
	script := map[string]muxfake.Action{cutTag: act}
	for i := 1; i < len(calls); i++ {
		for _, t := range calls[i].tags() {
			if _, dup := script[t]; !dup {
				script[t] = muxfake.Action{Delay: time.Duration(r.Intn(3)) * time.Millisecond}
			}
		}
	}

	return job{op: "trcut", run: func() result {
		b := muxfake.NewBroker(topics...)
		tr := &kafka.Transport{Dial: b.Dial}
		setupErr := ""
		if err := prime(tr); err != nil {
			setupErr = "SETUP:" + err.Error()
		}
		b.SetScript(script)

		var mu sync.Mutex
		classes := make([]int, len(calls)) // 0 = not run
		oks := make([]bool, len(calls))
		gots := make([]string, len(calls))
		go func() {
			for i, c := range calls {
				mu.Lock()
				hung := false
				for j := 0; j < i; j++ {
					hung = hung || classes[j] == 4
				}
				mu.Unlock()
				if hung {
					return
				}
				done := make(chan struct{})
				var cl int
				var ok bool
				var got string
				go func() { cl, ok, got = c.run(tr, 0); close(done) }()
				if waitDone(done, 2*time.Second) {
					mu.Lock()
					classes[i], oks[i], gots[i] = cl, ok, got
					mu.Unlock()
				} else {
					mu.Lock()
					classes[i] = 4
					mu.Unlock()
					return
				}
			}
		}()
		// the sequence ends when every call has a class or one of them hung
		deadline := time.Now().Add(smallWatchdog + 6*time.Second)
		for time.Now().Before(deadline) {
			mu.Lock()
			fin := true
			for i := range classes {
				if classes[i] == 4 {
					fin = true
					break
				}
				if classes[i] == 0 {
					fin = false
				}
			}
			mu.Unlock()
			if fin {
				break
			}
			time.Sleep(2 * time.Millisecond)
		}
		mu.Lock()
		cls := append([]int(nil), classes...)
		okc := append([]bool(nil), oks...)
		gotc := append([]string(nil), gots...)
		mu.Unlock()

		reqs, anss := b.Journal(0, 0)
		callOf := map[string]int{}
		for i, c := range calls {
			for _, t := range c.tags() {
				callOf[t] = i
			}
		}
		var rq, an []string
		for _, q := range reqs {
			k := "-"
			if i, ok := callOf[q.Tag]; ok {
				k = hx(int64(i))
			}
			rq = append(rq, fmt.Sprintf("%s:%s:%s", hx(int64(q.Conn)), hx(int64(q.Corr)), k))
		}
		for _, a := range anss {
			if i, ok := callOf[a.Tag]; ok {
				an = append(an, fmt.Sprintf("%s:%s:%s", hx(int64(a.Conn)), hx(int64(a.Corr)), hx(int64(i))))
			}
		}
		ck, cn, _ := b.CutOf(cutTag)
		b.Close()
		tr.CloseIdleConnections()

		var rs []string
		for i := range calls {
			g := "-"
			if cls[i] == 1 {
				g = "?"
				if okc[i] {
					g = hx(int64(i))
				}
			}
			rs = append(rs, fmt.Sprintf("%s:%s", hx(int64(cls[i])), g))
		}
		join := func(l []string) string {
			if len(l) == 0 {
				return "."
			}
			return strings.Join(l, ",")
		}
		args := fmt.Sprintf("n=%s k=%s len=%s req=%s ans=%s res=%s", hx(int64(len(calls))), hx(int64(ck)), hx(int64(cn)), join(rq), join(an), join(rs))
		if setupErr != "" {
			return result{args, setupErr, feats(fs)}
		}

		cut, deliv, hang := "ok", "ok", "ok"
		if cls[0] != 3 {
			cut = "BAD:0:" + hx(int64(cls[0]))
		}
		for i := 1; i < len(calls); i++ {
			if cls[i] != 1 && cut == "ok" {
				cut = fmt.Sprintf("BAD:%s:%s", hx(int64(i)), hx(int64(cls[i])))
			}
		}
		for i := range calls {
			if cls[i] == 1 && !okc[i] && deliv == "ok" {
				deliv = fmt.Sprintf("BAD:%s:%s", hx(int64(i)), gotc[i])
			}
			if cls[i] == 4 && hang == "ok" {
				hang = "BAD:" + hx(int64(i))
			}
		}
		ids, fail := "ok", "ok"
		last := map[int]int32{}
		dead := map[int]bool{}
		lastReq := map[int]int{}
		for x, q := range reqs {
			if i, ok := callOf[q.Tag]; ok {
				lastReq[i] = x
			}
		}
		for x, q := range reqs {
			if prev, ok := last[q.Conn]; ok && q.Corr <= prev && ids == "ok" {
				ids = fmt.Sprintf("BAD:%s:%s", hx(int64(q.Conn)), hx(int64(q.Corr)))
			}
			last[q.Conn] = q.Corr
			if dead[q.Conn] && fail == "ok" {
				fail = "BAD:" + hx(int64(q.Conn))
			}
			if i, ok := callOf[q.Tag]; ok && cls[i] == 3 && lastReq[i] == x {
				dead[q.Conn] = true
			}
		}
		return result{args, fmt.Sprintf("cut=%s deliv=%s hang=%s ids=%s fail=%s", cut, deliv, hang, ids, fail), feats(fs)}
	}}
}
