package main

// op trlate — "the deadline expires in the middle of an exchange, the broker answers LATE,
// and the next 1-3 requests for the same connection group follow within the idle timeout".
//
// One kafka.Transport, warmed up.  Call 0 (the slow call) runs under a context deadline; the
// broker holds its answer until a later request arrives on the same connection (or the
// connection dies, or LateMax passes) — so if the implementation keeps the connection of
// the timed-out exchange in the pool, the late answer is the first frame the next exchange
// reads.  Calls 1..K follow sequentially as soon as call 0 has returned; every answer
// echoes a field of its request (group key / topic name), so the delivery predicate "every
// response delivered to a call is the broker's answer to THAT call's request" is decidable
// from the call results.  The whole wire journal (every request frame with its connection
// and correlation id, every complete answer frame) is printed and re-evaluated by the
// monitor extracted from coq/Model/TransportPool.v:
//   deliv : every delivered value is the answer computed for that call's own request
//   ids   : correlation ids on one connection are strictly increasing (none used twice)
//   fail  : a connection that carried a failed exchange carries no further request

import (
	"fmt"
	"math/rand"
	"strings"
	"time"

	kafka "github.com/segmentio/kafka-go"
	"kverif/muxfake"
)

func genTRLate(r *rand.Rand) job {
	K := 1 + r.Intn(3)
	calls := make([]trCall, 1+K)
	fs := map[string]bool{"follow=" + hx(int64(K)): true}
	used := map[int64]bool{}
	fresh := func() int64 {
		for {
			n := int64(0x10 + r.Intn(0xfff0))
			if !used[n] {
				used[n] = true
				return n
			}
		}
	}
	slowKind := []string{"fc", "lo"}[r.Intn(2)]
	topics := []string{"prime"}
	for i := range calls {
		c := &calls[i]
		c.n = fresh()
		c.kind = slowKind
		if i > 0 && slowKind == "lo" && r.Intn(3) == 0 {
			c.kind = "of" // FindCoordinator on the control group, then OffsetFetch on the broker group
		}
		if c.kind == "lo" {
			topics = append(topics, c.topic())
		}
		fs["kind="+c.kind] = true
	}
	calls[0].ctxMode, calls[0].ctxDur = 2, time.Duration(40+r.Intn(40))*time.Millisecond
	script := map[string]muxfake.Action{}
	slowTag := calls[0].tags()[len(calls[0].tags())-1]
	late := muxfake.Action{Late: 1}
	mode := r.Intn(4)
	switch mode {
	case 0: // released by the SECOND follower
		if K >= 2 {
			late.Late = 2
			fs["late=2"] = true
		} else {
			fs["late=1"] = true
		}
	case 1: // timed: the answer comes a fixed time after the deadline, the follower's own answer later still
		late = muxfake.Action{Delay: calls[0].ctxDur + time.Duration(15+r.Intn(25))*time.Millisecond}
		fs["late=timed"] = true
	default:
		fs["late=1"] = true
	}
	script[slowTag] = late
	for i := 1; i < len(calls); i++ {
		tags := calls[i].tags()
		a := muxfake.Action{Delay: time.Duration(r.Intn(3)) * time.Millisecond}
		if mode == 1 && i == 1 {
			a.Delay = time.Duration(60+r.Intn(30)) * time.Millisecond
		}
		script[tags[len(tags)-1]] = a
	}
	pause := time.Duration(0)
	if r.Intn(3) == 0 {
		pause = time.Duration(1+r.Intn(10)) * time.Millisecond // still far inside the idle timeout (30 s)
		fs["pause"] = true
	}

	return job{op: "trlate", run: func() result {
		b := muxfake.NewBroker(topics...)
		tr := &kafka.Transport{Dial: b.Dial}
		setupErr := ""
		if err := prime(tr); err != nil {
			setupErr = "SETUP:" + err.Error()
		}
		b.SetScript(script)

		classes := make([]int, len(calls))
		oks := make([]bool, len(calls))
		gots := make([]string, len(calls))
		done := make(chan struct{})
		go func() {
			defer close(done)
			for i, c := range calls {
				if i == 1 && pause > 0 {
					time.Sleep(pause)
				}
				classes[i], oks[i], gots[i] = c.run(tr, 2*time.Second)
			}
		}()
		completed := waitDone(done, smallWatchdog)
		// let a late answer that is still held come out (bounded by LateMax) before reading the journal
		time.Sleep(5 * time.Millisecond)

		reqs, anss := b.Journal(0, 0)
		callOf := map[string]int{}
		for i, c := range calls {
			for _, t := range c.tags() {
				callOf[t] = i
			}
		}
		var rq, an []string
		for _, q := range reqs {
			k := "-"
			if i, ok := callOf[q.Tag]; ok {
				k = hx(int64(i))
			}
			rq = append(rq, fmt.Sprintf("%s:%s:%s", hx(int64(q.Conn)), hx(int64(q.Corr)), k))
		}
		for _, a := range anss {
			if i, ok := callOf[a.Tag]; ok {
				an = append(an, fmt.Sprintf("%s:%s:%s", hx(int64(a.Conn)), hx(int64(a.Corr)), hx(int64(i))))
			}
		}
		b.Close()
		tr.CloseIdleConnections()

		// which call's answer did each successful call get?
		expect := func(c trCall) string {
			switch c.kind {
			case "fc":
				return muxfake.HostFor("g" + hx(c.n))
			case "lo":
				return c.topic() + "/" + hx(muxfake.OffsetForTag(c.n))
			default:
				return hx(muxfake.CommittedForTag(c.n))
			}
		}
		var rs []string
		if completed {
			for i := range calls {
				g := "-"
				if classes[i] == 1 {
					g = "?"
					if oks[i] {
						g = hx(int64(i))
					} else {
						for j, cj := range calls {
							if expect(cj) == gots[i] || (cj.kind == "lo" && strings.HasPrefix(gots[i], cj.topic()+"/")) {
								g = hx(int64(j))
							}
						}
					}
				}
				rs = append(rs, fmt.Sprintf("%s:%s", hx(int64(classes[i])), g))
			}
		}
		join := func(l []string) string {
			if len(l) == 0 {
				return "."
			}
			return strings.Join(l, ",")
		}
		args := fmt.Sprintf("n=%s req=%s ans=%s res=%s", hx(int64(len(calls))), join(rq), join(an), join(rs))
		if !completed {
			return result{args, "HANG", feats(fs)}
		}
		if setupErr != "" {
			return result{args, setupErr, feats(fs)}
		}

		// the three predicates, evaluated here on the implementation's own journal
		deliv := "ok"
		for i := range calls {
			if classes[i] == 1 && !oks[i] {
				deliv = fmt.Sprintf("BAD:%s:%s", hx(int64(i)), gots[i])
				break
			}
		}
		ids, fail := "ok", "ok"
		last := map[int]int32{}
		dead := map[int]bool{}
		lastReq := map[int]int{} // call -> index of its last request frame (the exchange that failed, if the call failed)
		for x, q := range reqs {
			if i, ok := callOf[q.Tag]; ok {
				lastReq[i] = x
			}
		}
		for x, q := range reqs {
			if prev, ok := last[q.Conn]; ok && q.Corr <= prev && ids == "ok" {
				ids = fmt.Sprintf("BAD:%s:%s", hx(int64(q.Conn)), hx(int64(q.Corr)))
			}
			last[q.Conn] = q.Corr
			if dead[q.Conn] && fail == "ok" {
				fail = "BAD:" + hx(int64(q.Conn))
			}
			if i, ok := callOf[q.Tag]; ok && classes[i] == 3 && lastReq[i] == x {
				dead[q.Conn] = true
			}
		}
		return result{args, fmt.Sprintf("deliv=%s ids=%s fail=%s", deliv, ids, fail), feats(fs)}
	}}
}
