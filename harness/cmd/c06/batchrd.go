package main

// op batchrd — "the read lock is handed to the Batch until Close" with real message sets.
//
// One kafka.Conn.  The answer to a fetch carries several batches (record batches v2 and message
// sets v1, some compressed with gzip / snappy) whose VALUES are made of copies of a forged
// response frame: a well-formed ListOffsets answer carrying the correlation id of the call that
// will read the connection next, with an offset no request asked for.  The client runs a random
// script on the Batch — ReadMessage, Read with a buffer larger / equal / shorter than the value
// (io.ErrShortBuffer), for a prefix of the messages — then Close, sometimes Close a second time
// after another call took the lock; variants: high watermark == offset although a message set is
// carried, slow-drip delivery so that Close meets the read deadline.  Meanwhile 0-3 other
// payload-tagged calls (ro/rp/of/fc) wait in waitResponse (their answers are held back until
// Close has returned and the byte accounting was taken), and one more call follows.
// Verdict (harness + extracted monitor mon_batch):
//   own   no call returned a value that is not the answer to its own request
//   acct  after a Close that left the connection open, the client had consumed exactly the fetch
//         frame (nothing unread in the socket or the read buffer)
//   serve after such a Close every other call gets its own answer (no faults were injected)
// Each scenario runs in a child process: releasing a lock twice is a fatal runtime error.

import (
	"bytes"
	"errors"
	"fmt"
	"io"
	"math/rand"
	"os"
	"os/exec"
	"strings"
	"sync"
	"time"

	kafka "github.com/segmentio/kafka-go"
	"github.com/segmentio/kafka-go/protocol/listoffsets"
	"kverif/kvfmt"
	"kverif/muxfake"
)

func genBatchRd(r *rand.Rand) job { return childJob("batchrd", r.Int63n(1<<40)) }

// childJob runs one scenario of a family in a child process (re-exec of this binary).
func childJob(family string, sub int64) job {
	return job{op: family, run: func() result {
		res := runChild(family, sub)
		// the byte accounting reads two counters of a live connection; a lone failure that does
		// not reproduce on the same scenario is reported as such (feature flaky-retry), a seeded
		// or real defect of the code under test reproduces
		if strings.Contains(res.res, "acct=BAD") {
			first := res.res
			if again := runChild(family, sub); !strings.Contains(again.res, "BAD") && !strings.HasPrefix(again.res, "CRASH") && !strings.HasPrefix(again.res, "HANG") {
				again.feats += ",flaky-retry"
				again.args += " first=" + strings.ReplaceAll(first, " ", "_")
				return again
			}
		}
		return res
	}}
}

func runChild(family string, sub int64) result {
	cmd := exec.Command(os.Args[0], "-child", family, "-sub", fmt.Sprint(sub))
	var out, errb bytes.Buffer
	cmd.Stdout, cmd.Stderr = &out, &errb
	done := make(chan error, 1)
	if err := cmd.Start(); err != nil {
		return result{"sub=" + hx(sub), "SETUP:" + err.Error(), ""}
	}
	go func() { done <- cmd.Wait() }()
	var werr error
	select {
	case werr = <-done:
	case <-time.After(8 * time.Second):
		cmd.Process.Kill()
		<-done
		return result{"sub=" + hx(sub), "HANG", "child"}
	}
	line := strings.TrimSpace(out.String())
	parts := strings.Split(line, " | ")
	if werr != nil || len(parts) != 3 {
		msg := strings.TrimSpace(errb.String())
		if i := strings.IndexByte(msg, '\n'); i > 0 {
			msg = msg[:i]
		}
		msg = strings.ReplaceAll(strings.ReplaceAll(msg, " ", "_"), "|", "/")
		if len(msg) > 80 {
			msg = msg[:80]
		}
		return result{"sub=" + hx(sub), "CRASH:" + msg, "child"}
	}
	return result{parts[0], parts[1], parts[2]}
}

type bop struct {
	kind  int // 0 ReadMessage, 1 Read larger, 2 Read equal, 3 Read short
	short int // number of forged frames the buffer is short of
}

func batchRdChild(sub int64) {
	r := rand.New(rand.NewSource(sub))
	fs := map[string]bool{}
	b := muxfake.NewBroker()
	cl := b.DialEnd()
	kc := kafka.VerifMuxConn(cl)
	kc.SetDeadline(time.Now().Add(3 * time.Second))
	if err := kafka.VerifLoadVersions(kc); err != nil {
		fmt.Printf("sub=%s | SETUP:%v | child\n", hx(sub), err)
		return
	}
	kc.SetDeadline(time.Time{})
	kc.Seek(batchOffset, kafka.SeekAbsolute|kafka.SeekDontCheck)
	id0 := kafka.VerifCorrelationID(kc)

	// ---- the other calls and the follower
	used := map[int64]bool{}
	fresh := func() int64 {
		for {
			n := int64(0x10 + r.Intn(0xfff0))
			if !used[n] {
				used[n] = true
				return n
			}
		}
	}
	mode := r.Intn(10) // 0-1 hwm == offset, 2-3 drip, 4-5 close inside a compressed batch, 6-7 short buffer in a plain batch, 8-9 free
	hwmEq := mode <= 1
	drip := mode == 2 || mode == 3
	double := r.Intn(4) == 0
	nOthers := r.Intn(4)
	if drip {
		nOthers = 0
	}
	others := make([]muxCall, nOthers)
	for i := range others {
		others[i] = muxCall{kind: []string{"ro", "rp", "of", "fc"}[r.Intn(4)], n: fresh()}
		if i == 0 {
			others[i].kind = "ro"
		}
		fs["kind="+others[i].kind] = true
	}
	follower := muxCall{kind: "ro", n: fresh()}
	forgedN := fresh()
	fetchCall := muxCall{kind: "batch", n: int64(0x1000 + r.Intn(0x4000))}

	// ---- the forged frame: a ListOffsets v1 answer for the call that reads the connection next
	forged, err := muxfake.Frame(1, id0+2, &listoffsets.Request{ReplicaID: -1, Topics: []listoffsets.RequestTopic{{
		Topic: muxfake.LegacyTopic, Partitions: []listoffsets.RequestPartition{{Partition: 0, Timestamp: forgedN}}}}}, 0, nil)
	if err != nil {
		fmt.Printf("sub=%s | SETUP:%v | child\n", hx(sub), err)
		return
	}
	F := len(forged)

	// ---- the message set
	nb := 1 + r.Intn(4)
	if (mode == 4 || mode == 5) && nb < 2 {
		nb = 2
	}
	forceComp, forcePlain := -1, -1
	switch mode {
	case 2, 3:
		forcePlain = nb - 1
	case 4, 5:
		forceComp = r.Intn(nb - 1)
	case 6, 7:
		forcePlain = r.Intn(nb)
	}
	firstOf := make([]int, nb) // index of the first message of each batch
	specs := make([]muxfake.BatchSpec, nb)
	var vals [][]byte
	var desc []string
	base := int64(batchOffset)
	for i := range specs {
		sp := &specs[i]
		sp.Version = int8(1 + r.Intn(2))
		if r.Intn(2) == 0 {
			sp.Codec = 1 + r.Intn(2)
		}
		if i == forcePlain {
			sp.Codec = 0
		}
		nm := 1 + r.Intn(3)
		if i == forceComp {
			if sp.Codec == 0 {
				sp.Codec = 1 + r.Intn(2)
			}
			if nm < 2 {
				nm = 2
			}
		}
		sp.Base = base
		firstOf[i] = len(vals)
		for j := nm; j > 0; j-- {
			v := bytes.Repeat(forged, 1+r.Intn(4))
			var k []byte
			if r.Intn(2) == 0 {
				k = []byte("k")
			}
			sp.Msgs = append(sp.Msgs, muxfake.Msg{Key: k, Value: v})
			vals = append(vals, v)
		}
		base += int64(len(sp.Msgs))
		desc = append(desc, fmt.Sprintf("%d:%d:%d", sp.Version, sp.Codec, len(sp.Msgs)))
		fs[fmt.Sprintf("v%d", sp.Version)] = true
		if sp.Codec != 0 {
			fs[[]string{"", "gzip", "snappy"}[sp.Codec]] = true
		}
	}
	ms, err := muxfake.BuildMessageSet(specs)
	if err != nil {
		fmt.Printf("sub=%s | SETUP:%v | child\n", hx(sub), err)
		return
	}
	fb := muxfake.FetchBody{HWM: base, MsgSet: ms}
	if hwmEq {
		fb.HWM = batchOffset
		fs["hwm=offset"] = true
	}
	b.SetFetch(map[string]muxfake.FetchBody{fetchCall.tag(): fb})

	// ---- the client's script on the Batch
	var ops []bop
	nread := r.Intn(len(vals) + 1)
	shortAt := -1
	switch mode {
	case 4, 5: // stop strictly inside the compressed batch
		nread = firstOf[forceComp] + 1 + r.Intn(len(specs[forceComp].Msgs)-1)
		fs["midcompressed"] = true
	case 6, 7: // a short-buffer read on a message of the plain batch
		shortAt = firstOf[forcePlain] + r.Intn(len(specs[forcePlain].Msgs))
		nread = shortAt + 1
	}
	for i := 0; i < nread; i++ {
		o := bop{kind: r.Intn(4)}
		if shortAt >= 0 {
			o.kind = r.Intn(3)
			if i == shortAt {
				o.kind = 3
			}
		} else if mode == 4 || mode == 5 {
			o.kind = r.Intn(3)
		}
		if o.kind == 3 {
			o.short = 1 + r.Intn(len(vals[i])/F)
			ops = append(ops, o)
			fs["shortbuffer"] = true
			break
		}
		ops = append(ops, o)
	}
	if nread < len(vals) {
		fs["partial"] = true
	}

	script := map[string]muxfake.Action{}
	for _, c := range others {
		script[c.tag()] = muxfake.Action{Manual: true}
	}
	script[follower.tag()] = muxfake.Action{Manual: true}
	if drip {
		frame := muxfake.FetchFrameV2(0, muxfake.LegacyTopic, 0, 0, fb)
		if p := bytes.LastIndex(frame, vals[len(vals)-1]); p > 0 && specs[nb-1].Codec == 0 {
			script[fetchCall.tag()] = muxfake.Action{DripAt: p, DripHold: 250 * time.Millisecond}
			fs["drip"] = true
			if len(ops) >= len(vals) { // do not read the last message: Close has to skip it
				ops = ops[:len(vals)-1]
			}
			for i := range ops {
				if ops[i].kind == 3 {
					ops = ops[:i]
					break
				}
			}
		} else {
			drip = false
		}
	}
	if double {
		fs["doubleclose"] = true
	}
	fs["others="+hx(int64(nOthers))] = true
	b.SetScript(script)
	nreq, _ := b.Mark()

	arrived := func(n int) bool {
		for t0 := time.Now(); time.Since(t0) < time.Second; time.Sleep(200 * time.Microsecond) {
			if k, _ := b.Mark(); k-nreq >= n {
				return true
			}
		}
		return false
	}

	// ---- run
	if drip {
		kc.SetReadDeadline(time.Now().Add(80 * time.Millisecond))
	} else {
		kc.SetDeadline(time.Now().Add(2 * time.Second))
	}
	type snap struct {
		closeClass int
		unread     int
		closed     bool
	}
	snapCh := make(chan snap, 1)
	var bt *kafka.Batch
	readBad := ""
	go func() {
		bt = kc.ReadBatch(1, int(fetchCall.n))
		for i, o := range ops {
			var got []byte
			var rerr error
			switch o.kind {
			case 0:
				var m kafka.Message
				m, rerr = bt.ReadMessage()
				got = m.Value
			case 1, 2:
				buf := make([]byte, len(vals[i])+(o.kind%2)*(1+r.Intn(64)))
				var n int
				n, rerr = bt.Read(buf)
				if n >= 0 && n <= len(buf) {
					got = buf[:n]
				}
			case 3:
				buf := make([]byte, len(vals[i])-o.short*F)
				_, rerr = bt.Read(buf)
				if !errors.Is(rerr, io.ErrShortBuffer) && !hwmEq && !drip {
					readBad = fmt.Sprintf("short:%d:%v", i, rerr)
				}
				continue
			}
			if !hwmEq && !drip && (rerr != nil || !bytes.Equal(got, vals[i])) && readBad == "" {
				readBad = strings.ReplaceAll(fmt.Sprintf("read:%d:%v", i, rerr), " ", "_")
			}
		}
		err := bt.Close()
		s := snap{}
		switch {
		case err == nil:
		case errors.Is(err, io.ErrShortBuffer):
			s.closeClass = 1
		default:
			s.closeClass = 2
		}
		s.unread = cl.Unread() + kafka.VerifBuffered(kc)
		time.Sleep(300 * time.Microsecond)
		if u := cl.Unread() + kafka.VerifBuffered(kc); u > s.unread {
			s.unread = u
		}
		s.closed = cl.Closed()
		snapCh <- s
	}()
	arrived(1)
	var mu sync.Mutex
	classes := make([]int, nOthers+1)
	for i := range classes {
		classes[i] = 5
	}
	foreign := ""
	var wg sync.WaitGroup
	runCall := func(i int, c muxCall) {
		defer wg.Done()
		err, ok, got := c.run(kc)
		cls := classify(err)
		mu.Lock()
		if err == nil && !ok {
			cls = 6
			if foreign == "" {
				foreign = fmt.Sprintf("FOREIGN:%s:%s", hx(int64(i)), got)
			}
		}
		classes[i] = cls
		mu.Unlock()
	}
	for i, c := range others {
		wg.Add(1)
		go runCall(i, c)
		arrived(2 + i)
	}
	var s snap
	select {
	case s = <-snapCh:
	case <-time.After(3 * time.Second):
		s = snap{closeClass: 3}
	}
	if s.closeClass != 3 {
		kc.SetDeadline(time.Now().Add(1500 * time.Millisecond)) // a fresh deadline for what follows
		if double {
			time.Sleep(time.Millisecond) // a waiter (if any) holds the read lock by now
			bt.Close()
		}
	}
	b.OpenManual()
	done := make(chan struct{})
	go func() { wg.Wait(); close(done) }()
	waitDone(done, 2500*time.Millisecond)
	if s.closeClass != 3 {
		wg.Add(1)
		fd := make(chan struct{})
		go func() { runCall(nOthers, follower); close(fd) }()
		waitDone(fd, 2500*time.Millisecond)
	}
	mu.Lock()
	cls := append([]int(nil), classes...)
	fg := foreign
	mu.Unlock()

	kinds := make([]string, 0, nOthers+1)
	for _, c := range others {
		kinds = append(kinds, c.kind)
	}
	kinds = append(kinds, "ro")
	var od []string
	for _, o := range ops {
		od = append(od, fmt.Sprintf("%d.%d", o.kind, o.short))
	}
	if len(od) == 0 {
		od = []string{"."}
	}
	bi := func(x bool) int64 {
		if x {
			return 1
		}
		return 0
	}
	args := fmt.Sprintf("sub=%s batches=%s msgs=%s ops=%s hwmeq=%s drip=%s double=%s kinds=%s close=%s unread=%s closed=%s res=%s",
		hx(sub), strings.Join(desc, ","), hx(int64(len(vals))), strings.Join(od, ","), hx(bi(hwmEq)), hx(bi(drip)), hx(bi(double)),
		strings.Join(kinds, ","), hx(int64(s.closeClass)), hx(int64(s.unread)), hx(bi(s.closed)), kvfmt.Ints(cls))
	own, acct, serve := "ok", "ok", "ok"
	if fg != "" {
		own = fg
	}
	open := s.closeClass != 3 && !s.closed
	if open && s.unread != 0 {
		acct = "BAD:" + hx(int64(s.unread))
	}
	if readBad != "" {
		serve = "BAD:" + strings.ReplaceAll(readBad, " ", "_")
	} else if s.closeClass == 3 {
		serve = "BAD:close-hung"
	} else if open {
		for i, c := range cls {
			if c != 1 && c != 6 && serve == "ok" {
				serve = fmt.Sprintf("BAD:%s:%s", hx(int64(i)), hx(int64(c)))
			}
		}
	}
	fmt.Printf("%s | own=%s acct=%s serve=%s | %s\n", args, own, acct, serve, feats(fs))
}
