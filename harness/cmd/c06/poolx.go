package main

// op poolx — cross-talk between kafka.Conn values through the package-level pool of
// decompression buffers (buffer.go bufferPool; messageSetReader.decompressed).
//
// One process, GOMAXPROCS(1) (sync.Pool has per-P caches), 2-3 Conns plus one used for the
// "poisoning" step.  Poisoning: a fetch whose message set cannot be set up although the high
// watermark is above the offset — an EMPTY message set, a set cut inside its first batch header,
// a partition error code — followed by ReadMessage / Close on that Batch (control: no such
// step).  Then Batches are opened on the other Conns AT THE SAME TIME over compressed record
// batches (gzip / snappy / lz4 / zstd, v1 wrapper messages and v2 batches) whose values are
// tagged per Conn and per record, read alternately with ReadMessage / Read, closed in a random
// order.  Verdict (harness + extracted monitors mon_batch_own / mon_pool_ok): every value a
// Conn's Batch returns is the next one of ITS OWN records, no read and no Close fails on this
// well-formed input.  Model: Model/BufferPool.v (a buffer is never held by two live readers as
// long as every acquire is released exactly once).

import (
	"fmt"
	"math/rand"
	"os"
	"runtime"
	"strings"
	"time"

	kafka "github.com/segmentio/kafka-go"
	"kverif/kvfmt"
	"kverif/muxfake"
)

func genPoolX(r *rand.Rand) job { return childJob("poolx", r.Int63n(1<<40)) }

func poolXChild(sub int64) {
	runtime.GOMAXPROCS(1)
	r := rand.New(rand.NewSource(sub))
	fs := map[string]bool{}
	b := muxfake.NewBroker()
	fail := func(msg string) {
		fmt.Printf("sub=%s | SETUP:%s | child\n", hx(sub), strings.ReplaceAll(msg, " ", "_"))
	}
	newConn := func() *kafka.Conn {
		kc := kafka.VerifMuxConn(b.DialEnd())
		kc.SetDeadline(time.Now().Add(3 * time.Second))
		if err := kafka.VerifLoadVersions(kc); err != nil {
			return nil
		}
		kc.Seek(batchOffset, kafka.SeekAbsolute|kafka.SeekDontCheck)
		return kc
	}
	nc := 2 + r.Intn(2)
	fs["conns="+hx(int64(nc))] = true
	fetches := map[string]muxfake.FetchBody{}
	nextN := int64(0x1000)
	tagFor := func() (int, string) {
		nextN += 0x10
		return int(nextN), muxCall{kind: "batch", n: nextN}.tag()
	}

	// ---- poisoning step
	poison := r.Intn(4) // 0 none, 1 empty set below hwm, 2 set cut in its first header, 3 partition error code
	var poisonConn *kafka.Conn
	poisonBytes, poisonTag := 0, ""
	if poison != 0 {
		poisonConn = newConn()
		if poisonConn == nil {
			fail("conn")
			return
		}
		poisonBytes, poisonTag = tagFor()
		fb := muxfake.FetchBody{HWM: batchOffset + 5}
		switch poison {
		case 1:
			fs["poison=empty"] = true
		case 2:
			ms, _ := muxfake.BuildMessageSet([]muxfake.BatchSpec{{Version: 2, Codec: 1 + r.Intn(2), Base: batchOffset, Msgs: []muxfake.Msg{{Value: []byte("poison-value")}}}})
			fb.MsgSet = ms[:1+r.Intn(60)]
			fs["poison=cutheader"] = true
		case 3:
			fb.ErrCode = 3
			fs["poison=errcode"] = true
		}
		fetches[poisonTag] = fb
	} else {
		fs["poison=none"] = true
	}

	// ---- the batches read at the same time
	type stream struct {
		kc     *kafka.Conn
		nbytes int
		vals   [][]byte
		bt     *kafka.Batch
		next   int
	}
	streams := make([]*stream, nc)
	for i := range streams {
		st := &stream{kc: newConn()}
		if st.kc == nil {
			fail("conn")
			return
		}
		var tag string
		st.nbytes, tag = tagFor()
		nb := 1 + r.Intn(3)
		specs := make([]muxfake.BatchSpec, nb)
		base := int64(batchOffset)
		for k := range specs {
			sp := &specs[k]
			sp.Version = int8(1 + r.Intn(2))
			sp.Codec = 1 + r.Intn(4)
			if sp.Version == 1 && sp.Codec == 4 {
				sp.Codec = 1 // zstd needs record batches
			}
			sp.Base = base
			for j := 1 + r.Intn(3); j > 0; j-- {
				v := []byte(fmt.Sprintf("conn%d-rec%d-", i, len(st.vals)))
				v = append(v, []byte(strings.Repeat(string(rune('a'+i)), 20+r.Intn(300)))...)
				sp.Msgs = append(sp.Msgs, muxfake.Msg{Value: v})
				st.vals = append(st.vals, v)
			}
			base += int64(len(sp.Msgs))
			fs[[]string{"", "gzip", "snappy", "lz4", "zstd"}[sp.Codec]] = true
		}
		ms, err := muxfake.BuildMessageSet(specs)
		if err != nil {
			fail(err.Error())
			return
		}
		fetches[tag] = muxfake.FetchBody{HWM: base, MsgSet: ms}
		streams[i] = st
	}
	b.SetFetch(fetches)

	// ---- run (one goroutine: the interleaving is the script)
	var res []int // per read / close: 1 own, 4 error, 6 foreign
	closeErrs := 0
	done := make(chan struct{})
	go func() {
		defer close(done)
		if poisonConn != nil {
			poisonConn.SetDeadline(time.Now().Add(time.Second))
			pb := poisonConn.ReadBatch(1, poisonBytes)
			if r.Intn(2) == 0 {
				pb.ReadMessage()
			}
			pb.Close()
			if r.Intn(2) == 0 {
				pb.Close()
			}
		}
		for _, st := range streams {
			st.kc.SetDeadline(time.Now().Add(2 * time.Second))
			st.bt = st.kc.ReadBatch(1, st.nbytes)
			if os.Getenv("C06_DEBUG") != "" {
				fmt.Fprintf(os.Stderr, "batch: err=%v hwm=%d off=%d nvals=%d\n", st.bt.Err(), st.bt.HighWaterMark(), st.bt.Offset(), len(st.vals))
			}
		}
		left := 0
		for _, st := range streams {
			left += len(st.vals)
		}
		for left > 0 {
			st := streams[r.Intn(nc)]
			if st.next >= len(st.vals) {
				continue
			}
			want := st.vals[st.next]
			var got []byte
			var err error
			if r.Intn(2) == 0 {
				var m kafka.Message
				m, err = st.bt.ReadMessage()
				got = m.Value
			} else {
				buf := make([]byte, len(want)+r.Intn(16))
				var n int
				n, err = st.bt.Read(buf)
				if n >= 0 && n <= len(buf) {
					got = buf[:n]
				}
			}
			switch {
			case err != nil:
				if os.Getenv("C06_DEBUG") != "" {
					fmt.Fprintf(os.Stderr, "read error next=%d want=%d: %v | batch err %v\n", st.next, len(want), err, st.bt.Err())
				}
				res = append(res, 4)
			case string(got) == string(want):
				res = append(res, 1)
			default:
				res = append(res, 6)
			}
			st.next++
			left--
		}
		for _, i := range r.Perm(nc) {
			if err := streams[i].bt.Close(); err != nil {
				closeErrs++
				res = append(res, 4)
			} else {
				res = append(res, 1)
			}
		}
	}()
	completed := waitDone(done, 5*time.Second)
	b.Close()
	args := fmt.Sprintf("sub=%s conns=%s poison=%s res=%s", hx(sub), hx(int64(nc)), hx(int64(poison)), kvfmt.Ints(res))
	if !completed {
		fmt.Printf("%s | HANG | %s\n", args, feats(fs))
		return
	}
	own, ok := "ok", "ok"
	for i, c := range res {
		if c == 6 && own == "ok" {
			own = "BAD:" + hx(int64(i))
		}
		if c != 1 && c != 6 && ok == "ok" {
			ok = "BAD:" + hx(int64(i))
		}
	}
	fmt.Printf("%s | own=%s ok=%s | %s\n", args, own, ok, feats(fs))
}
