package main

// op trmeta — C17 "the Reader and Writer continue on a new connection", for the very first
// exchange of a Transport's connection pool: the FIRST metadata response of a fresh Transport is
// cut after k bytes (nothing, inside the size prefix, inside the body, all but the last byte) and
// the connection closed; every later request is answered in full.  Within 10 MetadataTTLs plus
// slack Client.Metadata must succeed, and a Writer.WriteMessages must deliver its record
// exactly once (the fake's log of received produce records holds the value once).
// Predicates (harness + extracted monitor mon_recover): meta recovered, write succeeded,
// record count = 1.

import (
	"context"
	"fmt"
	"math/rand"
	"time"

	kafka "github.com/segmentio/kafka-go"
	"kverif/muxfake"
)

func genTRMeta(r *rand.Rand) job {
	act := muxfake.Action{Cut: muxfake.CutAt, Once: true}
	fs := map[string]bool{}
	switch r.Intn(5) {
	case 0:
		act.CutK = 0
		fs["k=0"] = true
	case 1:
		act.CutK = 1 + r.Intn(3)
		fs["k=size"] = true
	case 2:
		act.CutK = 4 + r.Intn(8)
		fs["k=header"] = true
	case 3:
		act.CutK = muxfake.CutKMid
		fs["k=mid"] = true
	default:
		act.CutK = muxfake.CutKLast
		fs["k=last"] = true
	}
	ttl := time.Duration(20+r.Intn(20)) * time.Millisecond
	value := "v" + hx(int64(r.Intn(1<<30)))

	return job{op: "trmeta", run: func() result {
		b := muxfake.NewBroker("prime")
		b.SetRecords(map[string][]muxfake.RecSpec{}) // produce answers on
		b.SetScript(map[string]muxfake.Action{"md:*": act})
		tr := &kafka.Transport{Dial: b.Dial, MetadataTTL: ttl}
		client := &kafka.Client{Addr: fakeAddr, Transport: tr}
		defer func() { b.Close(); tr.CloseIdleConnections() }()

		// Client.Metadata until it succeeds, at most 10 TTLs + 600 ms
		limit := time.Now().Add(10*ttl + 600*time.Millisecond)
		tries, metaOK := 0, false
		for time.Now().Before(limit) {
			ctx, cancel := context.WithTimeout(context.Background(), 300*time.Millisecond)
			res, err := client.Metadata(ctx, &kafka.MetadataRequest{Topics: []string{"prime"}})
			cancel()
			tries++
			if err == nil && res != nil && len(res.Topics) == 1 && res.Topics[0].Name == "prime" && res.Topics[0].Error == nil {
				metaOK = true
				break
			}
			time.Sleep(4 * time.Millisecond)
		}
		w := &kafka.Writer{Addr: fakeAddr, Topic: "prime", Transport: tr, BatchTimeout: time.Millisecond, MaxAttempts: 10,
			WriteBackoffMin: 5 * time.Millisecond, WriteBackoffMax: 20 * time.Millisecond, RequiredAcks: kafka.RequireAll}
		wctx, wcancel := context.WithTimeout(context.Background(), 1500*time.Millisecond)
		werr := w.WriteMessages(wctx, kafka.Message{Value: []byte(value)})
		wcancel()
		cctx := make(chan struct{})
		go func() { w.Close(); close(cctx) }()
		waitDone(cctx, time.Second)
		count := 0
		for _, v := range b.Produced() {
			if v == value {
				count++
			}
		}
		k, n, _ := b.CutOf("md:*")
		bi := func(x bool) int64 {
			if x {
				return 1
			}
			return 0
		}
		args := fmt.Sprintf("k=%s len=%s ttl=%s tries=%s meta=%s write=%s count=%s", hx(int64(k)), hx(int64(n)), hx(int64(ttl/time.Millisecond)),
			hx(int64(tries)), hx(bi(metaOK)), hx(bi(werr == nil)), hx(int64(count)))
		verdict := "ok"
		if !metaOK || werr != nil || count != 1 {
			verdict = "BAD"
		}
		return result{args, "recover=" + verdict, feats(fs)}
	}}
}
