package main

// op trsplit — one Transport call that the Transport SPLITS into several exchanges
// (protocol.Splitter) and merges back: C06 at the level of the sub-exchanges of one call.
//
// A cluster of 2-4 brokers (all served by the muxfake, told apart by the dialled address).
//   kind lo : a protocol-level listoffsets.Request with several (partition, timestamp) questions
//             — first (-2), last (-1), a real timestamp — for partitions led by different brokers;
//             the broker answers 1000p+1 / 1000p+999 / 1000p+100+ts%800 and, like a real broker,
//             does not echo the special timestamps: which question an answer belongs to is only
//             known from the exchange that carried it (listoffsets.Response.Merge pairs by index);
//   kind lg : listgroups.Request (one exchange per broker; Merge labels the groups of result i
//             with the broker id of request i), broker b owns the groups grp-b-0, grp-b-1.
// Some brokers' connections are pre-warmed and some are not, the ApiVersions handshake and every
// answer have their own small delays, so hand-overs and answers complete out of request order.
// Predicate (harness + extracted monitor mon_split): every question gets exactly one delivered
// answer, and it is the answer the broker produced for THAT question.

import (
	"context"
	"fmt"
	"math/rand"
	"strconv"
	"strings"
	"time"

	kafka "github.com/segmentio/kafka-go"
	"github.com/segmentio/kafka-go/protocol/listgroups"
	"github.com/segmentio/kafka-go/protocol/listoffsets"
	"kverif/muxfake"
)

type splitQ struct {
	p  int32
	ts int64
}

func genTRSplit(r *rand.Rand) job {
	B := 2 + r.Intn(3)
	P := 2 + r.Intn(5)
	kind := "lo"
	if r.Intn(6) == 0 {
		kind = "lg"
	}
	fs := map[string]bool{"kind=" + kind: true, "brokers=" + hx(int64(B)): true}
	topic := "split" + hx(int64(r.Intn(0xffff)))
	var qs []splitQ
	if kind == "lo" {
		samePart := false
		for len(qs) < 2 {
			qs = qs[:0]
			for p := 0; p < P; p++ {
				if r.Intn(4) == 0 {
					continue
				}
				cand := []int64{-2, -1, int64(1 + r.Intn(790))}
				n := 0
				for _, ts := range cand {
					if r.Intn(2) == 0 {
						qs = append(qs, splitQ{int32(p), ts})
						n++
					}
				}
				samePart = samePart || n >= 2
			}
		}
		r.Shuffle(len(qs), func(i, j int) { qs[i], qs[j] = qs[j], qs[i] })
		if samePart {
			fs["samepartition"] = true
		}
		fs["questions="+hx(int64(len(qs)))] = true
	}
	var warm []int
	for id := 1; id <= B; id++ {
		if r.Intn(2) == 0 {
			warm = append(warm, id)
		}
	}
	switch {
	case len(warm) == 0:
		fs["cold"] = true
	case len(warm) == B:
		fs["warm"] = true
	default:
		fs["mixed"] = true
	}
	script := map[string]muxfake.Action{"av": {Delay: time.Duration(1+r.Intn(4)) * time.Millisecond}}
	for _, q := range qs {
		script["ls:"+strconv.FormatInt(int64(q.p), 16)+":"+strconv.FormatInt(q.ts, 16)] = muxfake.Action{Delay: time.Duration(r.Intn(5)) * time.Millisecond}
	}
	if kind == "lg" {
		script["lg"] = muxfake.Action{Delay: time.Duration(r.Intn(3)) * time.Millisecond}
	}

	return job{op: "trsplit", run: func() result {
		b := muxfake.NewBroker("prime")
		b.SetCluster(B, topic, P)
		tr := &kafka.Transport{Dial: b.Dial}
		ctx, cancel := context.WithTimeout(context.Background(), 3*time.Second)
		defer cancel()
		setupErr := ""
		lo := func(qs []splitQ) (*listoffsets.Response, error) {
			parts := make([]listoffsets.RequestPartition, len(qs))
			for i, q := range qs {
				parts[i] = listoffsets.RequestPartition{Partition: q.p, CurrentLeaderEpoch: -1, Timestamp: q.ts}
			}
			m, err := tr.RoundTrip(ctx, fakeAddr, &listoffsets.Request{ReplicaID: -1, Topics: []listoffsets.RequestTopic{{Topic: topic, Partitions: parts}}})
			if err != nil {
				return nil, err
			}
			return m.(*listoffsets.Response), nil
		}
		// warm-up: one exchange with each pre-warmed broker (partition id-1 is led by broker id)
		for _, id := range warm {
			if id-1 < P {
				if _, err := lo([]splitQ{{int32(id - 1), -1}}); err != nil {
					setupErr = "SETUP:" + err.Error()
				}
			}
		}
		nq := len(b.QAs())
		b.SetScript(script)

		type qa = muxfake.QA
		var asked [][2]int64
		var delivered []qa
		callErr := ""
		if kind == "lo" {
			for _, q := range qs {
				asked = append(asked, [2]int64{int64(q.p), q.ts})
			}
			res, err := lo(qs)
			if err != nil {
				callErr = err.Error()
			} else {
				for _, t := range res.Topics {
					for _, p := range t.Partitions {
						v := p.Offset
						if p.ErrorCode != 0 {
							v = -int64(p.ErrorCode) - 1000000
						}
						delivered = append(delivered, qa{K1: int64(p.Partition), K2: p.Timestamp, Val: v})
					}
				}
			}
		} else {
			for id := 1; id <= B; id++ {
				asked = append(asked, [2]int64{int64(id), 0}, [2]int64{int64(id), 1})
			}
			m, err := tr.RoundTrip(ctx, fakeAddr, &listgroups.Request{})
			if err != nil {
				callErr = err.Error()
			} else {
				for _, g := range m.(*listgroups.Response).Groups {
					var gb, gk int64
					fmt.Sscanf(g.GroupID, "grp-%d-%d", &gb, &gk)
					delivered = append(delivered, qa{K1: gb, K2: gk, Val: int64(g.BrokerID)})
				}
			}
		}
		bq := b.QAs()[nq:]
		b.Close()
		tr.CloseIdleConnections()

		f2 := func(l [][2]int64) string {
			s := make([]string, len(l))
			for i, x := range l {
				s[i] = hx(x[0]) + ":" + hx(x[1])
			}
			if len(s) == 0 {
				return "."
			}
			return strings.Join(s, ",")
		}
		f3 := func(l []qa) string {
			s := make([]string, len(l))
			for i, x := range l {
				s[i] = hx(x.K1) + ":" + hx(x.K2) + ":" + hx(x.Val)
			}
			if len(s) == 0 {
				return "."
			}
			return strings.Join(s, ",")
		}
		ws := make([]string, len(warm))
		for i, w := range warm {
			ws[i] = hx(int64(w))
		}
		wstr := "-"
		if len(ws) > 0 {
			wstr = strings.Join(ws, ".")
		}
		args := fmt.Sprintf("kind=%s B=%s P=%s warm=%s q=%s bq=%s d=%s", kind, hx(int64(B)), hx(int64(P)), wstr, f2(asked), f3(bq), f3(delivered))
		if setupErr != "" {
			return result{args, setupErr, feats(fs)}
		}
		if callErr != "" {
			return result{args, "split=ERR", feats(fs)}
		}
		verdict := "ok"
		if len(delivered) != len(asked) {
			verdict = "BAD"
		}
		for _, q := range asked {
			n, good := 0, false
			for _, d := range delivered {
				if d.K1 == q[0] && d.K2 == q[1] {
					n++
					for _, x := range bq {
						good = good || x == d
					}
				}
			}
			if n != 1 || !good {
				verdict = "BAD"
			}
		}
		return result{args, "split=" + verdict, feats(fs)}
	}}
}
