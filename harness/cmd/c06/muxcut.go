package main

// op muxcut — the concurrent Conn half of "a response cut off at any byte yields an error and
// nobody blocks beyond the deadline" (C17), on the machinery of op mux.
//
// 2-3 goroutines issue one operation each on ONE kafka.Conn (ReadOffset, ReadPartitions,
// findCoordinator, offsetFetch, ApiVersions) under a connection deadline of 300 ms.  Once all
// requests have arrived the broker writes only the first k bytes of the answer to the request
// that arrived FIRST (k: nothing, inside the size prefix, inside the correlation id, exactly the
// 8 header bytes, 9-11, the middle of the body, all but the last byte) and closes the connection
// — or goes silent (every other answer is dropped) so that the deadline fires.  Afterwards one
// more ReadOffset is attempted on the same Conn.
// Result classes per call: 1 ok, 2 Kafka error, 3 io.ErrNoProgress, 4 other error, 5 still
// running at the 2 s watchdog.  Predicates (harness + extracted monitor mon_conn_cut): every
// pending call returned an error, none hangs, the later call fails too and puts nothing on the
// wire.  The history also goes through the linearisation search of the ConnMux model.

import (
	"fmt"
	"math/rand"
	"strings"
	"sync"
	"time"

	kafka "github.com/segmentio/kafka-go"
	"kverif/kvfmt"
	"kverif/muxfake"
)

func genMuxCut(r *rand.Rand) job {
	T := 2 + r.Intn(2)
	calls := make([]muxCall, T)
	used := map[int64]bool{}
	haveAV := false
	fs := map[string]bool{"threads=" + hx(int64(T)): true}
	for i := range calls {
		c := &calls[i]
		switch x := r.Intn(10); {
		case x < 3:
			c.kind = "ro"
		case x < 5:
			c.kind = "rp"
		case x < 7:
			c.kind = "fc"
		case x < 9:
			c.kind = "of"
		case !haveAV:
			c.kind, haveAV = "av", true
		default:
			c.kind = "ro"
		}
		for {
			c.n = int64(0x10 + r.Intn(0xfff0))
			if !used[c.n] {
				used[c.n] = true
				break
			}
		}
		c.stagger = time.Duration(r.Intn(1500)) * time.Microsecond
		fs["kind="+c.kind] = true
	}
	act := muxfake.Action{Cut: muxfake.CutAt}
	switch r.Intn(7) {
	case 0:
		act.CutK = r.Intn(4)
		fs["k=size"] = true
	case 1:
		act.CutK = 4 + r.Intn(4)
		fs["k=corr"] = true
	case 2:
		act.CutK = 8
		fs["k=8"] = true
	case 3:
		act.CutK = 9 + r.Intn(3)
		fs["k=body0"] = true
	case 4, 5:
		act.CutK = muxfake.CutKMid
		fs["k=mid"] = true
	default:
		act.CutK = muxfake.CutKLast
		fs["k=last"] = true
	}
	silent := r.Intn(3) == 0
	if silent {
		act.Cut = muxfake.CutSilent
		fs["silent"] = true
	} else {
		fs["close"] = true
	}
	needVersions := false
	for _, c := range calls {
		if c.kind == "rp" {
			needVersions = true
		}
	}

	return job{op: "muxcut", run: func() result {
		b := muxfake.NewBroker()
		cl := b.DialEnd()
		kc := kafka.VerifMuxConn(cl)
		setupErr := ""
		if needVersions {
			kc.SetDeadline(time.Now().Add(3 * time.Second))
			if err := kafka.VerifLoadVersions(kc); err != nil {
				setupErr = "SETUP:" + err.Error()
			}
			kc.SetDeadline(time.Time{})
		}
		// every answer is dropped; the gate's opening picks the victim (see below)
		script := map[string]muxfake.Action{}
		for _, c := range calls {
			script[c.tag()] = muxfake.Action{Drop: true}
		}
		b.SetScript(script)
		nreq, nans := b.Mark()
		kc.SetDeadline(time.Now().Add(300 * time.Millisecond))

		var mu sync.Mutex
		classes := make([]int, T)
		for i := range classes {
			classes[i] = 5
		}
		var wg sync.WaitGroup
		started := make(chan struct{})
		for i := range calls {
			wg.Add(1)
			go func(i int) {
				defer wg.Done()
				c := calls[i]
				<-started
				time.Sleep(c.stagger)
				err, ok, _ := c.run(kc)
				cls := classify(err)
				if err == nil && !ok {
					cls = 6 // foreign value
				}
				mu.Lock()
				classes[i] = cls
				mu.Unlock()
			}(i)
		}
		close(started)
		// wait until all T requests are at the broker (they are all dropped), then answer the one
		// that arrived first with a cut frame: a second, identical request is never needed — the
		// broker replays the victim's request through a one-shot script entry.
		callOf := map[string]int{}
		for i, c := range calls {
			callOf[c.tag()] = i
		}
		var snd []int
		victim := -1
		for t0 := time.Now(); time.Since(t0) < 200*time.Millisecond; time.Sleep(500 * time.Microsecond) {
			reqs, _ := b.Journal(nreq, nans)
			snd = snd[:0]
			for _, q := range reqs {
				if i, ok := callOf[q.Tag]; ok {
					snd = append(snd, i)
				}
			}
			if len(snd) == T {
				break
			}
		}
		ck, cn := 0, 0
		if len(snd) > 0 {
			victim = snd[0]
			ck, cn = b.AnswerAgain(0, calls[victim].tag(), act)
		}
		done := make(chan struct{})
		go func() { wg.Wait(); close(done) }()
		completed := waitDone(done, 2*time.Second)

		// a later call on the same Conn
		n1, _ := b.Mark()
		postClass, postNew := 5, 0
		if completed {
			pd := make(chan struct{})
			go func() {
				kc.SetDeadline(time.Now().Add(300 * time.Millisecond))
				_, err := kc.ReadOffset(time.UnixMilli(0x7777))
				mu.Lock()
				postClass = classify(err)
				mu.Unlock()
				close(pd)
			}()
			waitDone(pd, 2*time.Second)
			n2, _ := b.Mark()
			postNew = n2 - n1
		}
		mu.Lock()
		cls := append([]int(nil), classes...)
		pc := postClass
		mu.Unlock()

		kinds := make([]string, T)
		for i, c := range calls {
			kinds[i] = c.class()
		}
		env := "c"
		if silent {
			env = "d"
		}
		args := fmt.Sprintf("T=%s kinds=%s snd=%s arr=. env=%s victim=%s k=%s len=%s res=%s post=%s:%s",
			hx(int64(T)), strings.Join(kinds, ","), kvfmt.Ints(snd), env, hx(int64(victim)), hx(int64(ck)), hx(int64(cn)),
			kvfmt.Ints(cls), hx(int64(pc)), hx(int64(postNew)))
		if !completed {
			releaseSpinners(kc, done)
			go func() { waitDone(done, 3*time.Second); b.Close(); cl.Close() }()
		} else {
			b.Close()
			cl.Close()
		}
		if setupErr != "" {
			return result{args, setupErr, feats(fs)}
		}
		cut, hang, post := "ok", "ok", "ok"
		for i, c := range cls {
			if c == 5 && hang == "ok" {
				hang = "BAD:" + hx(int64(i))
			}
			if c != 3 && c != 4 && c != 5 && cut == "ok" {
				cut = fmt.Sprintf("BAD:%s:%s", hx(int64(i)), hx(int64(c)))
			}
		}
		if (pc != 3 && pc != 4) || postNew != 0 {
			post = fmt.Sprintf("BAD:%s:%s", hx(int64(pc)), hx(int64(postNew)))
		}
		return result{args, fmt.Sprintf("cut=%s hang=%s post=%s", cut, hang, post), feats(fs)}
	}}
}
