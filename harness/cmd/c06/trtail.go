package main

// op trtail — a Fetch response through the Transport whose record set ends, after 1-3 complete
// record batches, with a truncated fragment of n bytes (1..60: the usual MaxBytes truncation of
// the last batch), then 1-2 more round trips on the same pooled connection.  The fragment is
// crafted: read as a frame header it says [size = rest of the fragment][correlation id of the
// next request on this connection].  Every call asks for something only it asks for (fetch
// topics are filled with their own letter, ListOffsets answers derive from the topic).
// Verdict (harness + extracted monitors): every call gets its own answer (no foreign / invented
// value, no error: nothing is faulty here) — the connection is handed back to the pool at a
// frame boundary (C06_released_at_frame_boundary); the wire journal goes through mon_ids/mon_fail.

import (
	"bytes"
	"context"
	"fmt"
	"math/rand"
	"os"
	"strings"
	"time"

	kafka "github.com/segmentio/kafka-go"
	"github.com/segmentio/kafka-go/protocol"
	"github.com/segmentio/kafka-go/protocol/listoffsets"
	"kverif/muxfake"
)

func genTRTail(r *rand.Rand) job {
	K := 1 + r.Intn(2)
	letters := "ABCDEFG"
	tailLen := 1 + r.Intn(60)
	if r.Intn(3) == 0 {
		tailLen = 1 + r.Intn(16) // below the 17 bytes a batch header needs: silently dropped tail
	}
	type call struct {
		kind  string // fe lo
		topic string
		n     int64
	}
	calls := make([]call, 1+K)
	recs := map[string][]muxfake.RecSpec{}
	topics := []string{"prime"}
	fs := map[string]bool{"follow=" + hx(int64(K)): true}
	switch {
	case tailLen < 8:
		fs["tail<8"] = true
	case tailLen < 17:
		fs["tail<17"] = true
	default:
		fs["tail>=17"] = true
	}
	for i := range calls {
		c := &calls[i]
		c.kind = "fe"
		if i > 0 && r.Intn(2) == 0 {
			c.kind = "lo"
		}
		c.n = int64(0x10 + r.Intn(0xfff0))
		if c.kind == "fe" {
			c.topic = "pg" + hx(c.n) + letters[i:i+1]
			var sp []muxfake.RecSpec
			for j := 1 + r.Intn(3); j > 0; j-- {
				sp = append(sp, muxfake.RecSpec{KeyMode: r.Intn(3), KeyLen: 3, ValueLen: 10 + r.Intn(200)})
			}
			recs[c.topic] = sp
		} else {
			c.topic = "x" + hx(c.n)
		}
		topics = append(topics, c.topic)
		fs["kind="+c.kind] = true
	}
	tails := map[string]int{calls[0].topic: tailLen}
	if K == 2 && calls[1].kind == "fe" && r.Intn(2) == 0 {
		tails[calls[1].topic] = 1 + r.Intn(60)
		fs["tail2"] = true
	}

	return job{op: "trtail", run: func() result {
		b := muxfake.NewBroker(topics...)
		b.SetRecords(recs)
		b.SetTails(tails)
		tr := &kafka.Transport{Dial: b.Dial, MetadataTTL: time.Hour, IdleTimeout: time.Hour}
		client := &kafka.Client{Addr: fakeAddr, Transport: tr}
		defer func() { b.Close(); tr.CloseIdleConnections() }()
		if err := prime(tr); err != nil {
			return result{"n=" + hx(int64(1+K)), "SETUP:" + err.Error(), feats(fs)}
		}

		classes := make([]int, len(calls))
		done := make(chan struct{})
		go func() {
			defer close(done)
			for i, c := range calls {
				ctx, cancel := context.WithTimeout(context.Background(), 4*time.Second)
				switch c.kind {
				case "fe":
					res, err := client.Fetch(ctx, &kafka.FetchRequest{Topic: c.topic, Partition: 0, Offset: 0, MinBytes: 1, MaxBytes: 1 << 20, MaxWait: 100 * time.Millisecond})
					switch {
					case err != nil:
						if os.Getenv("C06_DEBUG") != "" {
							fmt.Fprintf(os.Stderr, "trtail fetch %d topic %s specs %v tails %v: %v\n", i, c.topic, recs[c.topic], tails, err)
						}
						classes[i] = 3
					case res.Topic != c.topic || res.Error != nil:
						classes[i] = 6
					default:
						letter := c.topic[len(c.topic)-1]
						classes[i] = 1
						nrec := 0
						for {
							rec, err := res.Records.ReadRecord()
							if err != nil {
								break
							}
							v, _ := protocol.ReadAll(rec.Value)
							if len(v) != recs[c.topic][nrec%len(recs[c.topic])].ValueLen || bytes.Count(v, []byte{letter}) != len(v) {
								classes[i] = 6
							}
							nrec++
						}
						if nrec != len(recs[c.topic]) {
							classes[i] = 6
						}
					}
				case "lo":
					m, err := tr.RoundTrip(ctx, fakeAddr, &listoffsets.Request{ReplicaID: -1, Topics: []listoffsets.RequestTopic{{
						Topic: c.topic, Partitions: []listoffsets.RequestPartition{{Partition: 0, CurrentLeaderEpoch: -1, Timestamp: -1}}}}})
					if err != nil {
						classes[i] = 3
					} else if lr, ok := m.(*listoffsets.Response); ok && len(lr.Topics) == 1 && lr.Topics[0].Topic == c.topic &&
						len(lr.Topics[0].Partitions) == 1 && lr.Topics[0].Partitions[0].Offset == muxfake.OffsetForTag(c.n) {
						classes[i] = 1
					} else {
						classes[i] = 6
					}
				}
				cancel()
			}
		}()
		completed := waitDone(done, 14*time.Second)
		reqs, _ := b.Journal(0, 0)
		var rq []string
		for x, q := range reqs {
			k := "-"
			_ = x
			rq = append(rq, fmt.Sprintf("%s:%s:%s", hx(int64(q.Conn)), hx(int64(q.Corr)), k))
		}
		cl := make([]string, len(classes))
		kd := make([]string, len(calls))
		for i := range classes {
			cl[i] = hx(int64(classes[i]))
			kd[i] = calls[i].kind
		}
		args := fmt.Sprintf("n=%s tail=%s kinds=%s req=%s res=%s", hx(int64(1+K)), hx(int64(tailLen)), strings.Join(kd, ","), strings.Join(rq, ","), strings.Join(cl, ","))
		if !completed {
			return result{args, "HANG", feats(fs)}
		}
		own, serve := "ok", "ok"
		for i, c := range classes {
			if c == 6 && own == "ok" {
				own = "BAD:" + hx(int64(i))
			}
			if c != 1 && c != 6 && serve == "ok" {
				serve = fmt.Sprintf("BAD:%s:%s", hx(int64(i)), hx(int64(c)))
			}
		}
		ids := "ok"
		last := map[int]int32{}
		for _, q := range reqs {
			if prev, ok := last[q.Conn]; ok && q.Corr <= prev && ids == "ok" {
				ids = fmt.Sprintf("BAD:%s:%s", hx(int64(q.Conn)), hx(int64(q.Corr)))
			}
			last[q.Conn] = q.Corr
		}
		return result{args, fmt.Sprintf("own=%s serve=%s ids=%s", own, serve, ids), feats(fs)}
	}}
}
